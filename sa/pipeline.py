"""F6 — abstract execution of a pass-pipeline builder.

The builder function is a straight sequence of `<list>.append(PassClass(...))` statements under `if`s
on option flags (and a `for` over the registered accelerators).  It is executed abstractly for every
valuation of the atoms that occur in its `if` tests; loops contribute their body once.  The result is,
per valuation, the ordered list of pass class names.
"""

from __future__ import annotations

import ast
import itertools

from . import norm
from .errors import AnalysisError
from .model import Func


def _atoms_of(test: ast.expr) -> list[str]:
    out = []
    for n in ast.walk(test):
        if isinstance(n, (ast.Name, ast.Attribute)) and not isinstance(getattr(n, "ctx", None), ast.Store):
            # maximal name/attribute chains only
            out.append(n)
    # keep maximal chains
    texts = []
    for n in out:
        t = ast.unparse(n)
        if not any(t != ast.unparse(m) and ast.unparse(m).startswith(t + ".") for m in out):
            texts.append(t)
    return sorted(set(texts))


def _eval(test: ast.expr, val: dict[str, bool]) -> bool:
    if isinstance(test, ast.BoolOp):
        vs = [_eval(v, val) for v in test.values]
        return all(vs) if isinstance(test.op, ast.And) else any(vs)
    if isinstance(test, ast.UnaryOp) and isinstance(test.op, ast.Not):
        return not _eval(test.operand, val)
    t = ast.unparse(test)
    if t in val:
        return val[t]
    raise AnalysisError(f"pipeline builder: condition `{t}` is not a combination of option flags")


def pipelines(f: Func, list_name: str | None = None) -> dict[tuple[tuple[str, bool], ...], list[str]]:
    """valuation -> ordered pass class names appended to the pipeline list"""
    # the list variable: the one most `.append(` calls go to
    counts: dict[str, int] = {}
    for n in ast.walk(f.node):
        if isinstance(n, ast.Call) and isinstance(n.func, ast.Attribute) and n.func.attr == "append" and isinstance(n.func.value, ast.Name):
            counts[n.func.value.id] = counts.get(n.func.value.id, 0) + 1
    if not counts:
        raise AnalysisError(f"{f.where}: no pipeline list found")
    lst = list_name or max(counts, key=lambda k: counts[k])
    flags: list[str] = []
    for n in ast.walk(f.node):
        if isinstance(n, ast.If):
            for a in _atoms_of(n.test):
                if a not in flags:
                    flags.append(a)
    if len(flags) > 8:
        raise AnalysisError(f"{f.where}: {len(flags)} option flags, more than the enumeration bound 8")
    out: dict[tuple[tuple[str, bool], ...], list[str]] = {}

    def run(stmts: list[ast.stmt], val: dict[str, bool], acc: list[str]) -> None:
        for st in stmts:
            if isinstance(st, ast.If):
                run(st.body if _eval(st.test, val) else st.orelse, val, acc)
            elif isinstance(st, (ast.For, ast.While)):
                run(st.body, val, acc)
            elif isinstance(st, ast.Expr) and isinstance(st.value, ast.Call):
                c = st.value
                if isinstance(c.func, ast.Attribute) and c.func.attr in ("append", "extend", "insert") and isinstance(c.func.value, ast.Name) and c.func.value.id == lst:
                    if c.func.attr == "insert":
                        raise AnalysisError(f"{f.where}: pipeline list is modified with insert(): order not derivable")
                    for a in c.args:
                        elts = a.elts if isinstance(a, (ast.List, ast.Tuple)) else [a]
                        for e in elts:
                            if isinstance(e, ast.Call):
                                fn = e.func
                                acc.append(fn.attr if isinstance(fn, ast.Attribute) else fn.id if isinstance(fn, ast.Name) else ast.unparse(fn))
                            else:
                                raise AnalysisError(f"{f.where}:{st.lineno}: pipeline element `{ast.unparse(e)}` is not a pass construction")
            elif isinstance(st, (ast.Try, ast.With, ast.Match)):
                raise AnalysisError(f"{f.where}:{st.lineno}: statement kind {type(st).__name__} in the pipeline builder")
            # other statements (asserts, nested defs, assignments) do not change the list

    for bits in itertools.product([False, True], repeat=len(flags)):
        val = dict(zip(flags, bits))
        acc: list[str] = []
        run(f.node.body, val, acc)
        out[tuple(sorted(val.items()))] = acc
    # the list must not be re-ordered afterwards
    for n in ast.walk(f.node):
        if isinstance(n, ast.Call) and isinstance(n.func, ast.Attribute) and isinstance(n.func.value, ast.Name) and n.func.value.id == lst \
                and n.func.attr in ("sort", "reverse", "pop", "remove", "clear"):
            raise AnalysisError(f"{f.where}: pipeline list is modified with {n.func.attr}(): order not derivable")
    return out

"""E5 — sequence-shape abstract interpreter.

Abstractly executes list-building code and returns a *symbolic sequence*:

    Seq  ::= Item*
    Item ::= One(label)                 one element; label = name stem / value provenance tokens
           | Rep(domain, Seq)           one copy of Seq per element of a symbolic domain
           | Opt(cond, Seq, Seq)        conditional segment
           | Unk(why)                   length not statically expressible

Loop variables are renamed positionally ($0 = variable of the outermost enclosing Rep, ...), iteration
domains are normalised (enumerate / zip / range(len(x)) / range(x.<length alias>)), option tests
`any(isinstance(o, C) for o in s.opts)` become `Has(C)@s`.  If-branches that append sequences with the same
skeleton are merged (labels joined); a branch ending in continue/return/raise folds the rest of the block
into the other branch.  Method calls on `self` that return sequences are resolved through the MRO and inlined.
"""

from __future__ import annotations

import ast
import copy
from dataclasses import dataclass, field
from typing import Callable

from . import norm
from .errors import AnalysisError
from .model import Cls, Func, Repo


@dataclass(frozen=True)
class One:
    label: str = ""

    def skel(self):
        return ("one",)


@dataclass(frozen=True)
class Rep:
    dom: str
    body: tuple

    def skel(self):
        return ("rep", self.dom, skeleton(self.body))


@dataclass(frozen=True)
class Opt:
    cond: str
    then: tuple
    els: tuple = ()

    def skel(self):
        return ("opt", self.cond, skeleton(self.then), skeleton(self.els))


@dataclass(frozen=True)
class Unk:
    why: str

    def skel(self):
        return ("unk", self.why)


Seq = tuple


def skeleton(seq) -> tuple:
    return tuple(i.skel() for i in seq)


def show(seq, ind: int = 0) -> str:
    out = []
    for it in seq:
        p = "  " * ind
        if isinstance(it, One):
            out.append(f"{p}One[{it.label}]")
        elif isinstance(it, Rep):
            out.append(f"{p}Rep over {it.dom}:")
            out.append(show(it.body, ind + 1))
        elif isinstance(it, Opt):
            out.append(f"{p}Opt {it.cond}:")
            out.append(show(it.then, ind + 1))
            if it.els:
                out.append(f"{p}else:")
                out.append(show(it.els, ind + 1))
        else:
            out.append(f"{p}Unk({it.why})")
    return "\n".join(x for x in out if x)


def flat_text(seq) -> str:
    parts = []
    for it in seq:
        if isinstance(it, One):
            parts.append(f"1[{it.label}]")
        elif isinstance(it, Rep):
            parts.append(f"Rep({it.dom}){{{flat_text(it.body)}}}")
        elif isinstance(it, Opt):
            parts.append(f"Opt({it.cond}){{{flat_text(it.then)}}}" + (f"else{{{flat_text(it.els)}}}" if it.els else ""))
        elif isinstance(it, Unk):
            parts.append(f"?({it.why})")
        else:
            parts.append(f"*{getattr(it, 'ref', it)}")
    return " ".join(parts)


class _AList:
    def __init__(self, items=None):
        self.items: list = list(items or [])


# length aliases: `@property def temporal_dim(self): return len(self.temporal_dims)`
def length_aliases(repo: Repo) -> dict[str, str]:
    out: dict[str, str] = {}
    for c in repo.all_classes():
        for name, f in c.methods.items():
            if any("property" in d for d in f.decorators()) and len(f.node.body) >= 1:
                body = [s for s in f.node.body if not (isinstance(s, ast.Expr) and isinstance(s.value, ast.Constant))]
                if len(body) == 1 and isinstance(body[0], ast.Return):
                    m = norm.match(norm.T("len($x)"), body[0].value) if body[0].value is not None else None
                    if m is not None and isinstance(m["x"], ast.Attribute) and isinstance(m["x"].value, ast.Name) and m["x"].value.id == "self":
                        out[name] = m["x"].attr
    return out


class ShapeInterp:
    def __init__(self, repo: Repo, cls: Cls | None = None, vocab: tuple[str, ...] = (), dom_alias: dict[str, str] | None = None,
                 inline: bool = True, stem: Callable[[ast.expr], str | None] | None = None):
        self.repo = repo
        self.cls = cls
        self.vocab = vocab
        self.aliases = length_aliases(repo)
        self.dom_alias = dom_alias or {}
        self.inline = inline
        self.stem = stem
        self._stack: list[str] = []

    # ------------------------------------------------------------------ entry
    def function(self, f: Func) -> list[Seq]:
        """shapes of the sequences a function can return (one per return statement / merged)"""
        if f.key in self._stack:
            return [(Unk(f"recursion {f.name}"),)]
        self._stack.append(f.key)
        try:
            self.returns: list[Seq] = []
            rets: list[Seq] = []
            env: dict = {}
            cones: dict = {}
            ren: dict = {}
            st = _Frame(self, f, rets)
            st.block(f.node.body, env, cones, ren, depth=0)
            return rets
        finally:
            self._stack.pop()

    def method(self, name: str) -> list[Seq]:
        if self.cls is None:
            raise AnalysisError("no class context")
        f = self.repo.find_method(self.cls, name)
        if f is None:
            raise AnalysisError(f"method {name} not found for {self.cls.name}")
        return self.function(f)


class _Frame:
    def __init__(self, it: ShapeInterp, f: Func, rets: list):
        self.it = it
        self.f = f
        self.rets = rets
        # local helpers (closures) of the analysed function
        self.local_defs: dict[str, ast.FunctionDef] = {n.name: n for n in f.node.body if isinstance(n, ast.FunctionDef)}
        # locals that name a paired / numbered iteration: `pairs = zip(A, B)` ... `for i, (a, b) in enumerate(pairs)`
        self.iter_defs: dict[str, ast.expr] = {}
        stores: dict[str, int] = {}
        for n in ast.walk(f.node):
            if isinstance(n, ast.Name) and isinstance(n.ctx, ast.Store):
                stores[n.id] = stores.get(n.id, 0) + 1
        for n in ast.walk(f.node):
            if isinstance(n, ast.Assign) and len(n.targets) == 1 and isinstance(n.targets[0], ast.Name) and stores.get(n.targets[0].id) == 1 and isinstance(n.value, ast.Call) \
                    and isinstance(n.value.func, ast.Name) and n.value.func.id in ("zip", "enumerate", "reversed"):
                self.iter_defs[n.targets[0].id] = n.value

    # ------------------------------------------------------------------ names / labels
    def _ren(self, e: ast.AST, ren: dict) -> str:
        """source text with loop variables renamed positionally"""
        e2 = copy.deepcopy(e)
        for n in ast.walk(e2):
            if isinstance(n, ast.Name) and n.id in ren:
                n.id = ren[n.id]
        return ast.unparse(e2)

    def cone(self, node: ast.AST, cones: dict) -> set[str]:
        toks: set[str] = set()
        # the test of a conditional expression decides which value is taken, it is not part of the value (as for an `if` statement)
        skip: set[int] = set()
        for n in ast.walk(node):
            if isinstance(n, ast.IfExp):
                skip |= {id(x) for x in ast.walk(n.test)}
        for n in ast.walk(node):
            if id(n) in skip:
                continue
            if isinstance(n, ast.Attribute) and n.attr in self.it.vocab:
                toks.add(n.attr)
            if isinstance(n, ast.Name):
                if n.id in self.it.vocab:
                    toks.add(n.id)
                toks |= cones.get(n.id, set())
            if isinstance(n, ast.Constant) and isinstance(n.value, (int, float)) and not isinstance(n.value, bool):
                pass
        return toks

    def label(self, node: ast.AST, cones: dict, ren: dict) -> str:
        if self.it.stem is not None:
            s = self.it.stem(node)  # type: ignore[arg-type]
            if s is not None:
                return s
        if isinstance(node, ast.JoinedStr):
            return "".join(v.value if isinstance(v, ast.Constant) else "{}" for v in node.values)
        if isinstance(node, ast.Constant):
            return repr(node.value)
        # ([ops], value) tuples of the accelerators: the label is the provenance of the value
        val = node
        if isinstance(node, ast.Tuple) and len(node.elts) == 2:
            val = node.elts[1]
        toks = sorted(self.cone(val, cones))
        name = None
        v2 = val
        while isinstance(v2, ast.Attribute) and v2.attr in ("result", "results", "res"):
            v2 = v2.value
        if isinstance(v2, ast.Subscript):
            v2 = v2.value
            while isinstance(v2, ast.Attribute) and v2.attr in ("result", "results", "res"):
                v2 = v2.value
        if isinstance(v2, ast.Name):
            name = v2.id
        return ("val:" + ",".join(toks) if toks else "val:const") + (f"|name={name}" if name else "")

    # ------------------------------------------------------------------ domains / conditions
    def domain(self, node: ast.expr, env: dict, ren: dict) -> tuple[str, list[ast.expr] | None]:
        """(normalised domain key, literal elements if the domain is a literal sequence)"""
        al = self.it.aliases
        # `[c] * len(X)` has one element per element of X
        if isinstance(node, ast.BinOp) and isinstance(node.op, ast.Mult):
            for lst_, n_ in ((node.left, node.right), (node.right, node.left)):
                if isinstance(lst_, ast.List) and len(lst_.elts) == 1 and isinstance(n_, ast.Call) and isinstance(n_.func, ast.Name) and n_.func.id == "len" and len(n_.args) == 1:
                    return self.domain(n_.args[0], env, ren)
        if isinstance(node, ast.Name) and isinstance(env.get(node.id), ast.BinOp):
            d_ = env[node.id]
            if isinstance(d_.op, ast.Mult) and any(isinstance(x, ast.List) and len(x.elts) == 1 for x in (d_.left, d_.right)):
                return self.domain(d_, env, ren)
        if isinstance(node, ast.Call) and isinstance(node.func, ast.Name):
            fn = node.func.id
            if fn in ("enumerate", "reversed", "list", "tuple", "iter", "sorted") and node.args:
                return self.domain(node.args[0], env, ren)
            if fn == "zip":
                keys = [self.domain(a, env, ren)[0] for a in node.args]
                pref = [k for k in keys if "streamers" in k and "names" not in k] or [k for k in keys if "names" not in k] or keys
                return pref[0], None
            if fn == "range":
                if len(node.args) == 1:
                    a = node.args[0]
                    if isinstance(a, ast.Constant) and isinstance(a.value, int) and a.value <= 16:
                        return f"range({a.value})", [ast.Constant(i) for i in range(a.value)]
                    if isinstance(a, ast.Attribute) and a.attr in al:
                        return self._ren(a.value, ren) + "." + al[a.attr], None
                    if isinstance(a, ast.Call) and isinstance(a.func, ast.Name) and a.func.id == "len" and a.args:
                        return self.domain(a.args[0], env, ren)
                    if isinstance(a, ast.Name) and isinstance(env.get(a.id), ast.AST):
                        return self.domain(ast.Call(ast.Name("range", ast.Load()), [env[a.id]], []), env, ren)
                    key = f"range({self._ren(a, ren)})"
                    return self.it.dom_alias.get(key, key), None
                return f"range({', '.join(self._ren(a, ren) for a in node.args)})", None
        if isinstance(node, (ast.Tuple, ast.List)) and not any(isinstance(e, ast.Starred) for e in node.elts) and len(node.elts) <= 16:
            return "lit:" + self._ren(node, ren), list(node.elts)
        if isinstance(node, ast.Name) and isinstance(env.get(node.id), _AList):
            return f"list:{node.id}", None
        if isinstance(node, ast.Name) and isinstance(env.get(node.id), ast.AST):
            return self.domain(env[node.id], env, ren)
        key = self._ren(node, ren)
        return self.it.dom_alias.get(key, key), None

    def cond(self, node: ast.expr, ren: dict) -> str:
        node = norm.canon(node)
        if isinstance(node, ast.Call) and isinstance(node.func, ast.Name) and node.func.id == "any" and node.args and isinstance(node.args[0], (ast.GeneratorExp, ast.ListComp)):
            g = node.args[0]
            m = norm.match(norm.T("isinstance($o, $c)"), g.elt)
            if m is not None and len(g.generators) == 1 and isinstance(g.generators[0].target, ast.Name) and ast.unparse(m["o"]) == g.generators[0].target.id:
                src = self._ren(g.generators[0].iter, ren)
                return f"Has({ast.unparse(m['c']).split('.')[-1]})@{src}"
        return self._ren(node, ren)

    # ------------------------------------------------------------------ expressions denoting sequences
    def seq_of(self, node: ast.AST, env: dict, cones: dict, ren: dict, depth: int) -> list:
        if isinstance(node, (ast.List, ast.Tuple)):
            out: list = []
            for e in node.elts:
                if isinstance(e, ast.Starred):
                    out += self.seq_of(e.value, env, cones, ren, depth)
                else:
                    out.append(One(self.label(e, cones, ren)))
            return out
        if isinstance(node, (ast.ListComp, ast.GeneratorExp)):
            return self._comp(node, 0, env, cones, ren, depth)
        if isinstance(node, ast.Name):
            v = env.get(node.id)
            if isinstance(v, _AList):
                return list(v.items)
            if isinstance(v, ast.AST):
                return self.seq_of(v, env, cones, ren, depth)
            return [Unk(f"name {node.id}")]
        if isinstance(node, ast.BinOp) and isinstance(node.op, ast.Add):
            return self.seq_of(node.left, env, cones, ren, depth) + self.seq_of(node.right, env, cones, ren, depth)
        if isinstance(node, ast.BinOp) and isinstance(node.op, ast.Mult):
            for a, b in ((node.left, node.right), (node.right, node.left)):
                if isinstance(a, (ast.List, ast.Tuple)):
                    inner = self.seq_of(a, env, cones, ren, depth)
                    if isinstance(b, ast.Constant) and isinstance(b.value, int) and b.value <= 16:
                        return inner * b.value
                    return [Rep(f"range({self._ren(b, ren)})", tuple(inner))]
        if isinstance(node, ast.Call):
            fn = node.func
            if isinstance(fn, ast.Name) and fn.id in ("list", "tuple", "cast") and node.args:
                return self.seq_of(node.args[-1], env, cones, ren, depth)
            if isinstance(fn, ast.Attribute) and isinstance(fn.value, ast.Name) and fn.value.id == "self" and self.it.inline and self.it.cls is not None:
                callee = self.it.repo.find_method(self.it.cls, fn.attr)
                if callee is not None:
                    shapes = self.it.function(callee)
                    if len(shapes) == 1:
                        return list(shapes[0])
                    if len(shapes) > 1 and len({skeleton(x) for x in shapes}) == 1:
                        return list(shapes[0])
                    return [Unk(f"call self.{fn.attr} with {len(shapes)} return shapes")]
        if isinstance(node, ast.Attribute) and isinstance(node.value, ast.Name) and node.value.id == "self":
            return [_Splice(f"self.{node.attr}")]
        if isinstance(node, ast.Subscript) and isinstance(node.slice, ast.Slice):
            return [Unk(f"slice {self._ren(node, ren)[:40]}")]
        return [Unk(self._ren(node, ren)[:50])]

    def _comp(self, node, gi: int, env: dict, cones: dict, ren: dict, depth: int) -> list:
        g = node.generators[gi]
        # mapping over a tracked list: same shape as that list (one element per element)
        if len(node.generators) == 1 and not g.ifs and isinstance(g.iter, ast.Name) and isinstance(env.get(g.iter.id), _AList) and isinstance(g.target, ast.Name):
            src = env[g.iter.id]
            cones2 = dict(cones)
            cones2[g.target.id] = cones.get(g.iter.id, set())
            lab = self.label(node.elt, cones2, ren)

            def relabel(items):
                out_ = []
                for it_ in items:
                    if isinstance(it_, One):
                        out_.append(One(it_.label if "val:" in it_.label else lab))
                    elif isinstance(it_, Rep):
                        out_.append(Rep(it_.dom, tuple(relabel(it_.body))))
                    elif isinstance(it_, Opt):
                        out_.append(Opt(it_.cond, tuple(relabel(it_.then)), tuple(relabel(it_.els))))
                    else:
                        out_.append(it_)
                return out_

            return relabel(src.items)
        dom, lits = self.domain(g.iter, env, ren)
        ren2 = dict(ren)
        cones2 = dict(cones)
        tv = [n.id for n in ast.walk(g.target) if isinstance(n, ast.Name)]
        main = self._main_target(g.target, g.iter)
        for v in tv:
            ren2[v] = f"${depth}" if v == main else f"${depth}.{v}"
        if isinstance(g.target, ast.Name):
            cones2[g.target.id] = self.cone(g.iter, cones)

        def body_for(env_):
            if gi + 1 < len(node.generators):
                b = self._comp(node, gi + 1, env_, cones2, ren2, depth + 1)
            else:
                b = [One(self.label(node.elt, cones2, ren2))]
            for c in reversed(g.ifs):
                b = [Opt(self.cond(c, ren2), tuple(b))]
            return b

        if lits is not None and isinstance(g.target, ast.Name):
            out: list = []
            for e in lits:
                env3 = dict(env)
                cones3 = dict(cones2)
                cones3[g.target.id] = self.cone(e, cones) | ({ast.unparse(e)} if isinstance(e, ast.Name) else set())
                b = self._comp(node, gi + 1, env3, cones3, ren2, depth + 1) if gi + 1 < len(node.generators) else [One(self._lit_label(node.elt, g.target.id, e, cones3, ren2))]
                for c in reversed(g.ifs):
                    b = [Opt(self.cond(c, ren2), tuple(b))]
                out += b
            return out
        return [Rep(dom, tuple(body_for(env)))]

    def _lit_label(self, elt: ast.AST, var: str, value: ast.expr, cones: dict, ren: dict) -> str:
        lab = self.label(elt, cones, ren)
        if isinstance(value, ast.Name):
            lab += f"|from={value.id}"
        elif isinstance(value, ast.Constant):
            lab += f"|from={value.value!r}"
        return lab

    def _main_target(self, target: ast.expr, it: ast.expr) -> str | None:
        """the loop variable that denotes the element of the canonical domain member"""
        if isinstance(target, ast.Name):
            return target.id
        if isinstance(target, ast.Tuple):
            names = [e.id if isinstance(e, ast.Name) else None for e in target.elts]
            if isinstance(it, ast.Call) and isinstance(it.func, ast.Name) and it.func.id == "enumerate" and len(names) == 2:
                if isinstance(target.elts[1], ast.Tuple):
                    return self._main_target(target.elts[1], it.args[0])
                return names[1]
            if isinstance(it, ast.Call) and isinstance(it.func, ast.Name) and it.func.id == "zip" and len(names) == len(it.args):
                keys = [ast.unparse(a) for a in it.args]
                for k, n in zip(keys, names):
                    if "streamers" in k and "names" not in k:
                        return n
                for k, n in zip(keys, names):
                    if "names" not in k:
                        return n
            return names[-1]
        return None

    # ------------------------------------------------------------------ statements
    def block(self, stmts: list[ast.stmt], env: dict, cones: dict, ren: dict, depth: int) -> str:
        """executes stmts; returns 'fall' | 'continue' | 'exit' (how control leaves the block)"""
        for i, st in enumerate(stmts):
            if isinstance(st, ast.Expr) and isinstance(st.value, ast.Constant):
                continue
            if isinstance(st, (ast.Assign, ast.AnnAssign)):
                tgt = st.targets[0] if isinstance(st, ast.Assign) else st.target
                val = st.value
                if val is None:
                    continue
                self._walrus(val, cones)
                if isinstance(tgt, ast.Name):
                    snapshot = isinstance(val, ast.Call) and isinstance(val.func, ast.Name) and val.func.id in ("list", "tuple") and len(val.args) == 1 and (
                        (isinstance(val.args[0], ast.Call) and isinstance(val.args[0].func, ast.Name) and val.args[0].func.id in ("zip", "enumerate", "reversed"))
                        or isinstance(val.args[0], ast.Attribute))
                    if snapshot:
                        # `xs = list(zip(a, b))`: a name for an iteration domain, not a list under construction
                        env[tgt.id] = val
                    elif isinstance(val, (ast.List, ast.Tuple, ast.ListComp)) or (isinstance(val, ast.Call) and isinstance(val.func, ast.Name) and val.func.id in ("list", "tuple")):
                        items = self.seq_of(val, env, cones, ren, depth)
                        env[tgt.id] = _AList(items)
                    elif isinstance(val, ast.GeneratorExp):
                        env[tgt.id] = _AList(self.seq_of(val, env, cones, ren, depth))
                    else:
                        env[tgt.id] = val
                    cones[tgt.id] = self.cone(val, cones)
                elif isinstance(tgt, (ast.Tuple, ast.List)):
                    for e in tgt.elts:
                        if isinstance(e, ast.Name):
                            env.pop(e.id, None)
                            cones[e.id] = self.cone(val, cones)
            elif isinstance(st, ast.AugAssign):
                if isinstance(st.target, ast.Name):
                    cones[st.target.id] = cones.get(st.target.id, set()) | self.cone(st.value, cones)
                    if isinstance(env.get(st.target.id), _AList) and isinstance(st.op, ast.Add):
                        env[st.target.id].items += self.seq_of(st.value, env, cones, ren, depth)
            elif isinstance(st, ast.Expr) and isinstance(st.value, ast.Call) and isinstance(st.value.func, ast.Attribute) and isinstance(st.value.func.value, ast.Name) \
                    and isinstance(env.get(st.value.func.value.id), _AList):
                lst = env[st.value.func.value.id]
                m, a = st.value.func.attr, st.value.args
                self._walrus(st.value, cones)
                if m == "append" and a:
                    lst.items.append(One(self.label(a[0], cones, ren)))
                elif m == "extend" and a:
                    lst.items += self.seq_of(a[0], env, cones, ren, depth)
                elif m == "insert" and len(a) == 2 and isinstance(a[0], ast.Constant) and a[0].value == 0:
                    lst.items.insert(0, One(self.label(a[1], cones, ren)))
                else:
                    lst.items.append(Unk(f"{m}()"))
            elif isinstance(st, ast.For):
                self._for(st, env, cones, ren, depth)
            elif isinstance(st, ast.If):
                how = self._if(st, stmts[i + 1 :], env, cones, ren, depth)
                if how is not None:
                    return how
            elif isinstance(st, ast.Return):
                if st.value is not None:
                    v = st.value
                    if isinstance(v, ast.Tuple) and v.elts and isinstance(v.elts[0], (ast.List, ast.Name, ast.ListComp)) and self.f.node.returns is not None and "tuple[" in ast.unparse(self.f.node.returns):
                        v = v.elts[0]  # (values, extra) convention: the sequence is the first component
                    self.rets.append(tuple(self.seq_of(v, env, cones, ren, depth)))
                return "exit"
            elif isinstance(st, ast.Raise):
                return "exit"
            elif isinstance(st, ast.Continue):
                return "continue"
            elif isinstance(st, ast.Break):
                return "continue"
            elif isinstance(st, ast.Assert):
                self._walrus(st.test, cones)
            elif isinstance(st, ast.Expr) and isinstance(st.value, ast.Call) and isinstance(st.value.func, ast.Name) and st.value.func.id in self.local_defs \
                    and depth < 12 and not st.value.keywords and len(st.value.args) == len(self.local_defs[st.value.func.id].args.args):
                # a local helper that emits values (`def emit(v): c = ..(v); result.append(..)`): its body, with the arguments in place of the parameters
                fn_ = self.local_defs[st.value.func.id]
                body_ = [copy.deepcopy(x) for x in fn_.body]
                for p_, a_ in zip(fn_.args.args, st.value.args):
                    body_ = [ast.fix_missing_locations(norm._Subst(p_.arg, a_).visit(x)) for x in body_]
                if any(isinstance(x, (ast.Return, ast.Nonlocal, ast.Global)) for b_ in body_ for x in ast.walk(b_)):
                    self._walrus(st.value, cones)
                else:
                    r_ = self.block(body_, env, cones, ren, depth + 1)
                    if r_ != "fall":
                        return r_
            elif isinstance(st, ast.Expr):
                self._walrus(st.value, cones)
            elif isinstance(st, (ast.While, ast.With, ast.Try, ast.Match)):
                # any tracked list touched inside becomes unknown
                for n in ast.walk(st):
                    if isinstance(n, ast.Name) and isinstance(env.get(n.id), _AList):
                        env[n.id].items.append(Unk(f"{type(st).__name__.lower()} at line {st.lineno}"))
                        break
        return "fall"

    def _walrus(self, node: ast.AST, cones: dict) -> None:
        for n in ast.walk(node):
            if isinstance(n, ast.NamedExpr):
                cones[n.target.id] = self.cone(n.value, cones)

    def _for(self, st: ast.For, env: dict, cones: dict, ren: dict, depth: int) -> None:
        it0 = st.iter
        if isinstance(it0, ast.Name) and it0.id in self.iter_defs:
            st = ast.copy_location(ast.For(st.target, self.iter_defs[it0.id], st.body, st.orelse), st)
        elif isinstance(it0, ast.Call) and isinstance(it0.func, ast.Name) and it0.func.id in ("enumerate", "reversed") and it0.args and isinstance(it0.args[0], ast.Name) \
                and it0.args[0].id in self.iter_defs:
            new_it = ast.copy_location(ast.Call(it0.func, [self.iter_defs[it0.args[0].id], *it0.args[1:]], it0.keywords), it0)
            st = ast.copy_location(ast.For(st.target, new_it, st.body, st.orelse), st)
        lists = {k: v for k, v in env.items() if isinstance(v, _AList)}
        dom, lits = self.domain(st.iter, env, ren)
        tv = [n.id for n in ast.walk(st.target) if isinstance(n, ast.Name)]
        main = self._main_target(st.target, st.iter)
        # search idiom: `for ..: if c: append; break` + `else: raise`  -> exactly one element
        if st.orelse and isinstance(st.orelse[-1], ast.Raise) and len(st.body) == 1 and isinstance(st.body[0], ast.If) and isinstance(st.body[0].body[-1], ast.Break):
            env2 = dict(env)
            deltas = {k: _AList() for k in lists}
            env2.update(deltas)
            self.block(st.body[0].body[:-1], env2, dict(cones), dict(ren), depth)
            for k, d in deltas.items():
                lists[k].items += d.items
            return
        ren2 = dict(ren)
        for v in tv:
            ren2[v] = f"${depth}" if v == main else f"${depth}.{v}"
        if lits is not None and isinstance(st.target, ast.Name):
            for e in lits:
                env2 = dict(env)
                cones2 = dict(cones)
                cones2[st.target.id] = self.cone(e, cones)
                body = st.body
                if not isinstance(e, ast.Constant):
                    # a loop over a literal tuple of names (classes, say): each round is the body with that name in place of the variable
                    body = [ast.fix_missing_locations(norm._Subst(st.target.id, e).visit(copy.deepcopy(x))) for x in st.body]
                self.block(body, env2, cones2, ren2, depth + 1)
            return
        env2 = dict(env)
        deltas = {k: _AList() for k in lists}
        env2.update(deltas)
        cones2 = dict(cones)
        for v in tv:
            cones2[v] = self.cone(st.iter, cones)
        # `for a, b in zip(A, B)`: a comes from A only, b from B only
        tgt_, it_ = st.target, st.iter
        if isinstance(it_, ast.Call) and isinstance(it_.func, ast.Name) and it_.func.id == "enumerate" and it_.args and isinstance(tgt_, ast.Tuple) and len(tgt_.elts) == 2:
            tgt_, it_ = tgt_.elts[1], it_.args[0]
        if isinstance(it_, ast.Call) and isinstance(it_.func, ast.Name) and it_.func.id == "zip" and isinstance(tgt_, ast.Tuple) and len(tgt_.elts) == len(it_.args) \
                and not any(isinstance(a, ast.Starred) for a in it_.args):
            for t_el, a_el in zip(tgt_.elts, it_.args):
                for nm in ast.walk(t_el):
                    if isinstance(nm, ast.Name):
                        cones2[nm.id] = self.cone(a_el, cones)
        self.block(st.body, env2, cones2, ren2, depth + 1)
        for k, d in deltas.items():
            if d.items:
                lists[k].items.append(Rep(dom, tuple(d.items)))
        # scalar definitions made in the loop stay visible (flow-insensitive for cones)
        for k, v in cones2.items():
            if k not in tv:
                cones[k] = cones.get(k, set()) | v

    def _if(self, st: ast.If, rest: list[ast.stmt], env: dict, cones: dict, ren: dict, depth: int) -> str | None:
        lists = {k: v for k, v in env.items() if isinstance(v, _AList)}
        self._walrus(st.test, cones)

        def run(body: list[ast.stmt]):
            e = dict(env)
            d = {k: _AList() for k in lists}
            e.update(d)
            c = dict(cones)
            how = self.block(body, e, c, dict(ren), depth)
            return e, d, c, how

        eA, dA, cA, howA = run(st.body)
        if howA != "fall":
            # the rest of the block belongs to the else side
            eB, dB, cB, howB = run([*st.orelse, *rest])
            consumed = True
        else:
            eB, dB, cB, howB = run(st.orelse)
            consumed = False
            if howB != "fall" and st.orelse:
                # else leaves: the rest belongs to the then side
                eA, dA, cA, howA = run([*st.body, *rest])
                consumed = True
        test_c = norm.canon(st.test)
        if norm.is_not(test_c):
            # `if not c: continue` in front of the rest: the same shape as `if c: rest`
            cond = self.cond(test_c.operand, ren)  # type: ignore[attr-defined]
            eA, dA, cA, howA, eB, dB, cB, howB = eB, dB, cB, howB, eA, dA, cA, howA
        else:
            cond = self.cond(st.test, ren)
        for k in lists:
            # a tracked list that is re-bound inside a branch (e.g. `xs = xs[:n]`)
            reA, reB = eA.get(k) is not dA[k], eB.get(k) is not dB[k]
            if reA or reB:
                def full(e_, d_, re_):
                    if not re_:
                        return list(lists[k].items) + list(d_[k].items)
                    v_ = e_.get(k)
                    if isinstance(v_, _AList):
                        return list(v_.items)
                    return [Unk(f"{k} = {ast.unparse(v_)[:40] if isinstance(v_, ast.AST) else v_}")]
                fa_, fb_ = full(eA, dA, reA), full(eB, dB, reB)
                if skeleton(fa_) == skeleton(fb_):
                    lists[k].items[:] = [self._join(x, y) for x, y in zip(fa_, fb_)]
                else:
                    lists[k].items[:] = [Opt(cond, tuple(fa_), tuple(fb_))]
                continue
            a, b = dA[k].items, dB[k].items
            if not a and not b:
                continue
            if skeleton(a) == skeleton(b):
                lists[k].items += [self._join(x, y) for x, y in zip(a, b)]
            else:
                lists[k].items.append(Opt(cond, tuple(a), tuple(b)))
        for k in set(cA) | set(cB):
            cones[k] = cA.get(k, set()) | cB.get(k, set())
        # scalar / list (re)definitions inside the branches
        for k in set(eA) | set(eB):
            if k in lists:
                continue
            va, vb = eA.get(k), eB.get(k)
            # a branch that leaves the function/loop iteration does not contribute definitions
            if howA == "exit" and howB != "exit":
                if vb is not None:
                    env[k] = vb
                continue
            if howB == "exit" and howA != "exit":
                if va is not None:
                    env[k] = va
                continue
            if isinstance(va, _AList) or isinstance(vb, _AList):
                if isinstance(va, _AList) and isinstance(vb, _AList):
                    if skeleton(va.items) == skeleton(vb.items):
                        env[k] = _AList([self._join(x, y) for x, y in zip(va.items, vb.items)])
                    else:
                        env[k] = _AList([Opt(cond, tuple(va.items), tuple(vb.items))])
                elif isinstance(va, _AList) and k not in eB:
                    env[k] = _AList([Opt(cond, tuple(va.items), (Unk(f"{k} undefined"),))])
                elif isinstance(vb, _AList) and k not in eA:
                    env[k] = _AList([Opt(cond, (Unk(f"{k} undefined"),), tuple(vb.items))])
                else:
                    env[k] = _AList([Unk(f"{k}: list on one branch only")])
            elif va is not None and vb is not None and isinstance(va, ast.AST) and isinstance(vb, ast.AST) and ast.dump(va) == ast.dump(vb):
                env[k] = va
            elif k in env and (va is not env.get(k) or vb is not env.get(k)):
                env.pop(k, None)
            elif k not in env:
                pass
        if consumed:
            if howA != "fall" and howB != "fall":
                return howA if howA == howB else "exit"
            return "fall"
        return None

    def _join(self, x, y):
        if isinstance(x, One) and isinstance(y, One):
            if x.label == y.label:
                return x
            return One(x.label + " / " + y.label)
        if isinstance(x, Rep) and isinstance(y, Rep):
            return Rep(x.dom, tuple(self._join(a, b) for a, b in zip(x.body, y.body)))
        if isinstance(x, Opt) and isinstance(y, Opt):
            return Opt(x.cond, tuple(self._join(a, b) for a, b in zip(x.then, y.then)), tuple(self._join(a, b) for a, b in zip(x.els, y.els)))
        return x


@dataclass(frozen=True)
class _Splice:
    ref: str

    def skel(self):
        return ("splice", self.ref)


Splice = _Splice


def compare(a, b, path: str = "") -> list[str]:
    """differences between two sequences' skeletons (empty = same shape)"""
    out: list[str] = []
    i = 0
    la, lb = list(a), list(b)
    if len(la) != len(lb):
        out.append(f"{path}: {len(la)} segment(s) vs {len(lb)}: [{flat_text(la)[:160]}] vs [{flat_text(lb)[:160]}]")
        return out
    for i, (x, y) in enumerate(zip(la, lb)):
        p = f"{path}/{i}"
        if type(x) is not type(y):
            out.append(f"{p}: {flat_text([x])[:100]} vs {flat_text([y])[:100]}")
        elif isinstance(x, Rep):
            if x.dom != y.dom:
                out.append(f"{p}: repetition over `{x.dom}` vs `{y.dom}`")
            else:
                out += compare(x.body, y.body, p + f"@{x.dom}")
        elif isinstance(x, Opt):
            if x.cond != y.cond:
                out.append(f"{p}: condition `{x.cond}` vs `{y.cond}`")
            else:
                out += compare(x.then, y.then, p + "?then") + compare(x.els, y.els, p + "?else")
        elif isinstance(x, Unk) or isinstance(y, Unk):
            out.append(f"{p}: undecidable segment {flat_text([x])} vs {flat_text([y])}")
        elif isinstance(x, _Splice) and x.ref != y.ref:
            out.append(f"{p}: splice {x.ref} vs {y.ref}")
    return out


def pairs(a, b, path: str = ""):
    """aligned (One, One, path) pairs of two same-skeleton sequences"""
    for i, (x, y) in enumerate(zip(a, b)):
        p = f"{path}/{i}"
        if isinstance(x, One) and isinstance(y, One):
            yield x, y, p
        elif isinstance(x, Rep) and isinstance(y, Rep):
            yield from pairs(x.body, y.body, p + f"@{x.dom}")
        elif isinstance(x, Opt) and isinstance(y, Opt):
            yield from pairs(x.then, y.then, p + "?")
            yield from pairs(x.els, y.els, p + "!")

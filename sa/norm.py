"""Condition normalisation and template matching over Python expression ASTs.

* `negate`, `atoms`: split a condition known to be true/false into atomic must-facts
  (De Morgan, comparison flipping, `not (a == b)` == `a != b`, isinstance tuple/union forms).
* `canon`: canonical AST for an atom (constants to the right of symmetric comparisons, sorted
  isinstance class tuples, ...), `text`: its source text.
* `T("len($op.values) == 0")` templates with holes; `match(template, expr, binds)`.
"""

from __future__ import annotations

import ast
import copy
import re
from typing import Iterable

_FLIP = {
    ast.Eq: ast.NotEq,
    ast.NotEq: ast.Eq,
    ast.Lt: ast.GtE,
    ast.GtE: ast.Lt,
    ast.Gt: ast.LtE,
    ast.LtE: ast.Gt,
    ast.Is: ast.IsNot,
    ast.IsNot: ast.Is,
    ast.In: ast.NotIn,
    ast.NotIn: ast.In,
}
_MIRROR = {ast.Lt: ast.Gt, ast.Gt: ast.Lt, ast.LtE: ast.GtE, ast.GtE: ast.LtE, ast.Eq: ast.Eq, ast.NotEq: ast.NotEq}


def text(n: ast.AST) -> str:
    return ast.unparse(n)


def is_not(n: ast.AST) -> bool:
    return isinstance(n, ast.UnaryOp) and isinstance(n.op, ast.Not)


def negate(n: ast.expr) -> ast.expr:
    """Logical negation with negations pushed inwards."""
    if is_not(n):
        return n.operand  # type: ignore[attr-defined]
    if isinstance(n, ast.Compare) and len(n.ops) == 1 and type(n.ops[0]) in _FLIP:
        return ast.Compare(n.left, [_FLIP[type(n.ops[0])]()], n.comparators)
    if isinstance(n, ast.BoolOp):
        op = ast.And() if isinstance(n.op, ast.Or) else ast.Or()
        return ast.BoolOp(op, [negate(v) for v in n.values])
    if isinstance(n, ast.Constant) and isinstance(n.value, bool):
        return ast.Constant(not n.value)
    # any(gen) <-> all(not gen)
    q = _quantifier(n)
    if q is not None:
        kind, gen = q
        other = "all" if kind == "any" else "any"
        g = ast.GeneratorExp(negate(gen.elt), gen.generators)
        return ast.Call(ast.Name(other, ast.Load()), [g], [])
    # any([a, b]) <-> all([not a, not b]) over literal sequences
    lit = _literal_seq(n)
    if lit is not None:
        other = "all" if n.func.id == "any" else "any"  # type: ignore[attr-defined]
        return ast.Call(ast.Name(other, ast.Load()), [ast.List([negate(v) for v in lit], ast.Load())], [])
    return ast.UnaryOp(ast.Not(), n)


def _quantifier(n: ast.AST) -> tuple[str, ast.GeneratorExp] | None:
    """any(<genexp or listcomp>) / all(...) -> (kind, generator expression)"""
    if isinstance(n, ast.Call) and isinstance(n.func, ast.Name) and n.func.id in ("any", "all") and len(n.args) == 1:
        a = n.args[0]
        if isinstance(a, ast.GeneratorExp):
            return n.func.id, a
        if isinstance(a, ast.ListComp):
            return n.func.id, ast.GeneratorExp(a.elt, a.generators)
    return None


def _literal_seq(n: ast.AST) -> list[ast.expr] | None:
    if isinstance(n, ast.Call) and isinstance(n.func, ast.Name) and n.func.id in ("any", "all") and len(n.args) == 1:
        a = n.args[0]
        if isinstance(a, (ast.List, ast.Tuple)) and not any(isinstance(e, ast.Starred) for e in a.elts):
            return list(a.elts)
    return None


def atoms(n: ast.expr, polarity: bool = True) -> list[ast.expr]:
    """Atomic conditions that all hold given that `n` evaluated to `polarity`."""
    if not polarity:
        n = negate(n)
    if is_not(n):
        inner = n.operand  # type: ignore[attr-defined]
        if isinstance(inner, (ast.BoolOp, ast.Compare)) or is_not(inner) or _quantifier(inner) or _literal_seq(inner):
            m = negate(inner)
            if not is_not(m):
                return atoms(m)
        lit = _literal_seq(inner)
        if lit is not None:
            pass
        return [canon(n)]
    if isinstance(n, ast.BoolOp) and isinstance(n.op, ast.And):
        out: list[ast.expr] = []
        for v in n.values:
            out += atoms(v)
        return out
    lit = _literal_seq(n)
    if lit is not None and isinstance(n, ast.Call) and isinstance(n.func, ast.Name):
        if n.func.id == "all":
            out = []
            for v in lit:
                out += atoms(v)
            return out
        return [canon(ast.BoolOp(ast.Or(), lit))] if len(lit) > 1 else atoms(lit[0])
    return [canon(n)]


def _isinstance_classes(n: ast.expr) -> list[ast.expr]:
    if isinstance(n, ast.Tuple):
        out: list[ast.expr] = []
        for e in n.elts:
            out += _isinstance_classes(e)
        return out
    if isinstance(n, ast.BinOp) and isinstance(n.op, ast.BitOr):
        return _isinstance_classes(n.left) + _isinstance_classes(n.right)
    return [n]


class _Canon(ast.NodeTransformer):
    def visit_Compare(self, node: ast.Compare) -> ast.AST:
        self.generic_visit(node)
        if len(node.ops) == 1 and type(node.ops[0]) in _MIRROR:
            l, r = node.left, node.comparators[0]
            if isinstance(l, ast.Constant) and not isinstance(r, ast.Constant):
                return ast.Compare(r, [_MIRROR[type(node.ops[0])]()], [l])
        return node

    def visit_Call(self, node: ast.Call) -> ast.AST:
        self.generic_visit(node)
        if isinstance(node.func, ast.Name) and node.func.id in ("isinstance", "isa") and len(node.args) == 2:
            cls = sorted(_isinstance_classes(node.args[1]), key=ast.unparse)
            second = cls[0] if len(cls) == 1 else ast.Tuple(cls, ast.Load())
            return ast.Call(node.func, [node.args[0], second], [])
        return node

    def visit_UnaryOp(self, node: ast.UnaryOp) -> ast.AST:
        self.generic_visit(node)
        if isinstance(node.op, ast.Not):
            inner = node.operand
            if isinstance(inner, ast.Compare) and len(inner.ops) == 1 and type(inner.ops[0]) in _FLIP:
                return ast.Compare(inner.left, [_FLIP[type(inner.ops[0])]()], inner.comparators)
            if is_not(inner):
                return inner.operand  # type: ignore[attr-defined]
        return node


class _CanonTree(_Canon):
    """_Canon applied in place to a whole module, keeping source positions"""

    def visit(self, node: ast.AST) -> ast.AST:
        new = super().visit(node)
        if new is not node and isinstance(new, ast.AST) and hasattr(node, "lineno"):
            ast.copy_location(new, node)
            for ch in ast.walk(new):
                if not hasattr(ch, "lineno") and isinstance(ch, (ast.expr, ast.stmt)):
                    ast.copy_location(ch, node)
        return new


    def visit_If(self, node: ast.If) -> ast.AST:
        node = self.generic_visit(node)  # type: ignore[assignment]
        assert isinstance(node, ast.If)
        # an if/else whose test is negative is turned round, so that the polarity a developer happened to choose does not matter;
        # elif chains keep their order (only the last link of a chain can have a plain else)
        if node.orelse and not (len(node.orelse) == 1 and isinstance(node.orelse[0], ast.If)):
            t = node.test
            pos = None
            if is_not(t):
                pos = t.operand  # type: ignore[attr-defined]
            elif isinstance(t, ast.Compare) and len(t.ops) == 1 and isinstance(t.ops[0], (ast.NotEq, ast.IsNot, ast.NotIn)):
                pos = ast.Compare(t.left, [_FLIP[type(t.ops[0])]()], t.comparators)
            if pos is not None:
                ast.copy_location(pos, t)
                node.test, node.body, node.orelse = pos, node.orelse, node.body
        return node


def canon_tree(tree: ast.Module) -> ast.Module:
    out = _CanonTree().visit(tree)
    return ast.fix_missing_locations(out)


def canon(n: ast.expr) -> ast.expr:
    return ast.fix_missing_locations(_Canon().visit(copy.deepcopy(n)))


# --------------------------------------------------------------------------- templates

_HOLE = re.compile(r"\$([A-Za-z_][A-Za-z0-9_]*)")


class Template:
    """An expression template.  `$x` is a hole that matches any expression (consistently);
    `$_` matches anything without binding."""

    def __init__(self, src: str):
        self.src = src
        py = _HOLE.sub(lambda m: f"__hole_{m.group(1)}__", src)
        self.tree = canon(ast.parse(py, mode="eval").body)

    def __repr__(self) -> str:
        return f"T({self.src!r})"


def T(src: str) -> Template:
    return Template(src)


def _hole_name(n: ast.AST) -> str | None:
    if isinstance(n, ast.Name) and n.id.startswith("__hole_") and n.id.endswith("__"):
        return n.id[len("__hole_") : -2]
    return None


def _eq(a: ast.AST, b: ast.AST) -> bool:
    return ast.dump(a) == ast.dump(b)


def match(t: Template | ast.AST, e: ast.AST, binds: dict[str, ast.AST] | None = None) -> dict[str, ast.AST] | None:
    """Match template against expression; returns the bindings or None.  `binds` may pre-bind holes
    (to AST nodes or to source strings)."""
    b: dict[str, ast.AST] = {}
    for k, v in (binds or {}).items():
        b[k] = ast.parse(v, mode="eval").body if isinstance(v, str) else v
    tree = t.tree if isinstance(t, Template) else t
    return b if _match(tree, e, b) else None


WRAPPERS = ("__phi__", "__ctl__", "__inl__")


def wrapper_kind(e: ast.AST) -> str | None:
    if isinstance(e, ast.Call) and isinstance(e.func, ast.Name) and e.func.id in WRAPPERS and e.args:
        return e.func.id
    return None


class _Primary(ast.NodeTransformer):
    def visit_Call(self, node: ast.Call) -> ast.AST:
        if wrapper_kind(node):
            return self.visit(node.args[0])
        return self.generic_visit(node)


def primary(e: ast.AST) -> ast.AST:
    """the expression with all dependency wrappers (__phi__/__ctl__/__inl__) replaced by their primary
    (first) argument, i.e. the expression as written"""
    if not any(wrapper_kind(n) for n in ast.walk(e)):
        return e
    return _Primary().visit(copy.deepcopy(e))


def _match(t: ast.AST, e: ast.AST, b: dict[str, ast.AST]) -> bool:
    h = _hole_name(t)
    if h is not None:
        if h == "_":
            return True
        if h in b:
            return _eq(strip_ctx(primary(b[h])), strip_ctx(primary(e)))
        b[h] = e
        return True
    wk = wrapper_kind(e)
    if wk is not None and not (isinstance(t, ast.Call) and isinstance(t.func, ast.Name) and t.func.id == wk):
        # wrappers are transparent: match the primary expression, or (phi / inl) one of the alternatives
        assert isinstance(e, ast.Call)
        cands = e.args if wk in ("__phi__", "__inl__") else e.args[:1]
        for c in cands:
            b2 = dict(b)
            if _match(t, c, b2):
                b.clear()
                b.update(b2)
                return True
        return False
    if type(t) is not type(e):
        return False
    for fld in t._fields:
        if fld == "ctx":
            continue
        tv, ev = getattr(t, fld, None), getattr(e, fld, None)
        if isinstance(tv, list):
            if not isinstance(ev, list) or len(tv) != len(ev):
                return False
            for x, y in zip(tv, ev):
                if isinstance(x, ast.AST):
                    if not isinstance(y, ast.AST) or not _match(x, y, b):
                        return False
                elif x != y:
                    return False
        elif isinstance(tv, ast.AST):
            if not isinstance(ev, ast.AST) or not _match(tv, ev, b):
                return False
        elif tv != ev:
            return False
    return True


class _StripCtx(ast.NodeTransformer):
    def generic_visit(self, node: ast.AST) -> ast.AST:
        super().generic_visit(node)
        if hasattr(node, "ctx"):
            node.ctx = ast.Load()  # type: ignore[attr-defined]
        return node


def strip_ctx(n: ast.AST) -> ast.AST:
    return _StripCtx().visit(copy.deepcopy(n))


def find(t: Template, e: ast.AST, binds: dict[str, ast.AST] | None = None) -> list[tuple[ast.AST, dict[str, ast.AST]]]:
    """All sub-expressions of `e` matching `t`."""
    out = []
    for sub in ast.walk(e):
        m = match(t, sub, binds)
        if m is not None:
            out.append((sub, m))
    return out


def contains(e: ast.AST, t: Template | str, binds: dict[str, ast.AST] | None = None) -> bool:
    if isinstance(t, str):
        t = T(t)
    return bool(find(t, e, binds))


def any_match(ts: Iterable[Template | str], e: ast.AST, binds: dict[str, ast.AST] | None = None) -> dict[str, ast.AST] | None:
    for t in ts:
        if isinstance(t, str):
            t = T(t)
        m = match(t, e, binds)
        if m is not None:
            return m
    return None


def free_names(e: ast.AST) -> set[str]:
    """names occurring free in `e` (comprehension targets and lambda parameters are bound)"""
    out: set[str] = set()

    def go(n: ast.AST, bound: frozenset[str]) -> None:
        if isinstance(n, ast.Name):
            if n.id not in bound:
                out.add(n.id)
            return
        if isinstance(n, (ast.ListComp, ast.SetComp, ast.GeneratorExp, ast.DictComp)):
            b = bound
            for i, g in enumerate(n.generators):
                go(g.iter, b if i else bound)
                b = b | {x.id for x in ast.walk(g.target) if isinstance(x, ast.Name)}
                for c in g.ifs:
                    go(c, b)
            if isinstance(n, ast.DictComp):
                go(n.key, b)
                go(n.value, b)
            else:
                go(n.elt, b)
            return
        if isinstance(n, ast.Lambda):
            a = n.args
            b = bound | {x.arg for x in (*a.posonlyargs, *a.args, *a.kwonlyargs)}
            if a.vararg:
                b = b | {a.vararg.arg}
            if a.kwarg:
                b = b | {a.kwarg.arg}
            go(n.body, b)
            return
        for c in ast.iter_child_nodes(n):
            go(c, bound)

    go(e, frozenset())
    return out


def access_paths(e: ast.AST) -> set[str]:
    """Maximal Name/Attribute chains (and their prefixes) occurring in `e`, as source text."""
    out: set[str] = set()
    for n in ast.walk(e):
        if isinstance(n, (ast.Attribute, ast.Name)):
            cur: ast.AST = n
            ok = True
            while isinstance(cur, ast.Attribute):
                cur = cur.value
            if isinstance(cur, ast.Name):
                out.add(ast.unparse(n))
            else:
                ok = False
            del ok
    return out


def call_names(e: ast.AST) -> set[str]:
    """Names of called functions / methods (last component) in `e`."""
    out: set[str] = set()
    for n in ast.walk(e):
        if isinstance(n, ast.Call):
            f = n.func
            if isinstance(f, ast.Name):
                out.add(f.id)
            elif isinstance(f, ast.Attribute):
                out.add(f.attr)
    return out

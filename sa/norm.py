"""Condition normalisation and template matching over Python expression ASTs.

* `negate`, `atoms`: split a condition known to be true/false into atomic must-facts
  (De Morgan, comparison flipping, `not (a == b)` == `a != b`, isinstance tuple/union forms).
* `canon`: canonical AST for an atom (constants to the right of symmetric comparisons, sorted
  isinstance class tuples, ...), `text`: its source text.
* `T("len($op.values) == 0")` templates with holes; `match(template, expr, binds)`.
"""

from __future__ import annotations

import ast
import copy
import re
from typing import Iterable

_FLIP = {
    ast.Eq: ast.NotEq,
    ast.NotEq: ast.Eq,
    ast.Lt: ast.GtE,
    ast.GtE: ast.Lt,
    ast.Gt: ast.LtE,
    ast.LtE: ast.Gt,
    ast.Is: ast.IsNot,
    ast.IsNot: ast.Is,
    ast.In: ast.NotIn,
    ast.NotIn: ast.In,
}
_MIRROR = {ast.Lt: ast.Gt, ast.Gt: ast.Lt, ast.LtE: ast.GtE, ast.GtE: ast.LtE, ast.Eq: ast.Eq, ast.NotEq: ast.NotEq}


def text(n: ast.AST) -> str:
    return ast.unparse(n)


def is_not(n: ast.AST) -> bool:
    return isinstance(n, ast.UnaryOp) and isinstance(n.op, ast.Not)


def _unbool(n: ast.expr) -> ast.expr:
    """`bool(X)` as a condition is X"""
    while isinstance(n, ast.Call) and isinstance(n.func, ast.Name) and n.func.id == "bool" and len(n.args) == 1 and not n.keywords \
            and not isinstance(n.args[0], ast.Starred):
        n = n.args[0]
    return n


def negate(n: ast.expr) -> ast.expr:
    """Logical negation with negations pushed inwards."""
    n = _unbool(n)
    if is_not(n):
        return n.operand  # type: ignore[attr-defined]
    if isinstance(n, ast.Compare) and len(n.ops) == 1 and type(n.ops[0]) in _FLIP:
        return ast.Compare(n.left, [_FLIP[type(n.ops[0])]()], n.comparators)
    if isinstance(n, ast.BoolOp):
        op = ast.And() if isinstance(n.op, ast.Or) else ast.Or()
        return ast.BoolOp(op, [negate(v) for v in n.values])
    if isinstance(n, ast.Constant) and isinstance(n.value, bool):
        return ast.Constant(not n.value)
    # any(gen) <-> all(not gen)
    q = _quantifier(n)
    if q is not None:
        kind, gen = q
        other = "all" if kind == "any" else "any"
        g = ast.GeneratorExp(negate(gen.elt), gen.generators)
        return ast.Call(ast.Name(other, ast.Load()), [g], [])
    # any([a, b]) <-> all([not a, not b]) over literal sequences
    lit = _literal_seq(n)
    if lit is not None:
        other = "all" if n.func.id == "any" else "any"  # type: ignore[attr-defined]
        return ast.Call(ast.Name(other, ast.Load()), [ast.List([negate(v) for v in lit], ast.Load())], [])
    return ast.UnaryOp(ast.Not(), n)


def _quantifier(n: ast.AST) -> tuple[str, ast.GeneratorExp] | None:
    """any(<genexp or listcomp>) / all(...) -> (kind, generator expression)"""
    if isinstance(n, ast.Call) and isinstance(n.func, ast.Name) and n.func.id in ("any", "all") and len(n.args) == 1:
        a = n.args[0]
        if isinstance(a, ast.GeneratorExp):
            return n.func.id, a
        if isinstance(a, ast.ListComp):
            return n.func.id, ast.GeneratorExp(a.elt, a.generators)
    return None


def _literal_seq(n: ast.AST) -> list[ast.expr] | None:
    if isinstance(n, ast.Call) and isinstance(n.func, ast.Name) and n.func.id in ("any", "all") and len(n.args) == 1:
        a = n.args[0]
        if isinstance(a, (ast.List, ast.Tuple)) and not any(isinstance(e, ast.Starred) for e in a.elts):
            return list(a.elts)
    return None


def atoms(n: ast.expr, polarity: bool = True) -> list[ast.expr]:
    """Atomic conditions that all hold given that `n` evaluated to `polarity`."""
    n = _unbool(n)
    if not polarity:
        n = _unbool(negate(n))
    if is_not(n):
        inner = _unbool(n.operand)  # type: ignore[attr-defined]
        if isinstance(inner, (ast.BoolOp, ast.Compare)) or is_not(inner) or _quantifier(inner) or _literal_seq(inner):
            m = negate(inner)
            if not is_not(m):
                return atoms(m)
        lit = _literal_seq(inner)
        if lit is not None:
            pass
        return [canon(n)]
    if isinstance(n, ast.BoolOp) and isinstance(n.op, ast.And):
        out: list[ast.expr] = []
        for v in n.values:
            out += atoms(v)
        return out
    lit = _literal_seq(n)
    if lit is not None and isinstance(n, ast.Call) and isinstance(n.func, ast.Name):
        if n.func.id == "all":
            out = []
            for v in lit:
                out += atoms(v)
            return out
        return [canon(ast.BoolOp(ast.Or(), lit))] if len(lit) > 1 else atoms(lit[0])
    return [canon(n)]


def _isinstance_classes(n: ast.expr) -> list[ast.expr]:
    if isinstance(n, ast.Tuple):
        out: list[ast.expr] = []
        for e in n.elts:
            out += _isinstance_classes(e)
        return out
    if isinstance(n, ast.BinOp) and isinstance(n.op, ast.BitOr):
        return _isinstance_classes(n.left) + _isinstance_classes(n.right)
    return [n]


def _literal_elts(e: ast.expr) -> list[ast.expr] | None:
    """the elements of a literal sequence: a tuple/list display, tuple(..)/list(..) of one, or a comprehension with a single
    unfiltered generator over a literal sequence"""
    if isinstance(e, (ast.Tuple, ast.List)) and not any(isinstance(x, ast.Starred) for x in e.elts):
        return list(e.elts)
    if isinstance(e, ast.Call) and isinstance(e.func, ast.Name) and e.func.id in ("tuple", "list") and len(e.args) == 1 and not e.keywords:
        return _literal_elts(e.args[0])
    if isinstance(e, (ast.ListComp, ast.GeneratorExp)) and len(e.generators) == 1 and not e.generators[0].ifs and isinstance(e.generators[0].target, ast.Name):
        dom = _literal_elts(e.generators[0].iter)
        if dom is not None and len(dom) <= 8:
            return [_Subst(e.generators[0].target.id, d).visit(copy.deepcopy(e.elt)) for d in dom]
    return None


class _Canon(ast.NodeTransformer):
    def visit_Subscript(self, node: ast.Subscript) -> ast.AST:
        self.generic_visit(node)
        if isinstance(node.ctx, ast.Load) and isinstance(node.slice, ast.Constant) and isinstance(node.slice.value, int) and not isinstance(node.slice.value, bool):
            i = node.slice.value
            v = node.value
            if isinstance(v, ast.IfExp):
                # (a if c else b)[i]  ->  a[i] if c else b[i]
                return ast.IfExp(v.test, self.visit(ast.Subscript(v.body, node.slice, ast.Load())), self.visit(ast.Subscript(v.orelse, node.slice, ast.Load())))
            elts = _literal_elts(v)
            if elts is not None and -len(elts) <= i < len(elts):
                return elts[i]
        return node

    def visit_Compare(self, node: ast.Compare) -> ast.AST:
        self.generic_visit(node)
        if len(node.ops) == 1 and isinstance(node.ops[0], (ast.Eq, ast.NotEq)):
            # (a, b) == (c, d)  ->  a == c and b == d ;  (a, b) != (c, d)  ->  a != c or b != d
            l, r = node.left, node.comparators[0]
            if isinstance(l, ast.Tuple) and isinstance(r, ast.Tuple) and len(l.elts) == len(r.elts) >= 2 and not any(isinstance(x, ast.Starred) for x in (*l.elts, *r.elts)):
                parts = [self.visit(ast.Compare(a, [type(node.ops[0])()], [b])) for a, b in zip(l.elts, r.elts)]
                return ast.BoolOp(ast.And() if isinstance(node.ops[0], ast.Eq) else ast.Or(), parts)
        if len(node.ops) == 1 and type(node.ops[0]) in _MIRROR:
            l, r = node.left, node.comparators[0]
            if isinstance(l, ast.Constant) and not isinstance(r, ast.Constant):
                return ast.Compare(r, [_MIRROR[type(node.ops[0])]()], [l])
        return node

    def visit_Call(self, node: ast.Call) -> ast.AST:
        self.generic_visit(node)
        if isinstance(node.func, ast.Name) and node.func.id == "range" and len(node.args) == 3 and not node.keywords:
            # range(a, -1, -1)  ->  reversed(range(a + 1))   (counting down to 0)
            a_, stop_, step_ = node.args
            minus1 = lambda e: (isinstance(e, ast.UnaryOp) and isinstance(e.op, ast.USub) and isinstance(e.operand, ast.Constant) and e.operand.value == 1) or (  # noqa: E731
                isinstance(e, ast.Constant) and e.value == -1)
            if minus1(stop_) and minus1(step_):
                return ast.Call(ast.Name("reversed", ast.Load()), [ast.Call(ast.Name("range", ast.Load()), [ast.BinOp(a_, ast.Add(), ast.Constant(1))], [])], [])
        if isinstance(node.func, ast.Name) and node.func.id in ("len", "zip", "enumerate", "all", "any", "sum", "min", "max", "sorted", "reversed", "iter") and node.args:
            # a consumer of the elements does not care whether it is handed the sequence or a tuple / list made of it on the spot
            def _unwrap(a: ast.expr) -> ast.expr:
                while isinstance(a, ast.Call) and isinstance(a.func, ast.Name) and a.func.id in ("tuple", "list") and len(a.args) == 1 and not a.keywords and not isinstance(
                        a.args[0], (ast.GeneratorExp, ast.Starred)):
                    a = a.args[0]
                return a
            node.args = [_unwrap(a) for a in node.args]
        if isinstance(node.func, ast.Name) and node.func.id in ("isinstance", "isa") and len(node.args) == 2:
            cls = sorted(_isinstance_classes(node.args[1]), key=ast.unparse)
            second = cls[0] if len(cls) == 1 else ast.Tuple(cls, ast.Load())
            return ast.Call(node.func, [node.args[0], second], [])
        return node

    def visit_IfExp(self, node: ast.IfExp) -> ast.AST:
        self.generic_visit(node)
        # a conditional expression on a literal condition (a flag parameter of a walked helper) is the branch taken
        if isinstance(node.test, ast.Constant) and isinstance(node.test.value, (bool, int, type(None))):
            return node.body if node.test.value else node.orelse
        return node

    def visit_UnaryOp(self, node: ast.UnaryOp) -> ast.AST:
        self.generic_visit(node)
        if isinstance(node.op, ast.Not):
            inner = node.operand
            if isinstance(inner, ast.Compare) and len(inner.ops) == 1 and type(inner.ops[0]) in _FLIP:
                return ast.Compare(inner.left, [_FLIP[type(inner.ops[0])]()], inner.comparators)
            if is_not(inner):
                return inner.operand  # type: ignore[attr-defined]
            if isinstance(inner, ast.BoolOp):
                # De Morgan: the negation is pushed to the leaves
                flip = ast.Or() if isinstance(inner.op, ast.And) else ast.And()
                return ast.BoolOp(flip, [self.visit(ast.UnaryOp(ast.Not(), v)) for v in inner.values])
        return node


class _CanonTree(_Canon):
    """_Canon applied in place to a whole module, keeping source positions"""

    def visit(self, node: ast.AST) -> ast.AST:
        new = super().visit(node)
        if new is not node and isinstance(new, ast.AST) and hasattr(node, "lineno"):
            ast.copy_location(new, node)
            for ch in ast.walk(new):
                if not hasattr(ch, "lineno") and isinstance(ch, (ast.expr, ast.stmt)):
                    ast.copy_location(ch, node)
        return new


    def visit_For(self, node: ast.For) -> ast.AST:
        node = self.generic_visit(node)  # type: ignore[assignment]
        assert isinstance(node, ast.For)
        # for x in (e for e in D if c):  ->  for x in D: if not c[x/e]: continue   (a filtered domain written as a generator)
        it = node.iter
        if isinstance(it, (ast.GeneratorExp, ast.ListComp)) and len(it.generators) == 1 and it.generators[0].ifs and not it.generators[0].is_async and isinstance(
                it.generators[0].target, ast.Name) and isinstance(it.elt, ast.Name) and it.elt.id == it.generators[0].target.id and isinstance(node.target, ast.Name):
            g = it.generators[0]
            ev, xv = g.target.id, node.target.id  # type: ignore[attr-defined]
            clash = any(isinstance(n, ast.Name) and n.id == xv for c in g.ifs for n in ast.walk(c)) and ev != xv
            if not clash:
                class _Ren(ast.NodeTransformer):
                    def visit_Name(self, n: ast.Name) -> ast.AST:
                        return ast.copy_location(ast.Name(xv, n.ctx), n) if n.id == ev else n
                cond = g.ifs[0] if len(g.ifs) == 1 else ast.BoolOp(ast.And(), list(g.ifs))
                cond = _Ren().visit(copy.deepcopy(cond))
                guard = ast.If(_Canon().visit(ast.UnaryOp(ast.Not(), cond)), [ast.Continue()], [])
                for n in ast.walk(guard):
                    if isinstance(n, (ast.expr, ast.stmt)):
                        ast.copy_location(n, node)
                node.iter = g.iter
                node.body = [guard, *node.body]
        # for x in filter(f, D):  ->  for x in D: if not f(x): continue   (f a plain name; filter(None, D) keeps the truthy elements)
        it = node.iter
        if isinstance(it, ast.Call) and isinstance(it.func, ast.Name) and it.func.id == "filter" and len(it.args) == 2 and not it.keywords and isinstance(node.target, ast.Name) \
                and (isinstance(it.args[0], ast.Name) or (isinstance(it.args[0], ast.Constant) and it.args[0].value is None)):
            xv_ = ast.Name(node.target.id, ast.Load())
            cond = xv_ if isinstance(it.args[0], ast.Constant) else ast.Call(ast.Name(it.args[0].id, ast.Load()), [xv_], [])
            guard = ast.If(_Canon().visit(ast.UnaryOp(ast.Not(), cond)), [ast.Continue()], [])
            for n in ast.walk(guard):
                if isinstance(n, (ast.expr, ast.stmt)):
                    ast.copy_location(n, node)
            node.iter = it.args[1]
            node.body = [guard, *node.body]
        return node

    def visit_If(self, node: ast.If) -> ast.AST:
        node = self.generic_visit(node)  # type: ignore[assignment]
        assert isinstance(node, ast.If)
        # an if/else whose test is negative is turned round, so that the polarity a developer happened to choose does not matter;
        # elif chains keep their order (only the last link of a chain can have a plain else)
        if node.orelse and not (len(node.orelse) == 1 and isinstance(node.orelse[0], ast.If)):
            t = node.test
            pos = None
            if is_not(t):
                pos = t.operand  # type: ignore[attr-defined]
            elif isinstance(t, ast.Compare) and len(t.ops) == 1 and isinstance(t.ops[0], (ast.NotEq, ast.IsNot, ast.NotIn)):
                pos = ast.Compare(t.left, [_FLIP[type(t.ops[0])]()], t.comparators)
            if pos is not None:
                ast.copy_location(pos, t)
                node.test, node.body, node.orelse = pos, node.orelse, node.body
        return node


_EXITS = (ast.Return, ast.Continue, ast.Break, ast.Raise)


def _flatten_else_after_exit(stmts: list[ast.stmt]) -> list[ast.stmt]:
    """`if c: ...; <exit>  else: rest`  ->  `if c: ...; <exit>` followed by `rest` (what follows an exiting branch needs no else);
    applied to every statement list, innermost first"""
    out: list[ast.stmt] = []
    for st in stmts:
        for fld in ("body", "orelse", "finalbody"):
            sub = getattr(st, fld, None)
            if isinstance(sub, list) and sub and isinstance(sub[0], ast.stmt):
                setattr(st, fld, _flatten_else_after_exit(sub))
        if isinstance(st, ast.Try):
            for h in st.handlers:
                h.body = _flatten_else_after_exit(h.body)
        if isinstance(st, ast.If) and st.orelse and st.body and not isinstance(st.body[-1], _EXITS) and isinstance(st.orelse[-1], _EXITS) \
                and not (len(st.orelse) == 1 and isinstance(st.orelse[0], ast.If)):
            # the exiting branch comes first: `if c: rest else: <exit>` -> `if not c: <exit>` followed by rest
            st.test, st.body, st.orelse = canon(ast.UnaryOp(ast.Not(), st.test)), st.orelse, st.body
        if isinstance(st, ast.If) and st.orelse and st.body and isinstance(st.body[-1], _EXITS):
            rest = st.orelse
            st.orelse = []
            out.append(st)
            out.extend(rest)
        else:
            out.append(st)
    return out


def _leading_walrus(test: ast.expr) -> tuple[ast.NamedExpr, ast.expr] | None:
    """(walrus, test with the walrus replaced by its target) when the walrus is the first thing the test evaluates"""
    path: list[ast.AST] = []
    cur: ast.AST = test
    for _ in range(6):
        if isinstance(cur, ast.NamedExpr):
            break
        if isinstance(cur, ast.Compare):
            path.append(cur)
            cur = cur.left
        elif isinstance(cur, ast.UnaryOp) and isinstance(cur.op, ast.Not):
            path.append(cur)
            cur = cur.operand
        elif isinstance(cur, ast.BoolOp):
            path.append(cur)
            cur = cur.values[0]
        elif isinstance(cur, ast.Call) and isinstance(cur.func, ast.Name) and cur.args and not cur.keywords:
            path.append(cur)
            cur = cur.args[0]
        else:
            return None
    if not isinstance(cur, ast.NamedExpr) or not isinstance(cur.target, ast.Name):
        return None
    name = ast.copy_location(ast.Name(cur.target.id, ast.Load()), cur)
    if not path:
        return cur, name
    par = path[-1]
    if isinstance(par, ast.Compare):
        par.left = name
    elif isinstance(par, ast.UnaryOp):
        par.operand = name
    elif isinstance(par, ast.BoolOp):
        par.values[0] = name
    elif isinstance(par, ast.Call):
        par.args[0] = name
    return cur, test


def _split_walrus_tests(stmts: list[ast.stmt]) -> list[ast.stmt]:
    """`if X or Y: <exit>` with an assignment expression in the test becomes `if X: <exit>` `if Y: <exit>`, and a walrus that is the
    first thing a test evaluates becomes an assignment in front of the `if` (both behaviour-preserving): a helper called inside
    a test is then an ordinary call statement"""
    out: list[ast.stmt] = []
    for st in stmts:
        for fld in ("body", "orelse", "finalbody"):
            sub = getattr(st, fld, None)
            if isinstance(sub, list) and sub and isinstance(sub[0], ast.stmt):
                setattr(st, fld, _split_walrus_tests(sub))
        if isinstance(st, ast.Try):
            for h in st.handlers:
                h.body = _split_walrus_tests(h.body)
        if isinstance(st, ast.Return) and isinstance(st.value, ast.IfExp):
            # `return a if c else b`  ->  `if c: return a` / `return b`
            v = st.value
            first = ast.copy_location(ast.If(v.test, [ast.copy_location(ast.Return(v.body), st)], []), st)
            rest = ast.copy_location(ast.Return(v.orelse), st)
            out.extend(_split_walrus_tests([first, rest]))
            continue
        if isinstance(st, ast.If) and not st.orelse and len(st.body) == 1 and isinstance(st.body[0], _EXITS) \
                and any(isinstance(n, ast.NamedExpr) for n in ast.walk(st.test)):
            tests = list(st.test.values) if isinstance(st.test, ast.BoolOp) and isinstance(st.test.op, ast.Or) else [st.test]
            for t in tests:
                lw = _leading_walrus(t)
                if lw is not None:
                    w, t = lw
                    out.append(ast.copy_location(ast.Assign([ast.Name(w.target.id, ast.Store())], w.value), st))
                out.append(ast.copy_location(ast.If(t, [copy.deepcopy(x) for x in st.body], []), st))
            continue
        out.append(st)
    return out


def _gen_returns_to_loops(stmts: list[ast.stmt]) -> list[ast.stmt]:
    out: list[ast.stmt] = []
    for st in stmts:
        for fld in ("body", "orelse", "finalbody"):
            sub = getattr(st, fld, None)
            if isinstance(sub, list) and sub and isinstance(sub[0], ast.stmt):
                setattr(st, fld, _gen_returns_to_loops(sub))
        if isinstance(st, ast.Try):
            for h in st.handlers:
                h.body = _gen_returns_to_loops(h.body)
        if isinstance(st, ast.Return) and st.value is not None:
            # `return all(E for v in D if F)` -> `for v in D: if F and not E: return False` / `return True` (same short-circuit
            # evaluation; only generator expressions, a list display evaluates every element); likewise any / not any / not all
            v_ = st.value
            neg_ = False
            if isinstance(v_, ast.UnaryOp) and isinstance(v_.op, ast.Not):
                neg_, v_ = True, v_.operand
            if isinstance(v_, ast.Call) and isinstance(v_.func, ast.Name) and v_.func.id in ("all", "any") and len(v_.args) == 1 and not v_.keywords \
                    and isinstance(v_.args[0], ast.GeneratorExp) and not any(isinstance(n_, (ast.Await, ast.Yield)) for n_ in ast.walk(v_)):
                gen_ = v_.args[0]
                is_all = v_.func.id == "all"
                hit = ast.UnaryOp(ast.Not(), gen_.elt) if is_all else gen_.elt          # the element that decides
                decided = (not is_all) != neg_                                          # value returned when it is found
                inner: list[ast.stmt] = [ast.If(hit, [ast.Return(ast.Constant(decided))], [])]
                for g_ in reversed(gen_.generators):
                    body_: list[ast.stmt] = inner
                    for c_ in reversed(g_.ifs):
                        body_ = [ast.If(ast.UnaryOp(ast.Not(), c_), [ast.Continue()], []), *body_]
                    inner = [ast.For(g_.target, g_.iter, body_, [], None)]
                new_ = [*inner, ast.Return(ast.Constant(not decided))]
                for n_ in new_:
                    for ch_ in ast.walk(n_):
                        if isinstance(ch_, (ast.stmt, ast.expr)) and not hasattr(ch_, "lineno"):
                            ast.copy_location(ch_, st)
                    ast.copy_location(n_, st)
                out.extend(new_)
                continue
        out.append(st)
    return out


def loops_for_generator_returns(tree: ast.Module) -> ast.Module:
    """second stage of the normal form, applied after new one-line helpers were replaced by their expression (sa/model.py): a
    function that *returns* a generator predicate is written as the loop it abbreviates"""
    for node in ast.walk(tree):
        if isinstance(node, (ast.FunctionDef, ast.AsyncFunctionDef)):
            node.body = _gen_returns_to_loops(node.body)
    ast.fix_missing_locations(tree)
    # the new `if` tests are put into normal form as well
    out = _CanonTree().visit(tree)
    return ast.fix_missing_locations(out)


def canon_tree(tree: ast.Module) -> ast.Module:
    for node in ast.walk(tree):
        if isinstance(node, (ast.FunctionDef, ast.AsyncFunctionDef)):
            node.body = _split_walrus_tests(node.body)
    ast.fix_missing_locations(tree)
    for node in ast.walk(tree):
        if isinstance(node, (ast.FunctionDef, ast.AsyncFunctionDef)):
            node.body = _flatten_else_after_exit(node.body)
    ast.fix_missing_locations(tree)
    out = _CanonTree().visit(tree)
    return ast.fix_missing_locations(out)


def canon(n: ast.expr) -> ast.expr:
    return ast.fix_missing_locations(_Canon().visit(copy.deepcopy(n)))


# --------------------------------------------------------------------------- templates

_HOLE = re.compile(r"\$([A-Za-z_][A-Za-z0-9_]*)")


class Template:
    """An expression template.  `$x` is a hole that matches any expression (consistently);
    `$_` matches anything without binding."""

    def __init__(self, src: str):
        self.src = src
        py = _HOLE.sub(lambda m: f"__hole_{m.group(1)}__", src)
        self.tree = canon(ast.parse(py, mode="eval").body)

    def __repr__(self) -> str:
        return f"T({self.src!r})"


def T(src: str) -> Template:
    return Template(src)


def _hole_name(n: ast.AST) -> str | None:
    if isinstance(n, ast.Name) and n.id.startswith("__hole_") and n.id.endswith("__"):
        return n.id[len("__hole_") : -2]
    return None


def _eq(a: ast.AST, b: ast.AST) -> bool:
    return ast.dump(a) == ast.dump(b)


def match(t: Template | ast.AST, e: ast.AST, binds: dict[str, ast.AST] | None = None) -> dict[str, ast.AST] | None:
    """Match template against expression; returns the bindings or None.  `binds` may pre-bind holes
    (to AST nodes or to source strings)."""
    b: dict[str, ast.AST] = _Binds()
    for k, v in (binds or {}).items():
        b[k] = ast.parse(v, mode="eval").body if isinstance(v, str) else v
    tree = t.tree if isinstance(t, Template) else t
    return b if _match(tree, e, b) else None


class _Binds(dict):  # type: ignore[type-arg]
    """the bindings of a successful match: true in a boolean context even when the template has no holes"""

    def __bool__(self) -> bool:
        return True


WRAPPERS = ("__phi__", "__ctl__", "__inl__")


def wrapper_kind(e: ast.AST) -> str | None:
    if isinstance(e, ast.Call) and isinstance(e.func, ast.Name) and e.func.id in WRAPPERS and e.args:
        return e.func.id
    return None


class _Primary(ast.NodeTransformer):
    def visit_Call(self, node: ast.Call) -> ast.AST:
        if wrapper_kind(node):
            return self.visit(node.args[0])
        return self.generic_visit(node)


def primary(e: ast.AST) -> ast.AST:
    """the expression with all dependency wrappers (__phi__/__ctl__/__inl__) replaced by their primary
    (first) argument, i.e. the expression as written"""
    if not any(wrapper_kind(n) for n in ast.walk(e)):
        return e
    return _Primary().visit(copy.deepcopy(e))


def _match(t: ast.AST, e: ast.AST, b: dict[str, ast.AST]) -> bool:
    h = _hole_name(t)
    if h is not None:
        if h == "_":
            return True
        if h in b:
            return _eq(strip_ctx(primary(b[h])), strip_ctx(primary(e)))
        b[h] = e
        return True
    wk = wrapper_kind(e)
    if wk is not None and not (isinstance(t, ast.Call) and isinstance(t.func, ast.Name) and t.func.id == wk):
        # wrappers are transparent: match the primary expression, or (phi / inl) one of the alternatives
        assert isinstance(e, ast.Call)
        cands = e.args if wk in ("__phi__", "__inl__") else e.args[:1]
        for c in cands:
            b2 = dict(b)
            if _match(t, c, b2):
                b.clear()
                b.update(b2)
                return True
        return False
    if type(t) is not type(e):
        return False
    for fld in t._fields:
        if fld == "ctx":
            continue
        tv, ev = getattr(t, fld, None), getattr(e, fld, None)
        if isinstance(tv, list):
            if not isinstance(ev, list) or len(tv) != len(ev):
                return False
            for x, y in zip(tv, ev):
                if isinstance(x, ast.AST):
                    if not isinstance(y, ast.AST) or not _match(x, y, b):
                        return False
                elif x != y:
                    return False
        elif isinstance(tv, ast.AST):
            if not isinstance(ev, ast.AST) or not _match(tv, ev, b):
                return False
        elif tv != ev:
            return False
    return True


class _StripCtx(ast.NodeTransformer):
    def generic_visit(self, node: ast.AST) -> ast.AST:
        super().generic_visit(node)
        if hasattr(node, "ctx"):
            node.ctx = ast.Load()  # type: ignore[attr-defined]
        return node


def strip_ctx(n: ast.AST) -> ast.AST:
    return _StripCtx().visit(copy.deepcopy(n))


def find(t: Template, e: ast.AST, binds: dict[str, ast.AST] | None = None) -> list[tuple[ast.AST, dict[str, ast.AST]]]:
    """All sub-expressions of `e` matching `t`."""
    out = []
    for sub in ast.walk(e):
        m = match(t, sub, binds)
        if m is not None:
            out.append((sub, m))
    return out


def contains(e: ast.AST, t: Template | str, binds: dict[str, ast.AST] | None = None) -> bool:
    if isinstance(t, str):
        t = T(t)
    return bool(find(t, e, binds))


def any_match(ts: Iterable[Template | str], e: ast.AST, binds: dict[str, ast.AST] | None = None) -> dict[str, ast.AST] | None:
    for t in ts:
        if isinstance(t, str):
            t = T(t)
        m = match(t, e, binds)
        if m is not None:
            return m
    return None


def free_names(e: ast.AST) -> set[str]:
    """names occurring free in `e` (comprehension targets and lambda parameters are bound)"""
    out: set[str] = set()

    def go(n: ast.AST, bound: frozenset[str]) -> None:
        if isinstance(n, ast.Name):
            if n.id not in bound:
                out.add(n.id)
            return
        if isinstance(n, (ast.ListComp, ast.SetComp, ast.GeneratorExp, ast.DictComp)):
            b = bound
            for i, g in enumerate(n.generators):
                go(g.iter, b if i else bound)
                b = b | {x.id for x in ast.walk(g.target) if isinstance(x, ast.Name)}
                for c in g.ifs:
                    go(c, b)
            if isinstance(n, ast.DictComp):
                go(n.key, b)
                go(n.value, b)
            else:
                go(n.elt, b)
            return
        if isinstance(n, ast.Lambda):
            a = n.args
            b = bound | {x.arg for x in (*a.posonlyargs, *a.args, *a.kwonlyargs)}
            if a.vararg:
                b = b | {a.vararg.arg}
            if a.kwarg:
                b = b | {a.kwarg.arg}
            go(n.body, b)
            return
        for c in ast.iter_child_nodes(n):
            go(c, bound)

    go(e, frozenset())
    return out


def access_paths(e: ast.AST) -> set[str]:
    """Maximal Name/Attribute chains (and their prefixes) occurring in `e`, as source text."""
    out: set[str] = set()
    for n in ast.walk(e):
        if isinstance(n, (ast.Attribute, ast.Name)):
            cur: ast.AST = n
            ok = True
            while isinstance(cur, ast.Attribute):
                cur = cur.value
            if isinstance(cur, ast.Name):
                out.add(ast.unparse(n))
            else:
                ok = False
            del ok
    return out


def call_names(e: ast.AST) -> set[str]:
    """Names of called functions / methods (last component) in `e`."""
    out: set[str] = set()
    for n in ast.walk(e):
        if isinstance(n, ast.Call):
            f = n.func
            if isinstance(f, ast.Name):
                out.add(f.id)
            elif isinstance(f, ast.Attribute):
                out.add(f.attr)
    return out


# --------------------------------------------------------------------------- quantifier normal form
class _Subst(ast.NodeTransformer):
    def __init__(self, name: str, by: ast.expr):
        self.name, self.by = name, by

    def visit_Name(self, node: ast.Name) -> ast.AST:
        if node.id == self.name and isinstance(node.ctx, ast.Load):
            return copy.deepcopy(self.by)
        return node


def _subst(e: ast.expr, name: str, by: ast.expr) -> ast.expr:
    return ast.fix_missing_locations(_Subst(name, by).visit(copy.deepcopy(e)))


def _comp_parts(n: ast.AST):
    """(element, target name, iterable, filters) of a single-generator comprehension / generator expression"""
    if isinstance(n, (ast.ListComp, ast.GeneratorExp, ast.SetComp)) and len(n.generators) == 1 and isinstance(n.generators[0].target, ast.Name):
        g = n.generators[0]
        return n.elt, g.target.id, g.iter, list(g.ifs)
    return None


def qnf(atom: ast.expr):
    """Quantifier normal form of an atomic condition, or None.

    Returns (kind, var, domain, filters, body): `all`: for every var in domain with all filters, body holds; `any`: some var in domain
    satisfies all filters and body.  Recognised spellings: any(gen) / all(gen); the truthiness of a comprehension (`if xs`, `not xs`,
    `len(xs) > 0`, `len(xs) == 0`); domains that are themselves comprehensions, `filter(lambda ..)`, `list/tuple/set(..)` are
    composed away, so that `all(p(l) for l in [f(u) for u in D if c(u)])` and `all(p(f(u)) for u in filter(c, D))` get one form.
    """
    e = primary(atom)
    kind = var = dom = body = None
    filters: list[ast.expr] = []
    neg = False
    if is_not(e):
        neg, e = True, e.operand  # type: ignore[attr-defined]
    # len(xs) comparisons
    if isinstance(e, ast.Compare) and len(e.ops) == 1 and isinstance(e.left, ast.Call) and isinstance(e.left.func, ast.Name) and e.left.func.id == "len" \
            and len(e.left.args) == 1 and isinstance(e.comparators[0], ast.Constant) and e.comparators[0].value == 0:
        op = type(e.ops[0])
        if op in (ast.Gt, ast.NotEq):
            e = e.left.args[0]
        elif op is ast.Eq:
            e, neg = e.left.args[0], not neg
        else:
            return None
    if isinstance(e, ast.Call) and isinstance(e.func, ast.Name) and e.func.id in ("any", "all") and len(e.args) == 1 and _comp_parts(e.args[0]):
        elt, var, dom, filters = _comp_parts(e.args[0])  # type: ignore[misc]
        kind, body = e.func.id, elt
    elif _comp_parts(e):
        # truthiness of a comprehension: some element passes the filters
        _, var, dom, filters = _comp_parts(e)  # type: ignore[misc]
        kind, body = "any", ast.Constant(True)
    elif isinstance(e, ast.Call) and isinstance(e.func, ast.Name) and e.func.id in ("list", "tuple", "set") and len(e.args) == 1 and _comp_parts(e.args[0]):
        _, var, dom, filters = _comp_parts(e.args[0])  # type: ignore[misc]
        kind, body = "any", ast.Constant(True)
    else:
        return None
    if neg:
        # not any(F and B) = all(F -> not B);  not all(F -> B) = any(F and not B)
        kind = "all" if kind == "any" else "any"
        body = canon(negate(body)) if not (isinstance(body, ast.Constant) and body.value is True) else ast.Constant(False)
    # compose the domain away
    for _ in range(6):
        d = primary(dom)
        if isinstance(d, ast.Call) and isinstance(d.func, ast.Name) and d.func.id in ("list", "tuple", "set", "iter", "sorted", "reversed") and d.args:
            dom = d.args[0]
            continue
        cp = _comp_parts(d)
        if cp is not None:
            elt2, var2, dom2, filt2 = cp
            body = _subst(body, var, elt2)
            filters = [_subst(f, var, elt2) for f in filters] + list(filt2)
            var, dom = var2, dom2
            continue
        if isinstance(d, ast.Call) and isinstance(d.func, ast.Name) and d.func.id == "filter" and len(d.args) == 2 and isinstance(d.args[0], ast.Lambda) \
                and len(d.args[0].args.args) == 1:
            lam = d.args[0]
            filters = filters + [_subst(lam.body, lam.args.args[0].arg, ast.Name(var, ast.Load()))]
            dom = d.args[1]
            continue
        break
    # a vacuous `all(... False ...)` with filters: all(F -> False) = all(not F)
    if kind == "all" and isinstance(body, ast.Constant) and body.value is False and filters:
        body = canon(negate(filters[-1])) if len(filters) == 1 else canon(negate(ast.BoolOp(ast.And(), filters)))
        filters = []
    if kind == "any" and isinstance(body, ast.Constant) and body.value is True and filters:
        body, filters = filters[-1], filters[:-1]
    return kind, var, dom, [canon(f) for f in filters], canon(body)


def unroll_literal_generators(e: ast.expr) -> ast.expr:
    """comprehensions with a generator over a literal tuple/list of constants are expanded per constant:
    `[f(a, o) for a in A for o in (c1, c2) if p(a, o)]` -> `__unroll__([f(a, c1) for a in A if p(a, c1)], [f(a, c2) for a in A if p(a, c2)])`
    (for dependency / pattern questions: which values can the elements take)"""

    class U(ast.NodeTransformer):
        def _comp(self, node):  # type: ignore[no-untyped-def]
            self.generic_visit(node)
            for gi, g in enumerate(node.generators):
                if isinstance(g.target, ast.Name) and isinstance(g.iter, (ast.Tuple, ast.List)) and g.iter.elts and all(isinstance(x, ast.Constant) for x in g.iter.elts) \
                        and len(g.iter.elts) <= 4:
                    copies = []
                    for c in g.iter.elts:
                        cp = copy.deepcopy(node)
                        gen = cp.generators.pop(gi)
                        cp = _Subst(g.target.id, c).visit(cp)
                        if gen.ifs:
                            cond = [_Subst(g.target.id, c).visit(copy.deepcopy(x)) for x in gen.ifs]
                            if cp.generators:
                                cp.generators[min(gi, len(cp.generators)) - 1 if gi else 0].ifs.extend(cond)
                        if not cp.generators:
                            # the literal generator was the only one: the element itself (under its conditions)
                            elt = cp.value if isinstance(cp, ast.DictComp) else cp.elt
                            cp = ast.Call(ast.Name("__ctl__", ast.Load()), [elt, *(cond if gen.ifs else [])], []) if gen.ifs else elt
                        copies.append(cp)
                    return self.visit(ast.Call(ast.Name("__unroll__", ast.Load()), copies, []))
            return node

        visit_ListComp = visit_SetComp = visit_GeneratorExp = visit_DictComp = _comp

    return ast.fix_missing_locations(U().visit(copy.deepcopy(e)))

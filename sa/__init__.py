"""Static-analysis engine for the snax-mlir properties (see /verif/DESIGN.md section 3).

Pure standard library.  Nothing in here imports or executes code of the analysed repository.
"""

"""E1 — source model: modules, imports, classes (with MRO over repo classes), functions.

Everything is derived from `ast.parse`; nothing is imported from the analysed tree.
"""

from __future__ import annotations

import ast
import hashlib
from dataclasses import dataclass, field
from pathlib import Path

from .errors import AnalysisError, AnchorMissing


@dataclass
class Func:
    name: str
    qualname: str
    node: ast.FunctionDef
    module: "Module"
    cls: "Cls | None" = None
    parent: "Func | None" = None  # enclosing function for nested defs

    @property
    def params(self) -> list[str]:
        a = self.node.args
        return [x.arg for x in (*a.posonlyargs, *a.args)]

    def param(self, i: int) -> str:
        ps = self.params
        if i >= len(ps):
            raise AnalysisError(f"{self.where}: expected at least {i + 1} parameters, found {ps}")
        return ps[i]

    @property
    def where(self) -> str:
        return f"{self.module.relpath}:{self.node.lineno} {self.qualname}"

    @property
    def key(self) -> str:
        return f"{self.module.relpath}:{self.qualname}"

    def nested(self, name: str) -> "Func":
        for n in ast.walk(self.node):
            if isinstance(n, ast.FunctionDef) and n is not self.node and n.name == name:
                return Func(name, f"{self.qualname}.<locals>.{name}", n, self.module, self.cls, self)
        raise AnchorMissing(f"nested function {name} not found in {self.where}")

    def decorators(self) -> list[str]:
        return [ast.unparse(d) for d in self.node.decorator_list]


@dataclass
class Cls:
    name: str
    node: ast.ClassDef
    module: "Module"
    methods: dict[str, Func] = field(default_factory=dict)
    consts: dict[str, ast.expr] = field(default_factory=dict)  # class-level `x = <expr>` / `x: T = <expr>`
    annotations: dict[str, ast.expr] = field(default_factory=dict)  # class-level `x: T`

    @property
    def dotted(self) -> str:
        return f"{self.module.dotted}.{self.name}"

    @property
    def where(self) -> str:
        return f"{self.module.relpath}:{self.node.lineno} class {self.name}"

    @property
    def key(self) -> str:
        return f"{self.module.relpath}:{self.name}"


@dataclass
class Module:
    relpath: str
    dotted: str
    src: str
    tree: ast.Module
    imports: dict[str, str] = field(default_factory=dict)  # local name -> dotted target
    classes: dict[str, Cls] = field(default_factory=dict)
    funcs: dict[str, Func] = field(default_factory=dict)  # top-level functions
    consts: dict[str, ast.expr] = field(default_factory=dict)  # module-level simple assignments

    def digest(self) -> str:
        return hashlib.sha256(self.src.encode()).hexdigest()[:16]


def _dotted_of(relpath: str) -> str:
    p = relpath[:-3] if relpath.endswith(".py") else relpath
    if p.endswith("/__init__"):
        p = p[: -len("/__init__")]
    return p.replace("/", ".")


class Repo:
    """All parsed modules of the analysed tree."""

    def __init__(self, root: str | Path, subdirs: tuple[str, ...] = ("snaxc",)):
        self.root = Path(root)
        self.modules: dict[str, Module] = {}
        self.by_dotted: dict[str, Module] = {}
        self.parse_errors: list[str] = []
        for sub in subdirs:
            base = self.root / sub
            if not base.exists():
                continue
            for path in sorted(base.rglob("*.py")):
                rel = str(path.relative_to(self.root))
                try:
                    src = path.read_text()
                    tree = ast.parse(src, filename=rel)
                    # behaviour-preserving normal form applied once to the whole program, so that no rule depends on how a
                    # negation or a comparison happens to be spelled: `not a is b` -> `a is not b`, `not a in b` -> `a not in b`,
                    # `not a == b` -> `a != b`, `not not x` -> `x`, `1 == x` -> `x == 1`, isinstance class tuples sorted
                    from .norm import canon_tree

                    tree = canon_tree(tree)
                except (SyntaxError, UnicodeDecodeError) as e:  # a tree that does not compile is not analysable
                    self.parse_errors.append(f"{rel}: {e}")
                    continue
                m = Module(rel, _dotted_of(rel), src, tree)
                self._index(m)
                self.modules[rel] = m
                self.by_dotted[m.dotted] = m
        if self.parse_errors:
            raise AnalysisError("source files do not parse: " + "; ".join(self.parse_errors))
        self._subclass_cache: dict[str, list[Cls]] | None = None
        self.inlined_oneliners: list[str] = []
        self.inlined_oneliner_keys: set[str] = set()
        for _ in range(2):
            if not self._inline_oneliners():
                break
        from .norm import loops_for_generator_returns

        for m in self.modules.values():
            loops_for_generator_returns(m.tree)
        self._hoist_new_helper_calls()

    # ------------------------------------------------------------------ calls of new helpers become statements of their own
    def _hoist_new_helper_calls(self) -> int:
        """Part of the normal form: `x = helper(a).f` (helper: a module-level function the reference tree does not have) becomes
        `__h = helper(a); x = __h.f`, when the call is evaluated unconditionally by the statement.  The flow walker then walks the
        helper as part of its caller (it only does so for calls that are a statement's whole value)."""
        import json

        try:
            known = frozenset(json.loads(Path(__file__).with_name("known_funcs.json").read_text()))
        except Exception:  # noqa: BLE001
            return 0
        repo = self
        count = 0

        new_closures: set[str] = set()  # local functions of the function being processed that the reference tree does not have

        def new_helper(m: Module, call: ast.Call) -> bool:
            if not isinstance(call.func, ast.Name):
                return False
            if call.func.id in new_closures:
                return True
            h = m.funcs.get(call.func.id)
            if h is None and call.func.id in m.imports:
                obj = repo.lookup_dotted(m.imports[call.func.id])
                h = obj if isinstance(obj, Func) else None
            return h is not None and h.cls is None and h.key not in known

        def unconditional_calls(m: Module, e: ast.AST, out: list[ast.Call], top: bool) -> None:
            if isinstance(e, (ast.Lambda, ast.ListComp, ast.SetComp, ast.DictComp, ast.GeneratorExp, ast.IfExp)):
                if isinstance(e, ast.IfExp):
                    unconditional_calls(m, e.test, out, False)
                return
            if isinstance(e, ast.BoolOp):
                unconditional_calls(m, e.values[0], out, False)
                return
            for c in ast.iter_child_nodes(e):
                unconditional_calls(m, c, out, False)
            if isinstance(e, ast.Call) and not top and new_helper(m, e):
                out.append(e)

        def process(m: Module, stmts: list[ast.stmt]) -> list[ast.stmt]:
            nonlocal count
            res: list[ast.stmt] = []
            for st in stmts:
                for fld in ("body", "orelse", "finalbody"):
                    sub = getattr(st, fld, None)
                    if isinstance(sub, list) and sub and isinstance(sub[0], ast.stmt):
                        setattr(st, fld, process(m, sub))
                if isinstance(st, ast.Try):
                    for h in st.handlers:
                        h.body = process(m, h.body)
                fld_ = "iter" if isinstance(st, ast.For) else "value"
                if isinstance(st, (ast.Assign, ast.AnnAssign, ast.AugAssign, ast.Expr, ast.Return, ast.For)) and getattr(st, fld_, None) is not None:
                    found: list[ast.Call] = []
                    # the walker walks a helper called as the whole value of an assignment / expression statement / return itself
                    unconditional_calls(m, getattr(st, fld_), found, not isinstance(st, (ast.For, ast.AugAssign)))
                    for k, call in enumerate(found):
                        tmp = f"__h{getattr(st, 'lineno', 0)}_{k}__"
                        res.append(ast.copy_location(ast.Assign([ast.Name(tmp, ast.Store())], call), st))

                        class Rep(ast.NodeTransformer):
                            def visit_Call(self, n: ast.Call) -> ast.AST:
                                if n is call:
                                    return ast.copy_location(ast.Name(tmp, ast.Load()), n)
                                return self.generic_visit(n)

                        setattr(st, fld_, Rep().visit(getattr(st, fld_)))
                        count += 1
                res.append(st)
            return res

        for m in self.modules.values():
            for node in ast.walk(m.tree):
                if isinstance(node, (ast.FunctionDef, ast.AsyncFunctionDef)):
                    new_closures.clear()
                    new_closures.update(n.name for n in ast.walk(node) if isinstance(n, ast.FunctionDef) and n is not node and f"{m.relpath}:*.{n.name}" not in known
                                        and not any(f"{m.relpath}:" in k and k.endswith(f".{n.name}") for k in ()))
                    node.body = process(m, node.body)
            ast.fix_missing_locations(m.tree)
        return count

    # ------------------------------------------------------------------ expression helpers are looked through
    def _inline_oneliners(self) -> int:
        """Part of the whole-program normal form: a call to a plain module-level helper whose body is a single `return <expr>` and
        that the reference tree does not have (sa/known_funcs.json) is replaced by that expression over the arguments, so that a
        predicate or accessor extracted into a helper reads like the code it was extracted from."""
        import copy
        import json

        try:
            known = frozenset(json.loads(Path(__file__).with_name("known_funcs.json").read_text()))
        except Exception:  # noqa: BLE001
            return 0
        cands: dict[int, tuple[Func, ast.expr]] = {}
        for m in self.modules.values():
            for h in m.funcs.values():
                if h.key in known or h.node.decorator_list:
                    continue
                body = [st for st in h.node.body if not (isinstance(st, ast.Expr) and isinstance(st.value, ast.Constant))]
                a = h.node.args
                if len(body) != 1 or not isinstance(body[0], ast.Return) or body[0].value is None or a.vararg or a.kwarg or a.kwonlyargs:
                    continue
                e = body[0].value
                nodes = list(ast.walk(e))
                if len(nodes) > 80 or any(isinstance(n, (ast.Lambda, ast.Yield, ast.YieldFrom, ast.Await, ast.NamedExpr)) for n in nodes):
                    continue
                if any(isinstance(n, ast.Call) and isinstance(n.func, ast.Name) and n.func.id == h.name for n in nodes):
                    continue
                cands[id(h.node)] = (h, e)
        if not cands:
            return 0
        repo = self
        count = 0

        class Inl(ast.NodeTransformer):
            def __init__(self, m: Module):
                self.m = m
                self.inside: list[ast.AST] = []

            def visit_FunctionDef(self, node: ast.FunctionDef) -> ast.AST:
                self.inside.append(node)
                self.generic_visit(node)
                self.inside.pop()
                return node

            def visit_Call(self, node: ast.Call) -> ast.AST:
                nonlocal count
                self.generic_visit(node)
                if not isinstance(node.func, ast.Name):
                    return node
                h = self.m.funcs.get(node.func.id)
                if h is None and node.func.id in self.m.imports:
                    obj = repo.lookup_dotted(self.m.imports[node.func.id])
                    h = obj if isinstance(obj, Func) else None
                if h is None or id(h.node) not in cands or any(x is h.node for x in self.inside):
                    return node
                _, e = cands[id(h.node)]
                a = h.node.args
                params = [x.arg for x in (*a.posonlyargs, *a.args)]
                if len(node.args) > len(params) or any(isinstance(x, ast.Starred) for x in node.args) or any(k.arg is None for k in node.keywords):
                    return node
                bound: dict[str, ast.expr] = dict(zip(params, node.args))
                for k in node.keywords:
                    if k.arg not in params or k.arg in bound:
                        return node
                    bound[k.arg] = k.value  # type: ignore[index]
                defaults = dict(zip(params[len(params) - len(a.defaults):], a.defaults)) if a.defaults else {}
                for p_ in params:
                    if p_ not in bound:
                        if p_ not in defaults:
                            return node
                        bound[p_] = defaults[p_]
                # no capture: names bound inside the expression must not occur free in the arguments
                inner = {n.id for c in ast.walk(e) if isinstance(c, ast.comprehension) for n in ast.walk(c.target) if isinstance(n, ast.Name)}
                if inner & {n.id for v in bound.values() for n in ast.walk(v) if isinstance(n, ast.Name)} or inner & set(params):
                    return node

                class Sub(ast.NodeTransformer):
                    def visit_Name(self, n: ast.Name) -> ast.AST:
                        if isinstance(n.ctx, ast.Load) and n.id in bound:
                            return copy.deepcopy(bound[n.id])
                        return n

                new = Sub().visit(copy.deepcopy(e))
                for ch in ast.walk(new):
                    if isinstance(ch, (ast.expr, ast.stmt)):
                        ast.copy_location(ch, node)
                count += 1
                repo.inlined_oneliners.append(f"{self.m.relpath}:{node.lineno} {h.name}")
                repo.inlined_oneliner_keys.add(h.key)
                return new

        for m in self.modules.values():
            Inl(m).visit(m.tree)
            ast.fix_missing_locations(m.tree)
        return count

    # ------------------------------------------------------------------ indexing
    def _index(self, m: Module) -> None:
        for node in ast.walk(m.tree):
            # imports anywhere (also function-local ones) are recorded at module level; names rarely clash
            if isinstance(node, ast.Import):
                for a in node.names:
                    m.imports[a.asname or a.name.split(".")[0]] = a.name if a.asname else a.name.split(".")[0]
            elif isinstance(node, ast.ImportFrom):
                base = node.module or ""
                if node.level:
                    pkg = m.dotted.split(".")
                    # a module's package is its dotted path minus the last component (unless __init__)
                    if not m.relpath.endswith("__init__.py"):
                        pkg = pkg[:-1]
                    pkg = pkg[: len(pkg) - (node.level - 1)]
                    base = ".".join([*pkg, base] if base else pkg)
                for a in node.names:
                    m.imports[a.asname or a.name] = f"{base}.{a.name}"
        for node in m.tree.body:
            if isinstance(node, ast.ClassDef):
                c = Cls(node.name, node, m)
                for item in node.body:
                    if isinstance(item, ast.FunctionDef):
                        c.methods[item.name] = Func(item.name, f"{node.name}.{item.name}", item, m, c)
                    elif isinstance(item, ast.Assign) and len(item.targets) == 1 and isinstance(item.targets[0], ast.Name):
                        c.consts[item.targets[0].id] = item.value
                    elif isinstance(item, ast.AnnAssign) and isinstance(item.target, ast.Name):
                        c.annotations[item.target.id] = item.annotation
                        if item.value is not None:
                            c.consts[item.target.id] = item.value
                m.classes[node.name] = c
            elif isinstance(node, ast.FunctionDef):
                m.funcs[node.name] = Func(node.name, node.name, node, m)
            elif isinstance(node, ast.Assign) and len(node.targets) == 1 and isinstance(node.targets[0], ast.Name):
                m.consts[node.targets[0].id] = node.value
            elif isinstance(node, ast.AnnAssign) and isinstance(node.target, ast.Name) and node.value is not None:
                m.consts[node.target.id] = node.value

    # ------------------------------------------------------------------ lookup (anchors)
    def module(self, relpath: str) -> Module:
        m = self.modules.get(relpath)
        if m is None:
            raise AnchorMissing(f"module {relpath} not found")
        return m

    def has_module(self, relpath: str) -> bool:
        return relpath in self.modules

    def func(self, relpath: str, qualname: str) -> Func:
        m = self.module(relpath)
        parts = qualname.split(".")
        if len(parts) == 1:
            f = m.funcs.get(parts[0])
            if f is None:
                raise AnchorMissing(f"function {qualname} not found in {relpath}")
            return f
        c = m.classes.get(parts[0])
        if c is None:
            raise AnchorMissing(f"class {parts[0]} not found in {relpath}")
        f = c.methods.get(parts[1])
        if f is None:
            raise AnchorMissing(f"method {qualname} not found in {relpath}")
        for extra in parts[2:]:
            f = f.nested(extra)
        return f

    def try_func(self, relpath: str, qualname: str) -> Func | None:
        try:
            return self.func(relpath, qualname)
        except AnchorMissing:
            return None

    def cls(self, relpath: str, name: str) -> Cls:
        c = self.module(relpath).classes.get(name)
        if c is None:
            raise AnchorMissing(f"class {name} not found in {relpath}")
        return c

    def all_classes(self) -> list[Cls]:
        return [c for m in self.modules.values() for c in m.classes.values()]

    def all_funcs(self) -> list[Func]:
        out: list[Func] = []
        for m in self.modules.values():
            out.extend(m.funcs.values())
            for c in m.classes.values():
                out.extend(c.methods.values())
        return out

    # ------------------------------------------------------------------ name resolution
    def qualify(self, m: Module, expr: ast.expr) -> str | None:
        """Dotted name an expression (Name / Attribute chain) refers to through the import table, or None."""
        parts: list[str] = []
        node = expr
        while isinstance(node, ast.Attribute):
            parts.append(node.attr)
            node = node.value
        if not isinstance(node, ast.Name):
            return None
        parts.reverse()
        head = node.id
        if head in m.imports:
            return ".".join([m.imports[head], *parts])
        if head in m.classes or head in m.funcs or head in m.consts:
            return ".".join([m.dotted, head, *parts])
        return None

    def lookup_dotted(self, dotted: str, _depth: int = 0) -> Cls | Func | Module | None:
        """Resolve a dotted name to a repo object, following re-exports."""
        if dotted in self.by_dotted:
            return self.by_dotted[dotted]
        if "." not in dotted or _depth > 6:
            return None
        mod, _, name = dotted.rpartition(".")
        m = self.by_dotted.get(mod)
        if m is None:
            # maybe a class attribute like pkg.mod.Class.member
            return None
        if name in m.classes:
            return m.classes[name]
        if name in m.funcs:
            return m.funcs[name]
        if name in m.imports:  # re-export
            return self.lookup_dotted(m.imports[name], _depth + 1)
        return None

    def resolve_class(self, m: Module, expr: ast.expr) -> Cls | str | None:
        """A repo class, or the dotted name of an external class, or None if not a name."""
        if isinstance(expr, ast.Subscript):  # Generic[...] bases
            expr = expr.value
        q = self.qualify(m, expr)
        if q is None:
            return None
        obj = self.lookup_dotted(q)
        if isinstance(obj, Cls):
            return obj
        return q

    def bases(self, c: Cls) -> list[Cls | str]:
        out: list[Cls | str] = []
        for b in c.node.bases:
            r = self.resolve_class(c.module, b)
            if r is not None:
                out.append(r)
        return out

    def mro(self, c: Cls) -> list[Cls]:
        """C3 linearisation restricted to repo classes (external bases are opaque leaves)."""

        def lin(k: Cls, seen: tuple[str, ...]) -> list[Cls]:
            if k.dotted in seen:
                raise AnalysisError(f"cyclic class hierarchy at {k.dotted}")
            parents = [b for b in self.bases(k) if isinstance(b, Cls)]
            seqs = [lin(p, (*seen, k.dotted)) for p in parents] + [list(parents)]
            res = [k]
            while any(seqs):
                for s in seqs:
                    if not s:
                        continue
                    cand = s[0]
                    if not any(cand in t[1:] for t in seqs):
                        break
                else:
                    raise AnalysisError(f"inconsistent MRO for {k.dotted}")
                res.append(cand)
                seqs = [[x for x in s if x is not cand] for s in seqs]
            return res

        return lin(c, ())

    def external_bases(self, c: Cls) -> set[str]:
        out: set[str] = set()
        for k in self.mro(c):
            for b in self.bases(k):
                if isinstance(b, str):
                    out.add(b)
        return out

    def find_method(self, c: Cls, name: str) -> Func | None:
        for k in self.mro(c):
            if name in k.methods:
                return k.methods[name]
        return None

    def find_const(self, c: Cls, name: str) -> tuple[Cls, ast.expr] | None:
        for k in self.mro(c):
            if name in k.consts:
                return k, k.consts[name]
        return None

    def is_subclass(self, c: Cls, other: Cls | str) -> bool:
        if isinstance(other, Cls):
            return other in self.mro(c)
        return other in self.external_bases(c)

    def subclasses(self, base: Cls | str) -> list[Cls]:
        return [c for c in self.all_classes() if c is not base and self.is_subclass(c, base)]

    def is_abstract(self, c: Cls) -> bool:
        """A class is abstract if any method in its MRO carrying @abstractmethod is not overridden."""
        seen: set[str] = set()
        for k in self.mro(c):
            for name, f in k.methods.items():
                if name in seen:
                    continue
                seen.add(name)
                if any("abstractmethod" in d for d in f.decorators()):
                    return True
        return False

    # ------------------------------------------------------------------ misc
    def digest(self, relpaths: list[str] | None = None) -> str:
        h = hashlib.sha256()
        for rel in sorted(relpaths or self.modules):
            m = self.modules.get(rel)
            h.update(rel.encode())
            h.update((m.src if m else "<absent>").encode())
        return h.hexdigest()[:16]

"""E8 — verdict protocol, evidence files, known findings, instance floors."""

from __future__ import annotations

import json
import os
import time
from dataclasses import dataclass, field
from pathlib import Path

from .errors import AnalysisError

VERIF = Path(__file__).resolve().parent.parent


@dataclass
class Instance:
    rule: str
    key: str  # module:qualname:label  (never a line number)
    ok: bool
    where: str  # file:line for the reader
    detail: str
    facts: list[str] = field(default_factory=list)
    nontrivial: bool = True


class Check:
    """Collects rule instances for one property and turns them into exit code + evidence."""

    def __init__(self, prop: str, tier: str, repo_root: str, seed: int = 0):
        self.prop = prop
        self.tier = tier
        self.repo_root = repo_root
        self.seed = seed
        self.t0 = time.time()
        self.instances: list[Instance] = []
        self.floors: dict[str, int] = {}
        self.functions: set[str] = set()
        self.observations: list[str] = []
        self.undecided: list[str] = []
        self.assumptions: list[str] = []
        self.controls: list[dict] = []
        self.selftest: list[dict] = []
        self.explanation = ""
        self.rule_text: dict[str, str] = {}
        kf = VERIF / "known_findings.json"
        self.known = json.loads(kf.read_text()) if kf.exists() else {"findings": [], "fixed": []}

    # ------------------------------------------------------------------ recording
    def rule(self, rule: str, text: str, floor: int = 1) -> None:
        self.rule_text[rule] = text
        self.floors[rule] = floor

    def analysed(self, *keys: str) -> None:
        self.functions.update(keys)

    def ok(self, rule: str, key: str, where: str, detail: str, facts: list[str] | None = None, nontrivial: bool = True) -> None:
        self.instances.append(Instance(rule, key, True, where, detail, facts or [], nontrivial))

    def bad(self, rule: str, key: str, where: str, detail: str, facts: list[str] | None = None) -> None:
        self.instances.append(Instance(rule, key, False, where, detail, facts or [], True))

    def result(self, cond: bool, rule: str, key: str, where: str, ok_detail: str, bad_detail: str | None = None,
               facts: list[str] | None = None) -> bool:
        if cond:
            self.ok(rule, key, where, ok_detail, facts)
        else:
            self.bad(rule, key, where, bad_detail or ("NOT: " + ok_detail), facts)
        return cond

    def observe(self, note: str) -> None:
        self.observations.append(note)

    def control(self, rule: str, name: str, fired: bool, expected: bool) -> None:
        self.controls.append({"rule": rule, "control": name, "fired": fired, "expected": expected})
        if fired != expected:
            raise AnalysisError(
                f"positive/negative control {name} of rule {rule}: fired={fired}, expected={expected} "
                "(the checker itself is broken)"
            )

    # ------------------------------------------------------------------ verdict
    def unlisted(self) -> list[Instance]:
        """violations recorded so far that known_findings.json does not list"""
        listed = {(f["property"], f["rule"], f["key"]) for f in self.known.get("findings", [])}
        return [i for i in self.instances if not i.ok and (self.prop, i.rule, i.key) not in listed]

    def finish(self) -> int:
        # floors
        counts: dict[str, int] = {}
        for i in self.instances:
            counts[i.rule] = counts.get(i.rule, 0) + 1
        unlisted = self.unlisted()
        for rule, floor in self.floors.items():
            if counts.get(rule, 0) < floor:
                if unlisted:
                    # a reported violation is more specific than "the rule lost instances"
                    print(f"note: rule {rule} matched {counts.get(rule, 0)} instance(s), floor {floor}")
                    continue
                raise AnalysisError(
                    f"rule {rule} matched {counts.get(rule, 0)} instance(s), fewer than the floor {floor} confirmed by reading: "
                    "an anchor moved or the rule no longer recognises the code"
                )
        known_keys = {(f["property"], f["rule"], f["key"]): f for f in self.known.get("findings", [])}
        violations: list[Instance] = []
        known_hit: list[tuple[Instance, dict]] = []
        for i in self.instances:
            if i.ok:
                continue
            k = (self.prop, i.rule, i.key)
            if k in known_keys:
                known_hit.append((i, known_keys[k]))
            else:
                violations.append(i)
        for i, f in known_hit:
            print(f"KNOWN-FINDING: property={self.prop} {f.get('id', '')} {i.rule} {i.key} — {f.get('what', i.detail)}")
        # a listed finding that no longer fires is merely reported (it suppresses nothing)
        hit = {(self.prop, i.rule, i.key) for i, _ in known_hit}
        for k, f in known_keys.items():
            if k[0] == self.prop and k not in hit:
                print(f"note: listed finding {f.get('id', '')} ({k[1]} {k[2]}) does not fire on this tree")
        replay_dir = VERIF / "evidence" / "violations"
        if os.environ.get("VERIF_NO_EVIDENCE"):
            import tempfile

            replay_dir = Path(tempfile.gettempdir()) / "verif_violations"
        replay_paths: list[str] = []
        if violations:
            replay_dir.mkdir(parents=True, exist_ok=True)
        for n, i in enumerate(violations):
            p = replay_dir / f"{self.prop}-{n}.json"
            p.write_text(
                json.dumps(
                    {"property": self.prop, "rule": i.rule, "key": i.key, "where": i.where, "detail": i.detail,
                     "facts": i.facts, "rule_text": self.rule_text.get(i.rule, ""), "repo": self.repo_root},
                    indent=1,
                )
            )
            replay_paths.append(str(p))
            print(f"{i.where}: {i.rule} [{i.key}] {i.detail}")
            for ft in i.facts[:12]:
                print(f"      fact: {ft}")
            print(f"VIOLATION property={self.prop} replay={p}")
        if not os.environ.get("VERIF_NO_EVIDENCE"):
            self._write_evidence(len(violations), known_hit)
        n_ok = sum(1 for i in self.instances if i.ok)
        print(
            f"{self.prop} [{self.tier}] {len(self.instances)} rule instances over {len(self.functions)} functions: "
            f"{n_ok} hold, {len(known_hit)} known finding(s), {len(violations)} violation(s); "
            f"{time.time() - self.t0:.2f}s"
        )
        return 1 if violations else 0

    def _write_evidence(self, n_viol: int, known_hit: list[tuple[Instance, dict]]) -> None:
        by_rule: dict[str, int] = {}
        for i in self.instances:
            by_rule[i.rule] = by_rule.get(i.rule, 0) + 1
        distinct = {(i.rule, i.key) for i in self.instances if i.nontrivial}
        samples = []
        seen_rules: set[str] = set()
        for i in self.instances:
            if i.rule in seen_rules and i.ok:
                continue
            seen_rules.add(i.rule)
            samples.append({"rule": i.rule, "instance": i.key, "where": i.where, "holds": i.ok, "detail": i.detail,
                            "facts_used": i.facts[:8]})
        ev = {
            "property_id": self.prop,
            "tier": self.tier,
            "seed": self.seed,
            "level": "other",
            "coverage": {
                "explanation": self.explanation
                or "static rule instances decided from the source of the analysed tree; see rules",
                "evaluations": len(self.instances),
                "distinct_nontrivial": len(distinct),
                "rule": "one evaluation = one rule instance (a mutation site with its required guards, a pair of "
                "parallel sequences, a table entry, a dependency obligation) found in the current source; "
                "distinct = distinct (rule, construct) pairs; non-trivial = at least one guard / segment / "
                "dependency was actually compared",
                "samples": samples[:40],
                "exhaustive": True,
                "rules": self.rule_text,
                "instances_by_rule": by_rule,
                "floors": self.floors,
                "functions_analysed": sorted(self.functions),
                "known_findings_hit": [
                    {"id": f.get("id"), "rule": i.rule, "key": i.key, "where": i.where, "detail": i.detail}
                    for i, f in known_hit
                ],
                "observations": self.observations,
                "undecided_segments": self.undecided,
                "controls": self.controls,
                "selftest": self.selftest,
                "repo_root": self.repo_root,
            },
            "assumptions": self.assumptions
            or ["Python semantics of the analysed constructs as modelled by the walker (sa/flow.py)"],
            "wall_s": round(time.time() - self.t0, 3),
            "violations": n_viol,
        }
        out = VERIF / "evidence"
        out.mkdir(exist_ok=True)
        tmp = out / f".{self.prop}.json.tmp"
        tmp.write_text(json.dumps(ev, indent=1, default=str))
        os.replace(tmp, out / f"{self.prop}.json")

"""Command line: python -m sa.main <property id> [--tier quick|thorough] [--repo /repo] [--replay file]"""

from __future__ import annotations

import argparse
import importlib
import json
import os
import sys
import traceback

from .errors import AnalysisError
from .model import Repo
from .report import Check


def _pin_hash_seed() -> None:
    """set iteration order must not decide a verdict: every run uses the same string hashing (the analysis iterates sets of names in a few places)"""
    if os.environ.get("PYTHONHASHSEED") != "0":
        os.environ["PYTHONHASHSEED"] = "0"
        os.execv(sys.executable, [sys.executable, "-m", "sa.main", *sys.argv[1:]])


def main(argv: list[str] | None = None) -> int:
    ap = argparse.ArgumentParser()
    ap.add_argument("prop")
    ap.add_argument("--tier", default=os.environ.get("VERIF_TIER", "quick"), choices=["quick", "thorough"])
    ap.add_argument("--repo", default=os.environ.get("VERIF_REPO", "/repo"))
    ap.add_argument("--replay", default=None)
    ap.add_argument("--no-selftest", action="store_true")
    args = ap.parse_args(argv)
    prop = args.prop.upper()
    try:
        seed = int(os.environ.get("VERIF_SEED", "0"))
    except ValueError:
        seed = 0
    try:
        mod = importlib.import_module(f"rules.{prop.lower()}")
    except ModuleNotFoundError:
        print(f"ANALYSIS-ERROR property={prop} no rule module rules/{prop.lower()}.py")
        return 2
    try:
        repo = Repo(args.repo)
        chk = Check(prop, args.tier, args.repo, seed)
        mod.run(repo, chk)
        from rules.common import cache_audit

        cache_audit(repo, chk, prop)
        if args.tier == "thorough" and not args.no_selftest:
            # self-validation of the rules on mutated scratch copies (informational, never the verdict)
            from selftest import runner

            try:
                chk.selftest = runner.run(prop, args.repo)
            except Exception as e:  # noqa: BLE001
                chk.selftest = [{"name": "selftest-runner", "status": f"error: {type(e).__name__}: {e}"}]
            n = len(chk.selftest)
            good = sum(1 for r in chk.selftest if r.get("status") in ("caught", "silent"))
            print(f"selftest: {good}/{n} mutant/twin cases behave as expected")
            for r in chk.selftest:
                if r.get("status") not in ("caught", "silent"):
                    print(f"  selftest {r.get('kind')} {r.get('name')}: {r.get('status')}")
        if args.replay:
            want = json.load(open(args.replay))
            for i in chk.instances:
                if i.rule == want.get("rule") and i.key == want.get("key"):
                    print(f"replay: {i.where}: {i.rule} [{i.key}] holds={i.ok}: {i.detail}")
                    for f in i.facts:
                        print("      fact:", f)
        return chk.finish()
    except AnalysisError as e:
        print(f"ANALYSIS-ERROR property={prop} {e}")
        return 2
    except Exception:  # a crash of the checker is never a violation
        tb = traceback.format_exc()
        print(f"ANALYSIS-ERROR property={prop} internal error in checker:\n{tb}")
        return 2


if __name__ == "__main__":
    _pin_hash_seed()
    sys.exit(main())

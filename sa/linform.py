"""Linear forms with integer coefficients over named integer symbols with interval bounds.

The only questions ever asked are decided by inspection (interval arithmetic on the
coefficients): "is the minimum of this form >= 0?".  When that fails, `witnesses`
enumerates small valuations of the *base* symbols (derived symbols such as
floordiv(x, k) are computed from their argument) so that a report can name a concrete
configuration.  Nothing of the analysed repository is executed; the forms are the
checker's own abstraction of address expressions.
"""
from __future__ import annotations

import itertools
from dataclasses import dataclass, field


@dataclass
class Sym:
    name: str
    lb: int | None = 0
    ub: int | None = None
    # derived: ("floordiv", base symbol, k) or ("frac", base symbol, k) (= ceildiv - floordiv)
    derived: tuple | None = None
    why: str = ""


class SymTab:
    def __init__(self) -> None:
        self.syms: dict[str, Sym] = {}

    def get(self, name: str, lb: int = 0, ub: int | None = None, derived: tuple | None = None, why: str = "") -> "Form":
        if name not in self.syms:
            self.syms[name] = Sym(name, lb, ub, derived, why)
        return Form({name: 1}, 0)

    def raise_lb(self, name: str, lb: int, why: str) -> None:
        s = self.syms.setdefault(name, Sym(name))
        if s.lb is None or lb > s.lb:
            s.lb, s.why = lb, why

    def floordiv(self, base: str, k: int) -> "Form":
        return self.get(f"floordiv({base},{k})", derived=("floordiv", base, k))

    def ceildiv(self, base: str, k: int) -> "Form":
        return self.floordiv(base, k) + self.get(f"frac({base},{k})", 0, 1, derived=("frac", base, k))

    def base_symbols(self, names) -> list[str]:
        out: list[str] = []
        for n in names:
            s = self.syms[n]
            b = s.derived[1] if s.derived else n
            if b not in out:
                out.append(b)
        return out

    def valuation(self, base: dict[str, int]) -> dict[str, int]:
        val = {s.name: (s.lb or 0) for s in self.syms.values() if not s.derived}
        val.update(base)
        for s in self.syms.values():
            if s.derived:
                kind, b, k = s.derived
                x = base.get(b, self.syms[b].lb if b in self.syms else 0)
                if kind == "floordiv":
                    val[s.name] = x // k
                elif kind == "frac":
                    val[s.name] = -(-x // k) - x // k
                elif kind == "maxfloordiv":  # max(x // k0, c)
                    val[s.name] = max(x // k[0], k[1])
                elif kind == "maxbase":  # max(x, c)
                    val[s.name] = max(x, k)
                else:
                    raise ValueError(f"unknown derived symbol kind {kind}")
        return val

    def max_const(self, sym: str, c: int) -> "Form":
        """max(<symbol>, c) for a base symbol or a floordiv of one, as a derived symbol of the same base (evaluated exactly in valuations)"""
        s = self.syms[sym]
        if s.derived is None:
            return self.get(f"max({sym},{c})", lb=max(s.lb or 0, c), derived=("maxbase", sym, c))
        if s.derived[0] == "floordiv":
            return self.get(f"max({sym},{c})", lb=c, derived=("maxfloordiv", s.derived[1], (s.derived[2], c)))
        raise ValueError("max of this derived symbol is not modelled")


@dataclass(frozen=True)
class Form:
    coef: dict = field(default_factory=dict)
    const: int = 0

    @staticmethod
    def of(c: int) -> "Form":
        return Form({}, c)

    def __add__(self, o: "Form | int") -> "Form":
        if isinstance(o, int):
            return Form(dict(self.coef), self.const + o)
        c = dict(self.coef)
        for k, v in o.coef.items():
            c[k] = c.get(k, 0) + v
        return Form({k: v for k, v in c.items() if v}, self.const + o.const)

    def __neg__(self) -> "Form":
        return Form({k: -v for k, v in self.coef.items()}, -self.const)

    def __sub__(self, o: "Form | int") -> "Form":
        return self + (-o if isinstance(o, Form) else -o)

    def scale(self, k: int) -> "Form":
        return Form({s: v * k for s, v in self.coef.items() if v * k}, self.const * k)

    def is_const(self) -> bool:
        return not self.coef

    def single(self) -> str | None:
        """the symbol when the form is exactly 1*symbol"""
        if self.const == 0 and len(self.coef) == 1 and next(iter(self.coef.values())) == 1:
            return next(iter(self.coef))
        return None

    def minimum(self, tab: SymTab) -> int | None:
        """greatest lower bound over all admissible valuations by interval arithmetic; None = unbounded below"""
        m = self.const
        for s, c in self.coef.items():
            sym = tab.syms[s]
            if c > 0:
                if sym.lb is None:
                    return None
                m += c * sym.lb
            else:
                if sym.ub is None:
                    return None
                m += c * sym.ub
        return m

    def nonneg(self, tab: SymTab) -> bool:
        m = self.minimum(tab)
        return m is not None and m >= 0

    def eval(self, val: dict[str, int]) -> int:
        return self.const + sum(c * val[s] for s, c in self.coef.items())

    def subst(self, name: str, by: "Form") -> "Form":
        if name not in self.coef:
            return self
        c = self.coef[name]
        rest = Form({k: v for k, v in self.coef.items() if k != name}, self.const)
        return rest + by.scale(c)

    def show(self) -> str:
        parts = []
        for s, c in sorted(self.coef.items()):
            parts.append(("" if c == 1 else "-" if c == -1 else f"{c}*") + s)
        if self.const or not parts:
            parts.append(hex(self.const) if abs(self.const) >= 256 else str(self.const))
        return " + ".join(parts).replace("+ -", "- ")


def witnesses(tab: SymTab, names, span=(0, 1, 2, 3, 4, 5, 6, 7, 8, 9, 12, 16), limit: int = 20000):
    """valuations (symbol -> int, derived symbols included) over small values of the base symbols"""
    base = tab.base_symbols(names)
    doms = []
    for b in base:
        s = tab.syms[b]
        if s.lb is None:
            return
        doms.append([s.lb + d for d in span if s.ub is None or s.lb + d <= s.ub])
    n = 0
    for combo in itertools.product(*doms):
        n += 1
        if n > limit:
            return
        yield tab.valuation(dict(zip(base, combo)))

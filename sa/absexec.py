"""Bounded abstract evaluation of *builder code* over opaque tokens.

Some clauses are about how a pass threads values through lists and freshly built IR ("the k-th loop
gets the k-th stride's bound and steps").  They are decided by evaluating the builder's statements in
an abstract domain: program values the analysis knows nothing about are opaque tokens (`Tok`) that
only record how they were derived; lists, tuples, ints and strings that the builder itself creates are
concrete; IR constructors are replaced by small models supplied by the rule (`Obj`).  Nothing of the
analysed repository or of xDSL is imported or executed: the evaluator walks the syntax tree.  A
condition whose value depends on a token is not guessed: evaluation stops with `Undecided` and the
rule reports the construct as not analysable (analysis error), never as holding.

The evaluation is bounded by the list lengths the rule seeds (stated in the evidence).
"""
from __future__ import annotations

import ast
from dataclasses import dataclass, field
from typing import Any, Callable

from .errors import AnalysisError


class Undecided(AnalysisError):
    pass


class Tok:
    """an opaque value; remembers its derivation as text"""

    def __init__(self, text: str):
        self.text = text

    def __repr__(self) -> str:
        return f"<{self.text}>"


@dataclass
class Obj:
    cls: str
    f: dict = field(default_factory=dict)

    def __repr__(self) -> str:
        return f"{self.cls}({', '.join(f'{k}={v!r}' for k, v in list(self.f.items())[:4])})"

    def __hash__(self) -> int:
        return id(self)

    def __eq__(self, other) -> bool:
        return self is other


class AbsRaise(Exception):
    """the evaluated code raises: this path produces no result"""


class _Return(Exception):
    def __init__(self, v):
        self.v = v


class _Break(Exception):
    pass


class _Continue(Exception):
    pass


@dataclass
class Closure:
    node: ast.FunctionDef | ast.Lambda
    env: dict


class AbsExec:
    def __init__(self, models: dict[str, Callable[..., Any]] | None = None, methods: dict[tuple[str, str], Callable[..., Any]] | None = None,
                 attrs: dict[tuple[str, str], Callable[[Obj], Any]] | None = None, where: str = "", max_steps: int = 20000,
                 repo=None, classes: dict[str, Any] | None = None, num_hook: Callable[[ast.operator, Any, Any], Any] | None = None):
        self.repo = repo
        self.classes = classes or {}  # class name -> sa.model.Cls: instances are Obj(cls name) whose methods are evaluated from the repo source
        self.num_hook = num_hook
        self.yields: list[list] = []
        self.models = models or {}
        self.methods = methods or {}
        self.attrs = attrs or {}
        self.where = where
        self.steps = 0
        self.max_steps = max_steps
        self.calls: list[tuple[str, list, dict]] = []  # calls on tokens (e.g. rewriter.replace_op), in order

    # ------------------------------------------------------------------ statements
    def run(self, stmts: list[ast.stmt], env: dict) -> Any:
        try:
            self.block(stmts, env)
        except _Return as r:
            return r.v
        return None

    def block(self, stmts: list[ast.stmt], env: dict) -> None:
        for st in stmts:
            self.stmt(st, env)

    def _tick(self, node: ast.AST) -> None:
        self.steps += 1
        if self.steps > self.max_steps:
            raise Undecided(f"{self.where}:{getattr(node, 'lineno', 0)}: abstract evaluation exceeds {self.max_steps} steps")

    def stmt(self, st: ast.stmt, env: dict) -> None:
        self._tick(st)
        if isinstance(st, ast.Expr):
            if isinstance(st.value, ast.Constant):
                return
            self.eval(st.value, env)
        elif isinstance(st, ast.Assign):
            v = self.eval(st.value, env)
            for t in st.targets:
                self.assign(t, v, env)
        elif isinstance(st, ast.AnnAssign):
            if st.value is not None:
                self.assign(st.target, self.eval(st.value, env), env)
        elif isinstance(st, ast.AugAssign):
            cur = self.eval(_load(st.target), env)
            self.assign(st.target, self.binop(st.op, cur, self.eval(st.value, env), st), env)
        elif isinstance(st, ast.If):
            c = self.truth(self.eval(st.test, env), st.test)
            self.block(st.body if c else st.orelse, env)
        elif isinstance(st, ast.For):
            it = self.iterate(self.eval(st.iter, env), st.iter)
            broke = False
            for x in it:
                self.assign(st.target, x, env)
                try:
                    self.block(st.body, env)
                except _Break:
                    broke = True
                    break
                except _Continue:
                    continue
            if not broke:
                self.block(st.orelse, env)
        elif isinstance(st, ast.While):
            n = 0
            while self.truth(self.eval(st.test, env), st.test):
                n += 1
                if n > 64:
                    raise Undecided(f"{self.where}:{st.lineno}: while loop does not terminate in the abstract domain")
                try:
                    self.block(st.body, env)
                except _Break:
                    break
                except _Continue:
                    continue
        elif isinstance(st, ast.Return):
            raise _Return(self.eval(st.value, env) if st.value is not None else None)
        elif isinstance(st, ast.Assert):
            v = self.eval(st.test, env)
            if not isinstance(v, Tok) and not _is_unknown(v) and not v:
                raise Undecided(f"{self.where}:{st.lineno}: assertion is false in the abstract domain: {ast.unparse(st.test)[:80]}")
        elif isinstance(st, ast.Pass):
            return
        elif isinstance(st, ast.Raise):
            raise AbsRaise(ast.unparse(st)[:100])
        elif isinstance(st, ast.Break):
            raise _Break()
        elif isinstance(st, ast.Continue):
            raise _Continue()
        elif isinstance(st, ast.FunctionDef):
            env[st.name] = Closure(st, env)
        elif isinstance(st, ast.ClassDef):
            fields = [s.target.id for s in st.body if isinstance(s, ast.AnnAssign) and isinstance(s.target, ast.Name)]
            env[st.name] = ("record", st.name, fields)
        elif isinstance(st, (ast.Import, ast.ImportFrom, ast.Global, ast.Nonlocal)):
            return
        else:
            raise Undecided(f"{self.where}:{st.lineno}: statement kind {type(st).__name__} not modelled")

    def assign(self, t: ast.expr, v: Any, env: dict) -> None:
        if isinstance(t, ast.Name):
            env[t.id] = v
        elif isinstance(t, (ast.Tuple, ast.List)):
            vals = list(self.iterate(v, t))
            stars = [i for i, x in enumerate(t.elts) if isinstance(x, ast.Starred)]
            if len(stars) == 1 and len(vals) >= len(t.elts) - 1:
                # `*head, last = seq` / `first, *rest = seq`
                i = stars[0]
                after = len(t.elts) - i - 1
                for x, val in zip(t.elts[:i], vals[:i]):
                    self.assign(x, val, env)
                self.assign(t.elts[i].value, list(vals[i:len(vals) - after]), env)  # type: ignore[attr-defined]
                for x, val in zip(t.elts[i + 1:], vals[len(vals) - after:]):
                    self.assign(x, val, env)
                return
            if len(vals) != len(t.elts):
                raise Undecided(f"{self.where}:{t.lineno}: cannot unpack {len(vals)} values into {len(t.elts)} targets")
            for x, y in zip(t.elts, vals):
                self.assign(x, y, env)
        elif isinstance(t, ast.Subscript):
            base = self.eval(t.value, env)
            idx = self.eval(t.slice, env)
            if isinstance(base, (list, dict)) and not isinstance(idx, Tok):
                base[idx] = v
            elif isinstance(base, Tok):
                self.calls.append((f"{base.text}.__setitem__", [idx, v], {}))
            else:
                raise Undecided(f"{self.where}:{t.lineno}: store into {type(base).__name__}[{idx!r}]")
        elif isinstance(t, ast.Attribute):
            base = self.eval(t.value, env)
            if isinstance(base, Obj):
                base.f[t.attr] = v
            elif isinstance(base, Tok):
                self.calls.append((f"{base.text}.__setattr__", [t.attr, v], {}))
            else:
                raise Undecided(f"{self.where}:{t.lineno}: attribute store on {type(base).__name__}")
        elif isinstance(t, ast.Starred):
            raise Undecided(f"{self.where}:{t.lineno}: starred assignment target")
        else:
            raise Undecided(f"{self.where}:{getattr(t, 'lineno', 0)}: assignment target {type(t).__name__}")

    # ------------------------------------------------------------------ helpers
    def truth(self, v: Any, node: ast.AST) -> bool:
        if isinstance(v, Tok) or _is_unknown(v):
            raise Undecided(f"{self.where}:{getattr(node, 'lineno', 0)}: branch depends on an opaque value: {ast.unparse(node)[:80]}")
        if isinstance(v, Obj):
            return True
        return bool(v)

    def iterate(self, v: Any, node: ast.AST):
        if isinstance(v, (list, tuple, range, str, dict, set)):
            return list(v)
        if isinstance(v, _Enum):
            return list(v.items)
        if isinstance(v, Obj):
            m = self._repo_method(v.cls, "__iter__")
            if m is not None:
                return list(self.iterate(self.apply(("repo", v, m), [], {}, node), node))
            if (v.cls, "__iter__") in self.methods:
                return list(self.methods[(v.cls, "__iter__")](v))
        raise Undecided(f"{self.where}:{getattr(node, 'lineno', 0)}: iteration over an opaque value: {ast.unparse(node)[:80]}")

    def binop(self, op: ast.operator, a: Any, b: Any, node: ast.AST) -> Any:
        if self.num_hook is not None:
            r = self.num_hook(op, a, b)
            if r is not NotImplemented:
                return r
        if isinstance(a, Tok) or isinstance(b, Tok) or isinstance(a, Obj) or isinstance(b, Obj):
            sym = {ast.Add: "+", ast.Sub: "-", ast.Mult: "*", ast.FloorDiv: "//", ast.Mod: "%", ast.Div: "/", ast.LShift: "<<", ast.BitOr: "|", ast.BitAnd: "&"}.get(type(op), "?")
            return Tok(f"({_show(a)} {sym} {_show(b)})")
        try:
            if isinstance(op, ast.Add):
                return a + b
            if isinstance(op, ast.Sub):
                return a - b
            if isinstance(op, ast.Mult):
                return a * b
            if isinstance(op, ast.FloorDiv):
                return a // b
            if isinstance(op, ast.Mod):
                return a % b
            if isinstance(op, ast.Div):
                return a / b
            if isinstance(op, ast.LShift):
                return a << b
            if isinstance(op, ast.RShift):
                return a >> b
            if isinstance(op, ast.BitOr):
                return a | b
            if isinstance(op, ast.BitAnd):
                return a & b
            if isinstance(op, ast.BitXor):
                return a ^ b
        except Exception as ex:  # noqa: BLE001
            raise Undecided(f"{self.where}:{getattr(node, 'lineno', 0)}: {type(ex).__name__} in {ast.unparse(node)[:60]}") from None
        raise Undecided(f"{self.where}:{getattr(node, 'lineno', 0)}: operator {type(op).__name__} not modelled")

    # ------------------------------------------------------------------ expressions
    def eval(self, e: ast.expr, env: dict) -> Any:
        self._tick(e)
        if isinstance(e, ast.Constant):
            return e.value
        if isinstance(e, ast.Name):
            if e.id in env:
                return env[e.id]
            if e.id in ("True", "False", "None"):
                return {"True": True, "False": False, "None": None}[e.id]
            # a plain function of the analysed module (a helper the code was factored into) is evaluated from its source
            if self.repo is not None and self.where and e.id not in self.models:
                try:
                    m_ = self.repo.module(self.where)
                except Exception:  # noqa: BLE001
                    m_ = None
                h_ = m_.funcs.get(e.id) if m_ is not None else None
                if h_ is not None and getattr(h_, "cls", None) is None and isinstance(h_.node, ast.FunctionDef) and not h_.node.decorator_list:
                    return Closure(h_.node, {})
            return Tok(e.id)
        if isinstance(e, ast.Attribute):
            base = self.eval(e.value, env)
            return self.getattr(base, e.attr, e)
        if isinstance(e, ast.Subscript):
            base = self.eval(e.value, env)
            if isinstance(e.slice, ast.Slice):
                lo = self.eval(e.slice.lower, env) if e.slice.lower is not None else None
                hi = self.eval(e.slice.upper, env) if e.slice.upper is not None else None
                stp = self.eval(e.slice.step, env) if e.slice.step is not None else None
                if isinstance(base, (list, tuple, str)) and not any(isinstance(x, Tok) for x in (lo, hi, stp)):
                    return base[lo:hi:stp]
                return Tok(f"{_show(base)}[{_show(lo)}:{_show(hi)}]")
            idx = self.eval(e.slice, env)
            if isinstance(base, (list, tuple, str, dict)) and not isinstance(idx, (Tok, Obj)):
                try:
                    return base[idx]
                except (IndexError, KeyError):
                    raise Undecided(f"{self.where}:{e.lineno}: index {idx!r} out of range in {ast.unparse(e)[:60]} (length {len(base)})") from None
            if isinstance(base, dict) and isinstance(idx, Obj) and idx in base:
                return base[idx]
            return Tok(f"{_show(base)}[{_show(idx)}]")
        if isinstance(e, (ast.List, ast.Tuple)):
            out: list = []
            for x in e.elts:
                if isinstance(x, ast.Starred):
                    out.extend(self.iterate(self.eval(x.value, env), x))
                else:
                    out.append(self.eval(x, env))
            return out if isinstance(e, ast.List) else tuple(out)
        if isinstance(e, ast.Dict):
            d: dict = {}
            for k, v in zip(e.keys, e.values):
                if k is None:
                    d.update(self.eval(v, env))
                else:
                    d[self.eval(k, env)] = self.eval(v, env)
            return d
        if isinstance(e, ast.BinOp):
            return self.binop(e.op, self.eval(e.left, env), self.eval(e.right, env), e)
        if isinstance(e, ast.UnaryOp):
            v = self.eval(e.operand, env)
            if isinstance(e.op, ast.Not):
                if _is_unknown(v):
                    return v  # the negation of an undetermined truth value is undetermined (asserts tolerate it, branches do not)
                return not self.truth(v, e)
            if isinstance(v, Tok):
                return Tok(f"(-{v.text})")
            return -v if isinstance(e.op, ast.USub) else v
        if isinstance(e, ast.BoolOp):
            res: Any = None
            for x in e.values:
                res = self.eval(x, env)
                t = self.truth(res, x)
                if isinstance(e.op, ast.And) and not t:
                    return res
                if isinstance(e.op, ast.Or) and t:
                    return res
            return res
        if isinstance(e, ast.Compare):
            left = self.eval(e.left, env)
            for op, c in zip(e.ops, e.comparators):
                right = self.eval(c, env)
                r = self.compare(op, left, right, e)
                if _is_unknown(r):
                    return r
                if not r:
                    return False
                left = right
            return True
        if isinstance(e, ast.IfExp):
            return self.eval(e.body if self.truth(self.eval(e.test, env), e.test) else e.orelse, env)
        if isinstance(e, (ast.ListComp, ast.GeneratorExp, ast.SetComp)):
            return self.comp(e, env)
        if isinstance(e, ast.NamedExpr):
            v = self.eval(e.value, env)
            self.assign(e.target, v, env)
            return v
        if isinstance(e, ast.Call):
            return self.call(e, env)
        if isinstance(e, ast.Lambda):
            return Closure(e, env)
        if isinstance(e, ast.Yield):
            if not self.yields:
                raise Undecided(f"{self.where}:{e.lineno}: yield outside a generator frame")
            self.yields[-1].append(self.eval(e.value, env) if e.value is not None else None)
            return None
        if isinstance(e, ast.JoinedStr):
            return Tok(ast.unparse(e))
        if isinstance(e, ast.Starred):
            raise Undecided(f"{self.where}:{e.lineno}: starred expression outside a call or display")
        raise Undecided(f"{self.where}:{getattr(e, 'lineno', 0)}: expression kind {type(e).__name__} not modelled")

    def compare(self, op: ast.cmpop, a: Any, b: Any, node: ast.AST) -> Any:
        if isinstance(op, (ast.Is, ast.IsNot)):
            if isinstance(a, Tok) or isinstance(b, Tok):
                if (a is None or b is None):
                    return _UNKNOWN
                r = a is b
            else:
                r = a is b
            return r if isinstance(op, ast.Is) else not r
        if isinstance(a, Tok) or isinstance(b, Tok):
            if isinstance(op, (ast.Eq, ast.NotEq)) and isinstance(a, Tok) and isinstance(b, Tok) and a is b:
                return isinstance(op, ast.Eq)
            return _UNKNOWN
        if isinstance(op, ast.Eq):
            return a == b
        if isinstance(op, ast.NotEq):
            return a != b
        if isinstance(op, ast.In):
            return a in b
        if isinstance(op, ast.NotIn):
            return a not in b
        try:
            if isinstance(op, ast.Lt):
                return a < b
            if isinstance(op, ast.LtE):
                return a <= b
            if isinstance(op, ast.Gt):
                return a > b
            if isinstance(op, ast.GtE):
                return a >= b
        except TypeError:
            return _UNKNOWN
        raise Undecided(f"{self.where}:{getattr(node, 'lineno', 0)}: comparison {type(op).__name__} not modelled")

    def comp(self, e, env: dict) -> Any:
        out: list = []

        def rec(gi: int, sub: dict) -> None:
            if gi == len(e.generators):
                out.append(self.eval(e.elt, sub))
                return
            g = e.generators[gi]
            for x in self.iterate(self.eval(g.iter, sub), g.iter):
                s2 = dict(sub)
                self.assign(g.target, x, s2)
                if all(self.truth(self.eval(c, s2), c) for c in g.ifs):
                    rec(gi + 1, s2)

        rec(0, dict(env))
        return out

    def getattr(self, base: Any, attr: str, node: ast.AST) -> Any:
        if isinstance(base, Obj):
            if (base.cls, attr) in self.attrs:
                return self.attrs[(base.cls, attr)](base)
            if attr in base.f:
                return base.f[attr]
            if (base.cls, attr) in self.methods:
                return ("bound", base, attr)
            m = self._repo_method(base.cls, attr)
            if m is not None:
                if any("property" in d for d in m.decorators()):
                    return self.apply(("repo", base, m), [], {}, node)
                return ("repo", base, m)
            raise Undecided(f"{self.where}:{getattr(node, 'lineno', 0)}: attribute .{attr} of modelled {base.cls} is not modelled")
        if isinstance(base, Tok):
            return Tok(f"{base.text}.{attr}")
        if isinstance(base, list) and attr in ("append", "extend", "pop", "insert", "index", "reverse", "copy", "sort", "remove", "clear"):
            return ("list", base, attr)
        if isinstance(base, dict) and attr in ("keys", "values", "items", "get", "update", "pop", "setdefault"):
            return ("dict", base, attr)
        if isinstance(base, tuple) and len(base) == 3 and base[0] == "record":
            return Tok(f"{base[1]}.{attr}")
        raise Undecided(f"{self.where}:{getattr(node, 'lineno', 0)}: attribute .{attr} of {type(base).__name__}")

    def _repo_method(self, cls_name: str, attr: str):
        c = self.classes.get(cls_name)
        if c is None or self.repo is None:
            return None
        return self.repo.find_method(c, attr)

    def new(self, cls_name: str, **fields) -> Obj:
        return Obj(cls_name, dict(fields))

    def call(self, e: ast.Call, env: dict) -> Any:
        # itertools.accumulate(seq[, operator.mul | operator.add][, initial=v]) over concrete integers
        if ast.unparse(e.func).split(".")[-1] == "accumulate" and e.args and ast.unparse(e.func).split(".")[-1] not in env:
            seq = list(self.iterate(self.eval(e.args[0], env), e))
            fn = e.args[1] if len(e.args) > 1 else next((k.value for k in e.keywords if k.arg == "func"), None)
            fname = ast.unparse(fn).split(".")[-1] if fn is not None else "add"
            init = next((self.eval(k.value, env) for k in e.keywords if k.arg == "initial"), None)
            if fname in ("mul", "add") and not any(isinstance(x, (Tok, Obj)) for x in [*seq, init]):
                out_: list = [] if init is None else [init]
                for x in seq:
                    out_.append(x if not out_ else self.binop(ast.Mult() if fname == "mul" else ast.Add(), out_[-1], x, e))
                return out_
            raise Undecided(f"{self.where}:{e.lineno}: accumulate over {fname} / opaque values")
        args: list = []
        for a in e.args:
            if isinstance(a, ast.Starred):
                args.extend(self.iterate(self.eval(a.value, env), a))
            else:
                args.append(self.eval(a, env))
        kwargs = {k.arg: self.eval(k.value, env) for k in e.keywords if k.arg}
        fn_text = ast.unparse(e.func)
        last = fn_text.split(".")[-1]
        # builtins
        if isinstance(e.func, ast.Name) and e.func.id not in env:
            b = e.func.id
            if b == "len" and isinstance(args[0], (list, tuple, dict, str, range)):
                return len(args[0])
            if b == "range" and all(isinstance(a, int) for a in args):
                return range(*args)
            if b == "enumerate":
                return [(i + (args[1] if len(args) > 1 else kwargs.get("start", 0)), x) for i, x in enumerate(self.iterate(args[0], e))]
            if b == "zip":
                return [tuple(t) for t in zip(*[self.iterate(a, e) for a in args])]
            if b == "reversed":
                return list(reversed(self.iterate(args[0], e)))
            if b in ("list", "tuple"):
                vals = self.iterate(args[0], e) if args else []
                return list(vals) if b == "list" else tuple(vals)
            if b == "dict" and not args:
                return dict(kwargs)
            if b == "isinstance":
                return self.isinstance(args[0], e.args[1], e)
            if b == "sorted":
                seq = self.iterate(args[0], e)
                key = kwargs.get("key")
                keyed = [(self.apply(key, [x], {}, e) if key is not None else x, i, x) for i, x in enumerate(seq)]
                if any(isinstance(k, (Tok, Obj)) for k, _, _ in keyed):
                    raise Undecided(f"{self.where}:{e.lineno}: sort key is opaque")
                keyed.sort(key=lambda t: (t[0], t[1]), reverse=False)
                res = [x for _, _, x in keyed]
                if kwargs.get("reverse"):
                    # Python's reverse sort keeps the original order of equal elements
                    keyed2 = sorted(((k, -i, x) for k, i, x in keyed), key=lambda t: (t[0], t[1]), reverse=True)
                    res = [x for _, _, x in keyed2]
                return res
            if b in ("min", "max", "sum", "abs", "int", "bool", "str") and not any(isinstance(a, (Tok, Obj)) for a in args):
                try:
                    return {"min": min, "max": max, "sum": sum, "abs": abs, "int": int, "bool": bool, "str": str}[b](*args)
                except Exception:  # noqa: BLE001
                    raise Undecided(f"{self.where}:{e.lineno}: builtin {b} failed in the abstract domain") from None
            if b == "cast" and len(args) == 2:
                return args[1]
            if b in ("any", "all") and len(args) == 1:
                vals = [self.truth(x, e) for x in self.iterate(args[0], e)]
                return any(vals) if b == "any" else all(vals)
            if b == "type" and len(args) == 1 and isinstance(args[0], Obj) and args[0].cls in self.classes:
                return ("ctor", args[0].cls)
            if b == "next" and args and isinstance(args[0], list):
                if args[0]:
                    return args[0].pop(0)
                if len(args) > 1:
                    return args[1]
                raise AbsRaise("StopIteration")
            if b == "iter" and len(args) == 1:
                return list(self.iterate(args[0], e))
            if b in ("isa",):
                return _UNKNOWN
        # instances of repo classes evaluated from source
        if last in self.classes and last not in self.models:
            c = self.classes[last]
            init = self.repo.find_method(c, "__init__") if self.repo is not None else None
            obj = Obj(last, {})
            if init is not None:
                self.apply(("repo", obj, init), args, kwargs, e)
            else:
                fields = [n for k in reversed(self.repo.mro(c)) for n in k.annotations] if self.repo is not None else []
                for n, v in zip(fields, args):
                    obj.f[n] = v
                obj.f.update(kwargs)
                for k in self.repo.mro(c) if self.repo is not None else []:
                    for n, dv in k.consts.items():
                        if n in fields and n not in obj.f:
                            obj.f[n] = self.eval(dv, {})
            return obj
        # models by constructor / function name
        if last in self.models and not (isinstance(e.func, ast.Name) and isinstance(env.get(e.func.id), Closure)):
            return self.models[last](*args, **kwargs)
        f = self.eval(e.func, env)
        return self.apply(f, args, kwargs, e)

    def apply(self, f: Any, args: list, kwargs: dict, node: ast.AST) -> Any:
        if isinstance(f, Closure):
            sub = dict(f.env)
            a = f.node.args
            names = [x.arg for x in [*a.posonlyargs, *a.args]]
            for i, n in enumerate(names):
                if i < len(args):
                    sub[n] = args[i]
                elif n in kwargs:
                    sub[n] = kwargs[n]
                else:
                    di = i - (len(names) - len(a.defaults))
                    if di < 0:
                        raise Undecided(f"{self.where}:{getattr(node, 'lineno', 0)}: unbound parameter {n}")
                    sub[n] = self.eval(a.defaults[di], f.env)
            if isinstance(f.node, ast.Lambda):
                return self.eval(f.node.body, sub)
            return self.run(f.node.body, sub)
        if isinstance(f, tuple) and f and f[0] == "list":
            _, lst, m = f
            if m == "append":
                lst.append(args[0])
                return None
            if m == "extend":
                lst.extend(self.iterate(args[0], node))
                return None
            if m == "pop":
                try:
                    return lst.pop(*args)
                except IndexError:
                    raise Undecided(f"{self.where}:{getattr(node, 'lineno', 0)}: pop from an empty list") from None
            if m == "insert":
                lst.insert(args[0], args[1])
                return None
            if m == "index":
                return lst.index(args[0])
            if m == "reverse":
                lst.reverse()
                return None
            if m == "copy":
                return list(lst)
            if m == "remove":
                lst.remove(args[0])
                return None
            if m == "clear":
                lst.clear()
                return None
            raise Undecided(f"{self.where}:{getattr(node, 'lineno', 0)}: list.{m} not modelled")
        if isinstance(f, tuple) and f and f[0] == "dict":
            _, d, m = f
            if m == "keys":
                return list(d.keys())
            if m == "values":
                return list(d.values())
            if m == "items":
                return [tuple(kv) for kv in d.items()]
            if m == "get":
                return d.get(args[0], args[1] if len(args) > 1 else None)
            if m == "update":
                d.update(args[0])
                return None
            if m == "pop":
                return d.pop(*args)
            if m == "setdefault":
                return d.setdefault(*args)
        if isinstance(f, tuple) and f and f[0] == "repo":
            _, obj, m = f
            a = m.node.args
            names = [x.arg for x in [*a.posonlyargs, *a.args]]
            static = any("staticmethod" in d for d in m.decorators())
            sub: dict = {}
            vals = list(args) if static else [obj, *args]
            for i, n in enumerate(names):
                if i < len(vals):
                    sub[n] = vals[i]
                elif n in kwargs:
                    sub[n] = kwargs[n]
                else:
                    di = i - (len(names) - len(a.defaults))
                    if di < 0:
                        raise Undecided(f"{self.where}:{getattr(node, 'lineno', 0)}: unbound parameter {n} of {m.qualname}")
                    sub[n] = self.eval(a.defaults[di], {})
            is_gen = any(isinstance(n, (ast.Yield, ast.YieldFrom)) for n in ast.walk(m.node))
            if is_gen:
                self.yields.append([])
                try:
                    self.run(m.node.body, sub)
                finally:
                    out = self.yields.pop()
                return out
            return self.run(m.node.body, sub)
        if isinstance(f, tuple) and f and f[0] == "ctor":
            name = f[1]
            c = self.classes[name]
            init = self.repo.find_method(c, "__init__") if self.repo is not None else None
            obj = Obj(name, {})
            if init is not None:
                self.apply(("repo", obj, init), args, kwargs, node)
            else:
                fields = [n for k in reversed(self.repo.mro(c)) for n in k.annotations]
                for n, v in zip(fields, args):
                    obj.f[n] = v
                obj.f.update(kwargs)
            return obj
        if isinstance(f, tuple) and f and f[0] == "bound":
            _, obj, m = f
            return self.methods[(obj.cls, m)](obj, *args, **kwargs)
        if isinstance(f, tuple) and f and f[0] == "record":
            _, name, fields = f
            vals = dict(zip(fields, args))
            vals.update(kwargs)
            return Obj(name, vals)
        if isinstance(f, Tok):
            self.calls.append((f.text, args, kwargs))
            return Tok(f"{f.text}({', '.join(_show(a) for a in args)})")
        raise Undecided(f"{self.where}:{getattr(node, 'lineno', 0)}: call of {type(f).__name__} not modelled")

    def isinstance(self, v: Any, cls_expr: ast.expr, node: ast.AST) -> Any:
        names = {n.attr if isinstance(n, ast.Attribute) else n.id for n in ast.walk(cls_expr) if isinstance(n, (ast.Attribute, ast.Name))}
        if isinstance(v, Obj):
            return v.cls in names or any(k in names for k in v.f.get("__bases__", ()))
        if isinstance(v, Tok):
            return _UNKNOWN
        if v is None:
            return False
        py = {"int": int, "str": str, "list": list, "tuple": tuple, "dict": dict}
        return any(isinstance(v, py[n]) for n in names if n in py)


class _Unknown:
    def __repr__(self) -> str:
        return "<unknown truth value>"


_UNKNOWN = _Unknown()


def _is_unknown(v: Any) -> bool:
    return isinstance(v, _Unknown)


class _Enum:
    def __init__(self, items):
        self.items = items


def _show(v: Any) -> str:
    if isinstance(v, Tok):
        return v.text
    if isinstance(v, Obj):
        return v.f.get("__name__", v.cls)
    return repr(v)


def _load(t: ast.expr) -> ast.expr:
    import copy

    c = copy.deepcopy(t)
    for n in ast.walk(c):
        if hasattr(n, "ctx"):
            n.ctx = ast.Load()  # type: ignore[attr-defined]
    return c

class AnalysisError(Exception):
    """The analysis itself cannot be carried out (anchor vanished, construct not normalisable,
    instance floor not reached).  Mapped to exit code 2, never to a violation."""


class AnchorMissing(AnalysisError):
    pass

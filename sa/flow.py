"""E2/E3/E4 — syntax-directed abstract walker over one function.

For every statement and every call expression it records a `Site` carrying

* the **must-facts** that hold whenever control reaches the site (conditions of dominating
  branches in the taken polarity, `assert`s, the negation of conditions whose branch left the
  block, quantified facts established by guard loops), expressed over *expanded* expressions, and
* the **environment**: for each local name with a unique reaching definition, its defining
  expression expanded down to parameters / opaque names (flow-sensitive copy propagation).

The state is a small set of *alternatives* (path classes) so that correlated conditions
(`while .. break` followed by `if x is None: return`) are not lost at joins; the facts of a site
are the facts common to all live alternatives.  Loops are handled without iteration: everything a
loop body can store to is forgotten at the loop head (sound for must-facts).

Nothing is executed; every statement kind used in the analysed repository is handled, an unknown
statement kind raises AnalysisError (no guessing).
"""

from __future__ import annotations

import ast
import copy
from dataclasses import dataclass, field
from typing import Callable, Iterable

from . import norm
from .errors import AnalysisError
from .model import Cls, Func, Repo

MAX_ALTS = 24
MAX_EXPR_NODES = 600

MUTATING_METHODS = {
    "append",
    "extend",
    "insert",
    "update",
    "pop",
    "popitem",
    "clear",
    "add",
    "remove",
    "discard",
    "setdefault",
    "sort",
    "reverse",
    "appendleft",
}


def _size(e: ast.AST) -> int:
    return sum(1 for _ in ast.walk(e))


@dataclass
class Fact:
    expr: ast.expr  # canonical and expanded
    kind: str = "atom"  # atom | forall
    vars: tuple[str, ...] = ()
    domain: ast.expr | None = None
    body: tuple["Fact", ...] = ()
    line: int = 0

    @property
    def text(self) -> str:
        if self.kind == "forall":
            assert self.domain is not None
            return f"forall {', '.join(self.vars)} in {ast.unparse(self.domain)}: " + " and ".join(
                sorted(b.text for b in self.body)
            )
        return ast.unparse(self.expr)

    def names(self) -> set[str]:
        if self.kind == "forall":
            assert self.domain is not None
            s = norm.free_names(self.domain)
            for b in self.body:
                s |= b.names() - set(self.vars)
            return s
        return norm.free_names(self.expr)

    def paths(self) -> set[str]:
        if self.kind == "forall":
            assert self.domain is not None
            s = norm.access_paths(self.domain)
            for b in self.body:
                s |= b.paths()
            return s
        return norm.access_paths(self.expr)


@dataclass
class Alt:
    env: dict[str, ast.expr] = field(default_factory=dict)
    facts: dict[str, Fact] = field(default_factory=dict)
    # parameters whose bare Name (inside env values and facts) still denotes the value at function entry
    initial: set[str] = field(default_factory=set)

    def copy(self) -> "Alt":
        return Alt(dict(self.env), dict(self.facts), set(self.initial))

    def key(self) -> tuple:
        return (tuple(sorted(self.facts)), tuple(sorted((k, ast.dump(v)) for k, v in self.env.items())))


@dataclass
class State:
    alts: list[Alt]

    def copy(self) -> "State":
        return State([a.copy() for a in self.alts])

    @property
    def dead(self) -> bool:
        return not self.alts

    def common_facts(self) -> dict[str, Fact]:
        if not self.alts:
            return {}
        keys = set(self.alts[0].facts)
        for a in self.alts[1:]:
            keys &= set(a.facts)
        return {k: self.alts[0].facts[k] for k in keys}

    def common_env(self) -> dict[str, ast.expr]:
        if not self.alts:
            return {}
        out = {}
        for k, v in self.alts[0].env.items():
            d = ast.dump(v)
            if all(k in a.env and ast.dump(a.env[k]) == d for a in self.alts[1:]):
                out[k] = v
        return out


def join(states: Iterable[State | None]) -> State:
    alts: list[Alt] = []
    seen: set[tuple] = set()
    for s in states:
        if s is None:
            continue
        for a in s.alts:
            k = a.key()
            if k not in seen:
                seen.add(k)
                alts.append(a)
    if len(alts) > MAX_ALTS:
        st = State(alts)
        alts = [Alt(st.common_env(), st.common_facts())]
    return State(alts)


@dataclass
class Site:
    node: ast.AST
    stmt: ast.stmt
    state: State
    extra: tuple[Fact, ...]  # facts from the expression context (and/or/ifexp/comprehension filters)
    loops: tuple[ast.AST, ...]  # enclosing loops / comprehensions (outermost first)
    func: Func
    shadow: frozenset[str] = frozenset()  # comprehension/lambda-bound names visible at the site
    flow: "Flow | None" = field(default=None, repr=False, compare=False)  # the analysis this site belongs to
    callers: tuple[ast.stmt, ...] = ()  # statements (outermost first) whose helper calls were walked to reach this site; () = the function's own code

    @property
    def line(self) -> int:
        return getattr(self.node, "lineno", 0)

    @property
    def facts(self) -> list[Fact]:
        out = dict(self.state.common_facts())
        for f in self.extra:
            out[f.text] = f
        return list(out.values())

    @property
    def fact_texts(self) -> list[str]:
        return sorted(f.text for f in self.facts)

    @property
    def env(self) -> dict[str, ast.expr]:
        return self.state.common_env()

    @property
    def reachable(self) -> bool:
        return not self.state.dead

    def expand(self, e: ast.expr) -> ast.expr:
        env = {k: v for k, v in self.env.items() if k not in self.shadow}
        return expand(e, env)

    def where(self) -> str:
        return f"{self.func.module.relpath}:{self.line}"


class _Expander(ast.NodeTransformer):
    def __init__(self, env: dict[str, ast.expr]):
        self.env = env
        self.shadow: list[set[str]] = []

    def _shadowed(self, name: str) -> bool:
        return any(name in s for s in self.shadow)

    def visit_Name(self, node: ast.Name) -> ast.AST:
        if isinstance(node.ctx, ast.Load) and node.id in self.env and not self._shadowed(node.id):
            return copy.deepcopy(self.env[node.id])
        return node

    def _comp(self, node):  # type: ignore[no-untyped-def]
        bound: set[str] = set()
        for g in node.generators:
            bound |= {n.id for n in ast.walk(g.target) if isinstance(n, ast.Name)}
        # iter of the first generator is evaluated in the enclosing scope
        first = node.generators[0]
        first.iter = self.visit(first.iter)
        self.shadow.append(bound)
        for i, g in enumerate(node.generators):
            if i:
                g.iter = self.visit(g.iter)
            g.ifs = [self.visit(c) for c in g.ifs]
        if isinstance(node, ast.DictComp):
            node.key = self.visit(node.key)
            node.value = self.visit(node.value)
        else:
            node.elt = self.visit(node.elt)
        self.shadow.pop()
        return node

    visit_ListComp = visit_SetComp = visit_GeneratorExp = visit_DictComp = _comp

    def visit_Lambda(self, node: ast.Lambda) -> ast.AST:
        a = node.args
        bound = {x.arg for x in (*a.posonlyargs, *a.args, *a.kwonlyargs)}
        if a.vararg:
            bound.add(a.vararg.arg)
        if a.kwarg:
            bound.add(a.kwarg.arg)
        self.shadow.append(bound)
        node.body = self.visit(node.body)
        self.shadow.pop()
        return node

    def visit_NamedExpr(self, node: ast.NamedExpr) -> ast.AST:
        # the value of `(x := e)` is e
        return self.visit(node.value)


def expand(e: ast.expr, env: dict[str, ast.expr]) -> ast.expr:
    if not env:
        return _Expander({}).visit(copy.deepcopy(e))
    out = _Expander(env).visit(copy.deepcopy(e))
    return out


def stored_names(nodes: Iterable[ast.AST]) -> tuple[set[str], set[str]]:
    """(names stored to, access paths stored to / mutated) anywhere inside `nodes`
    (not descending into nested function definitions)."""
    names: set[str] = set()
    paths: set[str] = set()

    def walk(n: ast.AST) -> None:
        if isinstance(n, (ast.FunctionDef, ast.AsyncFunctionDef, ast.ClassDef)):
            names.add(n.name)
            return
        if isinstance(n, ast.Lambda):
            return
        if isinstance(n, ast.Name) and isinstance(n.ctx, (ast.Store, ast.Del)):
            names.add(n.id)
        elif isinstance(n, (ast.Attribute, ast.Subscript)) and isinstance(n.ctx, (ast.Store, ast.Del)):
            base = n.value
            paths.add(ast.unparse(base))
            if isinstance(n, ast.Subscript) and isinstance(base, ast.Name):
                names.add(base.id)  # x[k] = v / del x[k] changes the object bound to x
        elif isinstance(n, ast.Call) and isinstance(n.func, ast.Attribute) and n.func.attr in MUTATING_METHODS:
            base = n.func.value
            if isinstance(base, ast.Name):
                names.add(base.id)
            else:
                paths.add(ast.unparse(base))
                root = _container_root(base)
                if root is not None:
                    names.add(root)  # xs[k].append(v) changes the container bound to xs
        elif isinstance(n, (ast.ListComp, ast.SetComp, ast.GeneratorExp, ast.DictComp)):
            # comprehension targets are local to the comprehension
            for g in n.generators:
                walk(g.iter)
                for c in g.ifs:
                    walk(c)
            if isinstance(n, ast.DictComp):
                walk(n.key)
                walk(n.value)
            else:
                walk(n.elt)
            return
        for c in ast.iter_child_nodes(n):
            walk(c)

    for n in nodes:
        walk(n)
    return names, paths


def _container_root(base: ast.expr) -> str | None:
    """`xs` for `xs[k]`, `xs[k][j]` (element of a local container), else None"""
    cur = base
    if not isinstance(cur, ast.Subscript):
        return None
    while isinstance(cur, ast.Subscript):
        cur = cur.value
    return cur.id if isinstance(cur, ast.Name) else None


def _exits(stmt: ast.stmt) -> bool:
    return isinstance(stmt, (ast.Return, ast.Raise, ast.Continue, ast.Break))


@dataclass
class Outcome:
    fall: State | None
    breaks: list[State] = field(default_factory=list)
    continues: list[State] = field(default_factory=list)


def is_not_const_truthy(atom: ast.expr) -> bool:
    """`not <constant>` / `<constant>` whose truth value is known to be False"""
    if isinstance(atom, ast.UnaryOp) and isinstance(atom.op, ast.Not) and isinstance(atom.operand, ast.Constant):
        return bool(atom.operand.value)
    if isinstance(atom, ast.Constant) and not isinstance(atom.value, str):
        return not bool(atom.value)  # a path on which the tested value is the literal None / False / 0 does not take the branch
    return False


def _load_known() -> frozenset[str]:
    import json
    from pathlib import Path

    f = Path(__file__).with_name("known_funcs.json")
    try:
        return frozenset(json.loads(f.read_text()))
    except Exception:  # noqa: BLE001
        return frozenset()


_KNOWN_FUNCS = _load_known()


class Flow:
    """Analyse one function.  `sites` lists a Site per statement and per call expression."""

    def __init__(self, func: Func, repo: Repo | None = None, inline_depth: int = 1, closure_env: dict | None = None,
                 events: dict[str, Callable[[ast.stmt], bool]] | None = None, inline_calls: int = 2):
        """`events`: label -> predicate on simple statements; once a matching statement has executed on
        every path to a site, the site carries the must-fact `__event__('label')` (must-pass-through)."""
        self.func = func
        self.repo = repo
        self.inline_depth = inline_depth
        self.events = events or {}
        self.sites: list[Site] = []
        self.alldefs: dict[str, list[ast.expr]] = {}
        self.end_state: State | None = None
        self._loops: list[ast.AST] = []
        self._stmt: ast.stmt = func.node
        self._shadow: list[set[str]] = []
        self.inline_exclude: frozenset[str] = frozenset()
        # walk-time inlining of helper calls that stand as a statement of their own (`helper(...)`, `x = helper(...)`): the callee's
        # body is walked in the caller's state, so that guards established by the caller dominate sites inside the helper and
        # sites of the helper are sites of this flow (extract-function refactorings do not change what a rule sees)
        self.inline_calls = inline_calls if repo is not None else 0
        self._tail_stack: list[bool] = []
        # helpers the reference tree does not have and that could NOT be walked as part of this function (star arguments, recursion, size):
        # what they establish is unknown, so a guard that is not found may well be established inside them
        self.opaque_new: list[str] = []
        self.inline_known = False  # set by a rule that wants reference-tree helpers inlined as well
        self._inline_stack: list[str] = []
        self._caller_stmts: list[ast.stmt] = []
        self._ret_stack: list[list[tuple[State, ast.expr | None]]] = []
        self._site_func: Func | None = None
        self._inline_seq = 0
        self.inlined: list[str] = []
        self._collect_alldefs()
        # heap paths (attribute-rooted) that this function stores to: reads of them are not propagated into
        # definitions, so that facts about a local copy survive a later store to the field
        _, sp = stored_names(func.node.body)
        self._stored_heap = {x for x in sp if "." in x}
        a_ = func.node.args
        params = {x.arg for x in (*a_.posonlyargs, *a_.args, *a_.kwonlyargs)}
        loop_stored: set[str] = set()
        for n in ast.walk(func.node):
            if isinstance(n, (ast.For, ast.While)):
                ns, _ = stored_names([*n.body, *( [n.target] if isinstance(n, ast.For) else [n.test])])
                loop_stored |= ns
        init = State([Alt(dict(closure_env or {}), {}, params - loop_stored)])
        out = self._block(func.node.body, init)
        self.end_state = out.fall  # state at implicit `return None`, if reachable

    # ------------------------------------------------------------------ queries
    def find(self, pred: Callable[[ast.AST], bool]) -> list[Site]:
        return [s for s in self.sites if pred(s.node)]

    def calls(self, *method_names: str) -> list[Site]:
        """Call sites whose callee's last name component is one of `method_names`."""
        out = []
        for s in self.sites:
            n = s.node
            if isinstance(n, ast.Call):
                f = n.func
                nm = f.attr if isinstance(f, ast.Attribute) else f.id if isinstance(f, ast.Name) else None
                if nm in method_names:
                    out.append(s)
        return out

    def stmts(self, *types: type) -> list[Site]:
        # a `return` of an inlined helper ends the helper, not the analysed function: it is not one of this function's returns
        return [s for s in self.sites if isinstance(s.node, types) and s.node is s.stmt and not (isinstance(s.node, ast.Return) and s.func is not self.func)]

    def cone(self, e: ast.expr, site: Site | None = None, depth: int = 8, inline: int = 2) -> ast.expr:
        """`e` expanded through the site's environment and, for names without a unique reaching
        definition, through *all* their definitions in the function (flow-insensitive), wrapped as
        `__phi__(d1, d2, ...)`.  Used for dependency questions ("does the value depend on X?")."""
        env = {k: v for k, v in (site.env if site else {}).items() if not (site and k in site.shadow)}
        seen: set[str] = set()

        def go(x: ast.expr, d: int) -> ast.expr:
            x = expand(x, env)
            if d <= 0 or _size(x) > 4 * MAX_EXPR_NODES:
                return x
            repl: dict[str, ast.expr] = {}
            for nm in sorted(norm.free_names(x)):
                if nm in self.alldefs and nm not in seen:
                    seen.add(nm)
                    defs = [go(copy.deepcopy(dv), d - 1) for dv in self.alldefs[nm]]
                    repl[nm] = ast.Call(ast.Name("__phi__", ast.Load()), [ast.Name(nm, ast.Load()), *defs], [])
            return expand(x, repl) if repl else x

        out = go(e, depth)
        if inline and self.repo is not None:
            out = self._inline_returns(out, inline)
        return out

    def _inline_returns(self, e: ast.expr, depth: int) -> ast.expr:
        """replace every call `f(args)` to a resolvable repo helper by `__inl__(f(args), r1, r2, ..)`
        where r_i are the helper's return expressions (their cones) with parameters substituted"""
        flow = self

        class Inl(ast.NodeTransformer):
            def visit_Call(self, node: ast.Call) -> ast.AST:
                self.generic_visit(node)
                if isinstance(node.func, ast.Name) and node.func.id.startswith("__"):
                    return node
                callee = flow._resolve_callee(node)
                excl = flow.inline_exclude | {flow.func.key}
                if callee is None or callee.node is flow.func.node or callee.key in excl:
                    return node
                rets = _return_cones(callee, flow.repo, depth - 1, frozenset(excl))
                if not rets:
                    return node
                params = callee.params
                if callee.cls is not None and params and params[0] in ("self", "cls"):
                    params = params[1:]
                if len(node.args) > len(params) or any(isinstance(a, ast.Starred) for a in node.args):
                    return node
                sub = {p: a for p, a in zip(params, node.args)}
                for kw in node.keywords:
                    if kw.arg:
                        sub[kw.arg] = kw.value
                inl = [expand(copy.deepcopy(r), sub) for r in rets]
                if sum(_size(x) for x in inl) > 40 * MAX_EXPR_NODES:
                    return node
                return ast.Call(ast.Name("__inl__", ast.Load()), [node, *inl], [])

        return ast.fix_missing_locations(Inl().visit(copy.deepcopy(e)))

    # ------------------------------------------------------------------ all definitions (flow-insensitive)
    def _collect_alldefs(self, body: list[ast.stmt] | None = None) -> None:
        ctl: list[ast.expr] = []  # conditions / iteration domains the current statement is control-dependent on

        def add(name: str, value: ast.expr) -> None:
            if ctl:
                value = ast.Call(ast.Name("__ctl__", ast.Load()), [value, *ctl], [])
            self.alldefs.setdefault(name, []).append(value)

        def bind(target: ast.expr, value: ast.expr) -> None:
            if isinstance(target, ast.Name):
                add(target.id, value)
            elif isinstance(target, (ast.Tuple, ast.List)):
                vals = _unpack(value, len(target.elts))
                for t, v in zip(target.elts, vals):
                    bind(t.value if isinstance(t, ast.Starred) else t, v)

        def walk(n: ast.AST) -> None:
            if isinstance(n, (ast.FunctionDef, ast.AsyncFunctionDef, ast.ClassDef)) and n is not self.func.node:
                return
            if isinstance(n, ast.Assign):
                for t in n.targets:
                    bind(t, n.value)
            elif isinstance(n, ast.AnnAssign) and n.value is not None:
                bind(n.target, n.value)
            elif isinstance(n, ast.AugAssign) and isinstance(n.target, ast.Name):
                add(n.target.id, ast.BinOp(ast.Name(n.target.id, ast.Load()), n.op, n.value))
            elif isinstance(n, ast.NamedExpr):
                add(n.target.id, n.value)
            elif isinstance(n, (ast.For, ast.AsyncFor)):
                bind(n.target, _iter_elem(n.iter))
            elif isinstance(n, ast.comprehension):
                bind(n.target, _iter_elem(n.iter))
            elif isinstance(n, ast.withitem) and n.optional_vars is not None:
                bind(n.optional_vars, n.context_expr)
            elif isinstance(n, ast.Call) and isinstance(n.func, ast.Attribute) and n.func.attr in MUTATING_METHODS:
                if isinstance(n.func.value, ast.Name):
                    add(
                        n.func.value.id,
                        ast.Call(
                            ast.Name(f"__mut_{n.func.attr}__", ast.Load()),
                            [ast.Name(n.func.value.id, ast.Load()), *n.args],
                            list(n.keywords),
                        ),
                    )
            elif isinstance(n, ast.Assign | ast.AugAssign) or False:
                pass
            if isinstance(n, ast.Assign):
                # x[i] = v / x.a = v   count as definitions of x for dependency purposes
                for t in n.targets:
                    if isinstance(t, (ast.Subscript, ast.Attribute)):
                        root = t
                        while isinstance(root, (ast.Subscript, ast.Attribute)):
                            root = root.value
                        if isinstance(root, ast.Name):
                            extra = [n.value]
                            if isinstance(t, ast.Subscript):
                                extra.append(t.slice)
                            add(root.id, ast.Call(ast.Name("__store__", ast.Load()), extra, []))
            if isinstance(n, ast.Delete):
                for t in n.targets:
                    if isinstance(t, ast.Subscript):
                        root = t.value
                        while isinstance(root, (ast.Subscript, ast.Attribute)):
                            root = root.value
                        if isinstance(root, ast.Name):
                            add(root.id, ast.Call(ast.Name("__del__", ast.Load()), [t.slice], []))
            if isinstance(n, ast.match_case):
                for sub in ast.walk(n.pattern):
                    if isinstance(sub, (ast.MatchAs, ast.MatchStar)) and sub.name:
                        add(sub.name, ast.Name("__match_subject__", ast.Load()))
            if isinstance(n, (ast.If, ast.While)):
                walk(n.test)
                ctl.append(n.test)
                for c in (*n.body, *n.orelse):
                    walk(c)
                ctl.pop()
                return
            if isinstance(n, (ast.For, ast.AsyncFor)):
                walk(n.iter)
                ctl.append(n.iter)
                for c in (*n.body, *n.orelse):
                    walk(c)
                ctl.pop()
                return
            for c in ast.iter_child_nodes(n):
                walk(c)

        for st in (self.func.node.body if body is None else body):
            walk(st)

    # ------------------------------------------------------------------ state helpers
    def _expand(self, e: ast.expr, alt: Alt) -> ast.expr:
        env = alt.env
        if self._shadow:
            sh = set().union(*self._shadow)
            env = {k: v for k, v in env.items() if k not in sh}
        x = expand(e, env)
        return x

    def _mk_facts(self, cond: ast.expr, polarity: bool, alt: Alt, line: int) -> list[Fact] | None:
        """facts for cond==polarity in `alt`; None if contradictory with the alt's facts"""
        out: list[Fact] = []
        for a in norm.atoms(cond, polarity):
            ex = norm.canon(self._expand(a, alt))
            # splitting may become possible after expansion
            for a2 in norm.atoms(ex, True):
                f = Fact(a2, line=line)
                if self._contradicts(a2, alt):
                    return None
                out.append(f)
                out.extend(self._derived(a2, alt, line))
        return out

    def _contradicts(self, atom: ast.expr, alt: Alt) -> bool:
        neg = ast.unparse(norm.canon(norm.negate(atom)))
        if neg in alt.facts:
            return True
        if isinstance(atom, ast.Constant) and atom.value is False:
            return True
        # comparisons between constants decide themselves (`None is not None` after a helper returned None on this path)
        if isinstance(atom, ast.Compare) and len(atom.ops) == 1 and isinstance(atom.left, ast.Constant) and isinstance(atom.comparators[0], ast.Constant):
            l, r, op = atom.left.value, atom.comparators[0].value, atom.ops[0]
            try:
                val = {ast.Is: l is r, ast.IsNot: l is not r, ast.Eq: l == r, ast.NotEq: l != r}.get(type(op))
            except Exception:  # noqa: BLE001
                val = None
            if val is False:
                return True
        if is_not_const_truthy(atom):
            return True
        m = norm.match(norm.T("$x is None"), atom)
        if m is not None:
            xt = ast.unparse(m["x"])
            for f in alt.facts.values():
                if f.kind != "atom":
                    continue
                if ast.unparse(f.expr) == xt:
                    return True
                mm = norm.match(norm.T("isinstance($y, $_)"), f.expr)
                if mm is not None and ast.unparse(mm["y"]) == xt:
                    return True
        m = norm.match(norm.T("isinstance($x, $_)"), atom)
        if m is not None:
            if f"{ast.unparse(m['x'])} is None" in alt.facts:
                return True
        return False

    def _derived(self, atom: ast.expr, alt: Alt, line: int) -> list[Fact]:
        """facts implied by a boolean helper function returning True/False (one level of inlining)"""
        if self.repo is None or self.inline_depth <= 0:
            return []
        outcome = "true"
        call = atom
        if norm.is_not(atom):
            outcome = "false"
            call = atom.operand  # type: ignore[attr-defined]
        elif (
            isinstance(atom, ast.Compare)
            and len(atom.ops) == 1
            and isinstance(atom.ops[0], (ast.Is, ast.IsNot))
            and isinstance(atom.comparators[0], ast.Constant)
            and atom.comparators[0].value is None
        ):
            outcome = "none" if isinstance(atom.ops[0], ast.Is) else "notnone"
            call = atom.left
        if not isinstance(call, ast.Call):
            return []
        callee = self._resolve_callee(call)
        if callee is None:
            return []
        facts = outcome_summary(callee, self.repo, self.inline_depth - 1)[outcome]
        if facts is None:
            return []
        params = callee.params
        if callee.cls is not None and params and params[0] in ("self", "cls"):
            params = params[1:]
        if len(call.args) > len(params) or any(isinstance(a, ast.Starred) for a in call.args):
            return []
        sub = {p: a for p, a in zip(params, call.args)}
        for kw in call.keywords:
            if kw.arg:
                sub[kw.arg] = kw.value
        out = []
        allowed = _GLOBALISH(callee)
        encl = callee.parent
        while encl is not None:
            # a nested helper may mention names of its enclosing function: they denote the same
            # objects at the call site (the call site is in that scope) unless stored in between;
            # only parameters and nested function names (never re-bound here) are accepted
            allowed |= set(encl.params)
            allowed |= {n.name for n in ast.walk(encl.node) if isinstance(n, ast.FunctionDef)}
            encl = encl.parent
        sub["__ret__"] = call
        for f in facts:
            if f.kind != "atom":
                continue
            foreign = norm.free_names(f.expr) - allowed - set(sub)
            sub2 = sub
            if foreign:
                # the fact mentions locals of the callee: it still holds for *some* values at the moment of the return; the locals are
                # renamed to opaque names of their own so that they can never be confused with names of the caller
                sub2 = dict(sub)
                for nm in foreign:
                    sub2[nm] = ast.Name(f"__loc_{callee.name}_{nm}__", ast.Load())
            out.append(Fact(norm.canon(expand(f.expr, sub2)), line=line))
        return out

    def _resolve_callee(self, call: ast.Call) -> Func | None:
        f = call.func
        if isinstance(f, ast.Name):
            # nested function of the current (or enclosing) function
            cur: Func | None = self.func
            while cur is not None:
                n = _nested_defs(cur).get(f.id)
                if n is not None:
                    return Func(f.id, f"{cur.qualname}.<locals>.{f.id}", n, cur.module, cur.cls, cur)
                cur = cur.parent
            m = self.func.module
            if f.id in m.funcs:
                return m.funcs[f.id]
            if self.repo is not None and f.id in m.imports:
                obj = self.repo.lookup_dotted(m.imports[f.id])
                if isinstance(obj, Func):
                    return obj
        elif isinstance(f, ast.Attribute) and isinstance(f.value, ast.Name) and f.value.id == "self":
            if self.repo is not None and self.func.cls is not None:
                return self.repo.find_method(self.func.cls, f.attr)
        return None

    def _assume(self, st: State, cond: ast.expr, polarity: bool, line: int) -> State:
        out: list[Alt] = []
        for a in st.alts:
            fs = self._mk_facts(cond, polarity, a, line)
            if fs is None:
                continue
            b = a.copy()
            for f in fs:
                b.facts[f.text] = f
            out.append(b)
        return State(out)

    def _kill_name(self, st: State, name: str) -> None:
        for a in st.alts:
            had_env = name in a.env
            a.env.pop(name, None)
            if name in a.initial:
                if had_env:
                    # the bare name keeps denoting the entry value (it was re-defined before): nothing that
                    # mentions it has to be forgotten, but from now on the name's current value is unknown,
                    # which the bare name cannot express any more
                    a.initial.discard(name)
                    for k in [k for k, f in a.facts.items() if name in f.names()]:
                        del a.facts[k]
                    for k in [k for k, v in a.env.items() if name in norm.free_names(v)]:
                        del a.env[k]
                    continue
                a.initial.discard(name)
            # definitions that mention the (old value of the) name stay valid: they were expanded at
            # definition time only if the name had a unique def; if the name was opaque they still
            # mention it and must be forgotten
            for k in [k for k, v in a.env.items() if name in norm.free_names(v)]:
                del a.env[k]
            for k in [k for k, f in a.facts.items() if name in f.names()]:
                del a.facts[k]

    def _kill_path(self, st: State, path: str) -> None:
        for a in st.alts:
            for k in [k for k, f in a.facts.items() if any(p == path or p.startswith(path + ".") for p in f.paths())]:
                del a.facts[k]
            for k in [
                k
                for k, v in a.env.items()
                if any(p == path or p.startswith(path + ".") for p in norm.access_paths(v))
            ]:
                del a.env[k]

    def _assign_name(self, st: State, name: str, value: ast.expr | None) -> None:
        """name = value (value unexpanded; None = opaque)"""
        if value is not None and any(
            isinstance(n, ast.Call) and isinstance(n.func, ast.Attribute) and n.func.attr in MUTATING_METHODS
            for n in ast.walk(value)
        ):
            value = None  # `x = xs.pop()` is not a pure expression: do not propagate it as a definition
        if value is not None and self._stored_heap:
            ps = norm.access_paths(value)
            if any(q == h or q.startswith(h + ".") for q in ps for h in self._stored_heap):
                value = None  # reads a field that is re-assigned in this function: keep the local opaque
        new: list[ast.expr | None] = []
        for a in st.alts:
            if value is None:
                new.append(None)
            else:
                ex = self._expand(value, a)
                if _size(ex) > MAX_EXPR_NODES:
                    new.append(None)
                elif name in norm.free_names(ex):
                    # `x = f(x)`: fine if the inner x is the parameter's value at entry (SSA-like: the bare
                    # name keeps denoting the entry value in definitions and facts)
                    new.append(ex if (name in a.initial and name not in a.env) else None)
                else:
                    new.append(ex)
        for a, ex in zip(st.alts, new):
            if ex is not None and name in a.initial and name not in a.env:
                # first re-definition of a parameter on this path: the bare name keeps denoting the entry
                # value, so definitions and facts that mention it stay valid
                a.env[name] = ex
                continue
            self._kill_name(State([a]), name)
            if ex is not None:
                a.env[name] = ex

    def _bind(self, st: State, target: ast.expr, value: ast.expr | None) -> None:
        if isinstance(target, ast.Name):
            self._assign_name(st, target.id, value)
        elif isinstance(target, (ast.Tuple, ast.List)):
            vals = _unpack(value, len(target.elts)) if value is not None else [None] * len(target.elts)
            # evaluate all values in the old environment first
            exp: list[list[ast.expr | None]] = []
            for v in vals:
                exp.append([None if v is None else self._expand(v, a) for a in st.alts])
            for t, per_alt in zip(target.elts, exp):
                t2 = t.value if isinstance(t, ast.Starred) else t
                if isinstance(t2, ast.Name):
                    self._kill_name(st, t2.id)
                else:
                    self._bind(st, t2, None)
            for t, per_alt in zip(target.elts, exp):
                t2 = t.value if isinstance(t, ast.Starred) else t
                if isinstance(t2, ast.Name) and not isinstance(t, ast.Starred):
                    for a, ex in zip(st.alts, per_alt):
                        if ex is not None and _size(ex) <= MAX_EXPR_NODES and t2.id not in norm.free_names(ex):
                            a.env[t2.id] = ex
        elif isinstance(target, (ast.Attribute, ast.Subscript)):
            self._kill_path(st, ast.unparse(target))
            base = target.value
            if isinstance(target, ast.Subscript):
                # x[k] = v changes x
                self._kill_path(st, ast.unparse(base))
                if isinstance(base, ast.Name):
                    self._mutate(st, base.id, "setitem", [target.slice, *( [value] if value is not None else [])])
        elif isinstance(target, ast.Starred):
            self._bind(st, target.value, None)

    def _mutate(self, st: State, name: str, how: str, args: list[ast.expr]) -> None:
        """x.how(args): new pseudo-definition x = __mut_how__(old x, args)"""
        news: list[ast.expr | None] = []
        for a in st.alts:
            old = a.env.get(name)
            if old is None:
                news.append(None)
                continue
            ex = ast.Call(ast.Name(f"__mut_{how}__", ast.Load()), [old, *[self._expand(x, a) for x in args]], [])
            news.append(ex if _size(ex) <= MAX_EXPR_NODES else None)
        self._kill_name(st, name)
        for a, ex in zip(st.alts, news):
            if ex is not None:
                a.env[name] = ex

    # ------------------------------------------------------------------ expressions
    def _record(self, node: ast.AST, st: State, extra: tuple[Fact, ...]) -> None:
        shadow = frozenset(set().union(*self._shadow)) if self._shadow else frozenset()
        self.sites.append(Site(node, self._stmt, st.copy(), extra, tuple(self._loops), self._site_func or self.func, shadow, self,
                               tuple(self._caller_stmts)))

    def _extra_facts(self, cond: ast.expr, polarity: bool, st: State, line: int) -> tuple[Fact, ...]:
        env = st.common_env()
        if self._shadow:
            sh = set().union(*self._shadow)
            env = {k: v for k, v in env.items() if k not in sh}
        out = []
        for a in norm.atoms(cond, polarity):
            ex = norm.canon(expand(a, env))
            for a2 in norm.atoms(ex, True):
                out.append(Fact(a2, line=line))
                if st.alts:
                    out.extend(self._derived(a2, st.alts[0], line))
        return tuple(out)

    def _expr(self, e: ast.AST | None, st: State, extra: tuple[Fact, ...] = ()) -> None:
        if e is None:
            return
        line = getattr(e, "lineno", 0)
        if isinstance(e, ast.BoolOp):
            ex = extra
            for v in e.values:
                self._expr(v, st, ex)
                ex = ex + self._extra_facts(v, isinstance(e.op, ast.And), st, line)
            return
        if isinstance(e, ast.IfExp):
            self._expr(e.test, st, extra)
            self._expr(e.body, st, extra + self._extra_facts(e.test, True, st, line))
            self._expr(e.orelse, st, extra + self._extra_facts(e.test, False, st, line))
            return
        if isinstance(e, ast.NamedExpr):
            self._expr(e.value, st, extra)
            self._assign_name(st, e.target.id, e.value)
            return
        if isinstance(e, (ast.ListComp, ast.SetComp, ast.GeneratorExp, ast.DictComp)):
            ex = extra
            pushed = 0
            for i, g in enumerate(e.generators):
                self._expr(g.iter, st, ex)
                bound = {n.id for n in ast.walk(g.target) if isinstance(n, ast.Name)}
                self._shadow.append(bound)
                self._loops.append(g)
                pushed += 1
                for c in g.ifs:
                    self._expr(c, st, ex)
                    ex = ex + self._extra_facts(c, True, st, line)
            if isinstance(e, ast.DictComp):
                self._expr(e.key, st, ex)
                self._expr(e.value, st, ex)
            else:
                self._expr(e.elt, st, ex)
            for _ in range(pushed):
                self._shadow.pop()
                self._loops.pop()
            return
        if isinstance(e, ast.Lambda):
            a = e.args
            bound = {x.arg for x in (*a.posonlyargs, *a.args, *a.kwonlyargs)}
            self._shadow.append(bound)
            self._expr(e.body, st, extra)
            self._shadow.pop()
            return
        if isinstance(e, ast.Call):
            self._expr(e.func, st, extra)
            for a in e.args:
                self._expr(a, st, extra)
            for k in e.keywords:
                self._expr(k.value, st, extra)
            self._record(e, st, extra)
            # mutating method on a local name
            if isinstance(e.func, ast.Attribute) and e.func.attr in MUTATING_METHODS:
                base = e.func.value
                if isinstance(base, ast.Name):
                    self._mutate(st, base.id, e.func.attr, list(e.args))
                else:
                    self._kill_path(st, ast.unparse(base))
                    root = _container_root(base)
                    if root is not None:
                        self._mutate(st, root, "elem_" + e.func.attr, list(e.args))
            return
        if isinstance(e, (ast.Yield, ast.YieldFrom, ast.Await)):
            self._expr(e.value, st, extra)
            self._record(e, st, extra)
            return
        for c in ast.iter_child_nodes(e):
            if isinstance(c, (ast.expr, ast.keyword, ast.comprehension, ast.FormattedValue)):
                self._expr(c, st, extra)

    # ------------------------------------------------------------------ statements
    def _block(self, stmts: list[ast.stmt], st: State) -> Outcome:
        out = Outcome(st)
        cur: State | None = st
        for s in stmts:
            if cur is None or cur.dead:
                # unreachable code: still record sites (with a dead state) so that rules see them
                cur = State([])
            o = self._stmt_exec(s, cur)
            out.breaks += o.breaks
            out.continues += o.continues
            cur = o.fall
        out.fall = cur if (cur is not None and not cur.dead) else None
        return out

    def _stmt_exec(self, s: ast.stmt, st: State) -> Outcome:
        prev_stmt = self._stmt
        self._stmt = s
        try:
            out = self._stmt_exec_inner(s, st)
            if self.events and out.fall is not None:
                for label, pred in self.events.items():
                    if pred(s):
                        ev = Fact(ast.Call(ast.Name("__event__", ast.Load()), [ast.Constant(label)], []), line=s.lineno)
                        for a in out.fall.alts:
                            a.facts[ev.text] = ev
            return out
        finally:
            self._stmt = prev_stmt

    def _stmt_exec_inner(self, s: ast.stmt, st: State) -> Outcome:
        line = s.lineno
        if isinstance(s, (ast.Expr,)):
            st = st.copy()
            self._expr(s.value, st)
            self._record(s, st, ())
            if isinstance(s.value, ast.Call):
                inl = self._inline_call(s.value, st, None)
                if inl is not None:
                    return Outcome(inl if not inl.dead else None)
            return Outcome(st)
        if isinstance(s, ast.Assign):
            st = st.copy()
            self._expr(s.value, st)
            self._record(s, st, ())
            if isinstance(s.value, ast.Call) and len(s.targets) == 1:
                inl = self._inline_call(s.value, st, s.targets[0])
                if inl is not None:
                    return Outcome(inl if not inl.dead else None)
            for t in s.targets:
                for sub in ast.walk(t):
                    if isinstance(sub, ast.Subscript):
                        self._expr(sub.slice, st)
                self._bind(st, t, s.value)
            return Outcome(st)
        if isinstance(s, ast.AnnAssign):
            st = st.copy()
            if s.value is not None:
                self._expr(s.value, st)
            self._record(s, st, ())
            if s.value is not None:
                self._bind(st, s.target, s.value)
            return Outcome(st)
        if isinstance(s, ast.AugAssign):
            st = st.copy()
            self._expr(s.value, st)
            self._record(s, st, ())
            if isinstance(s.target, ast.Name):
                self._assign_name(st, s.target.id, ast.BinOp(ast.Name(s.target.id, ast.Load()), s.op, s.value))
            else:
                self._bind(st, s.target, None)
            return Outcome(st)
        if isinstance(s, ast.Return):
            st = st.copy()
            self._expr(s.value, st)
            tail = all(self._tail_stack)  # every enclosing inlined call is itself a tail call (or there is none)
            if tail and isinstance(s.value, ast.Call):
                # `return helper(..)`: the returns of an inlined helper are returns of the analysed function
                self._tail_stack.append(True)
                try:
                    inl = self._inline_call(s.value, st, None)
                finally:
                    self._tail_stack.pop()
                if inl is not None:
                    if self._ret_stack:
                        self._ret_stack[-1].append((st, s.value))
                    return Outcome(None)
            prev_sf = self._site_func
            if tail:
                self._site_func = self.func
            try:
                self._record(s, st, ())
            finally:
                self._site_func = prev_sf
            if self._ret_stack:
                self._ret_stack[-1].append((st, s.value))  # a return of an inlined helper ends the helper, not the caller
            return Outcome(None)
        if isinstance(s, ast.Raise):
            st = st.copy()
            self._expr(s.exc, st)
            self._record(s, st, ())
            return Outcome(None)
        if isinstance(s, ast.Break):
            self._record(s, st, ())
            return Outcome(None, breaks=[st])
        if isinstance(s, ast.Continue):
            self._record(s, st, ())
            return Outcome(None, continues=[st])
        if isinstance(s, ast.Pass):
            self._record(s, st, ())
            return Outcome(st)
        if isinstance(s, ast.Assert):
            st = st.copy()
            self._expr(s.test, st)
            self._record(s, st, ())
            return Outcome(self._assume(st, s.test, True, line))
        if isinstance(s, ast.Delete):
            st = st.copy()
            self._record(s, st, ())
            for t in s.targets:
                if isinstance(t, ast.Name):
                    self._kill_name(st, t.id)
                else:
                    self._bind(st, t, None)
            return Outcome(st)
        if isinstance(s, ast.If):
            st = st.copy()
            self._expr(s.test, st)
            self._record(s, st, ())
            a = self._block(s.body, self._assume(st, s.test, True, line))
            b = self._block(s.orelse, self._assume(st, s.test, False, line))
            fall = join([a.fall, b.fall])
            return Outcome(None if fall.dead else fall, a.breaks + b.breaks, a.continues + b.continues)
        if isinstance(s, (ast.For, ast.AsyncFor)):
            return self._for(s, st)
        if isinstance(s, ast.While):
            return self._while(s, st)
        if isinstance(s, (ast.With, ast.AsyncWith)):
            st = st.copy()
            for it in s.items:
                self._expr(it.context_expr, st)
                if it.optional_vars is not None:
                    self._bind(st, it.optional_vars, it.context_expr)
            self._record(s, st, ())
            return self._block(s.body, st)
        if isinstance(s, ast.Try):
            self._record(s, st, ())
            body = self._block(s.body, st.copy())
            names, paths = stored_names(s.body)
            hstart = st.copy()
            for n in names:
                self._kill_name(hstart, n)
            for p in paths:
                self._kill_path(hstart, p)
            outs = [body]
            for h in s.handlers:
                hs = hstart.copy()
                if h.name:
                    self._kill_name(hs, h.name)
                outs.append(self._block(h.body, hs))
            if s.orelse and body.fall is not None:
                e = self._block(s.orelse, body.fall)
                outs[0] = Outcome(e.fall, body.breaks + e.breaks, body.continues + e.continues)
            fall = join([o.fall for o in outs])
            res = Outcome(
                None if fall.dead else fall, [b for o in outs for b in o.breaks], [c for o in outs for c in o.continues]
            )
            if s.finalbody:
                f = self._block(s.finalbody, res.fall if res.fall is not None else hstart)
                res = Outcome(f.fall if res.fall is not None else None, res.breaks + f.breaks, res.continues + f.continues)
            return res
        if isinstance(s, ast.Match):
            return self._match(s, st)
        if isinstance(s, (ast.FunctionDef, ast.AsyncFunctionDef, ast.ClassDef)):
            st = st.copy()
            self._record(s, st, ())
            self._kill_name(st, s.name)
            return Outcome(st)
        if isinstance(s, (ast.Import, ast.ImportFrom, ast.Global, ast.Nonlocal)):
            self._record(s, st, ())
            return Outcome(st)
        raise AnalysisError(f"{self.func.where}: statement kind {type(s).__name__} at line {line} not supported")

    def _inline_call(self, call: ast.Call, st: State, target: ast.expr | None) -> State | None:
        """walk the body of a resolvable, small, non-recursive repo helper in the caller's state; None = not inlined"""
        if self.inline_calls <= 0 or len(self._inline_stack) >= self.inline_calls or st.dead:
            return None
        callee = self._resolve_callee_wide(call)
        if callee is None or callee.node is self.func.node or callee.key in self._inline_stack or callee.key in self.inline_exclude:
            return None
        if not self.inline_known and (callee.key in _KNOWN_FUNCS or f"{callee.module.relpath}:*.{callee.name}" in _KNOWN_FUNCS):
            return None  # a function of the reference tree: the rules know it as it is
        node = callee.node
        a = node.args

        def opaque() -> None:
            if callee.key not in self.opaque_new:
                self.opaque_new.append(callee.key)
            return None

        if any(isinstance(x, ast.Starred) for x in call.args):
            # `f(a, *xs)` with a known length of xs (`len(xs) == n` on every path) is `f(a, xs[0], .., xs[n-1])`
            flat: list[ast.expr] = []
            for x in call.args:
                if not isinstance(x, ast.Starred):
                    flat.append(x)
                    continue
                n_known = None
                for fa in st.common_facts().values():
                    if fa.kind == "atom":
                        m_ = norm.match(norm.T("len($x) == $n"), fa.expr, {"x": self._expand(x.value, st.alts[0]) if st.alts else x.value})
                        if m_ is None:
                            m_ = norm.match(norm.T("len($x) == $n"), fa.expr, {"x": x.value})
                        if m_ is not None and isinstance(m_["n"], ast.Constant) and isinstance(m_["n"].value, int) and 0 <= m_["n"].value <= 6:
                            n_known = m_["n"].value
                if n_known is None:
                    return opaque()
                flat.extend(ast.Subscript(copy.deepcopy(x.value), ast.Constant(i_), ast.Load()) for i_ in range(n_known))
            call = ast.copy_location(ast.Call(call.func, flat, list(call.keywords)), call)
            ast.fix_missing_locations(call)
        if a.vararg or a.kwarg or any(k.arg is None for k in call.keywords):
            return opaque()
        if any(isinstance(n, (ast.Yield, ast.YieldFrom, ast.Await, ast.Global, ast.Nonlocal)) for n in ast.walk(node)):
            return opaque()
        n_stmts = sum(1 for n in ast.walk(node) if isinstance(n, ast.stmt))
        if n_stmts > 60:
            return opaque()
        if any(isinstance(n, ast.Call) and isinstance(n.func, ast.Name) and n.func.id == callee.name for n in ast.walk(node)):
            return opaque()  # directly recursive
        params = [x.arg for x in (*a.posonlyargs, *a.args)]
        decos = callee.decorators()
        static = any("staticmethod" in d for d in decos)
        args = list(call.args)
        bound: dict[str, ast.expr] = {}
        if callee.cls is not None and not static and params and params[0] in ("self", "cls"):
            recv = call.func.value if isinstance(call.func, ast.Attribute) else ast.Name("self", ast.Load())
            bound[params[0]] = recv
            params = params[1:]
        if len(args) > len(params):
            return None
        for p_, v in zip(params, args):
            bound[p_] = v
        for k in call.keywords:
            if k.arg in params or k.arg in [x.arg for x in a.kwonlyargs]:
                bound[k.arg] = k.value  # type: ignore[index]
        defaults = dict(zip([x.arg for x in (*a.posonlyargs, *a.args)][-len(a.defaults):], a.defaults)) if a.defaults else {}
        for x, d in zip(a.kwonlyargs, a.kw_defaults):
            if d is not None:
                defaults[x.arg] = d
        for p_ in [*params, *[x.arg for x in a.kwonlyargs]]:
            if p_ not in bound:
                if p_ in defaults:
                    bound[p_] = defaults[p_]
                else:
                    return None
        # alpha-rename the callee's locals; parameters that are never re-bound and receive a simple argument are substituted directly
        self._inline_seq += 1
        tag = f"{callee.name}_{self._inline_seq}"
        stored, _ = stored_names(node.body)
        nested = {n.name for n in ast.walk(node) if isinstance(n, (ast.FunctionDef, ast.ClassDef)) and n is not node}
        simple = lambda e: isinstance(e, (ast.Name, ast.Constant)) or (isinstance(e, ast.Attribute) and simple(e.value))  # noqa: E731
        # the callee's own locals: names it binds (a free variable of a closure that is only mutated, `pending.clear()`, stays the caller's)
        binds_: set[str] = set()

        def _binds(n_: ast.AST) -> None:
            if isinstance(n_, (ast.FunctionDef, ast.AsyncFunctionDef, ast.ClassDef, ast.Lambda)) and n_ is not node:
                return
            if isinstance(n_, (ast.ListComp, ast.SetComp, ast.GeneratorExp, ast.DictComp)):
                for nn in ast.walk(n_):
                    if isinstance(nn, ast.NamedExpr) and isinstance(nn.target, ast.Name):
                        binds_.add(nn.target.id)
                return
            if isinstance(n_, ast.Name) and isinstance(n_.ctx, (ast.Store, ast.Del)):
                binds_.add(n_.id)
            for c_ in ast.iter_child_nodes(n_):
                _binds(c_)

        for b_ in node.body:
            _binds(b_)
        # a parameter the callee never re-binds IS the argument (also when the callee mutates it: `del state[name]` in a helper changes the
        # caller's dictionary), provided the argument is a plain name / attribute path
        direct = {p_: v for p_, v in bound.items() if p_ not in binds_ and simple(v) and not isinstance(v, ast.Constant) or (
            p_ not in stored and simple(v))}
        own = binds_ if callee.parent is not None else (binds_ | (set(stored) - set(direct)))
        ren = {n: f"__{tag}_{n}__" for n in (own | set(bound)) - set(direct) - nested}

        class R(ast.NodeTransformer):
            def visit_Name(self, n: ast.Name) -> ast.AST:
                if n.id in direct and isinstance(n.ctx, ast.Load):
                    return ast.copy_location(copy.deepcopy(direct[n.id]), n)
                if n.id in ren:
                    return ast.copy_location(ast.Name(ren[n.id], n.ctx), n)
                return n

            def visit_arg(self, n: ast.arg) -> ast.AST:
                return n

        body = [R().visit(copy.deepcopy(x)) for x in node.body]
        for x in body:
            ast.fix_missing_locations(x)
        cur = st.copy()
        for p_, v in bound.items():
            if p_ in direct:
                continue
            self._assign_name(cur, ren[p_], v)
            self.alldefs.setdefault(ren[p_], []).append(v)
        self._collect_alldefs(body)  # the helper's (renamed) locals are locals of the analysed function now
        self._inline_stack.append(callee.key)
        self._caller_stmts.append(self._stmt)
        self._ret_stack.append([])
        if len(self._tail_stack) < len(self._ret_stack):
            self._tail_stack.append(False)  # not entered from a `return helper(..)`
            pushed_tail = True
        else:
            pushed_tail = False
        prev_site_func = self._site_func
        self._site_func = callee
        saved_loops = self._loops
        try:
            out = self._block(body, cur)
        finally:
            self._site_func = prev_site_func
            rets = self._ret_stack.pop()
            if pushed_tail:
                self._tail_stack.pop()
            self._inline_stack.pop()
            self._caller_stmts.pop()
            self._loops = saved_loops
        self.inlined.append(callee.key)
        # states that leave the helper: falling off its end (returns None) or an explicit return
        leaving: list[State] = []
        if out.fall is not None and not out.fall.dead:
            f_ = out.fall.copy()
            if target is not None:
                self._bind(f_, target, ast.Constant(None))
            leaving.append(f_)
        for rst, rv in rets:
            r_ = rst.copy()
            if target is not None:
                self._bind(r_, target, rv if rv is not None else ast.Constant(None))
                # the flow-insensitive definitions of the targets are what the helper returns (not the opaque call)
                if rv is not None:
                    self._alldef_targets(target, rv)
            leaving.append(r_)
        if not leaving:
            return State([])
        return join(leaving)

    def _alldef_targets(self, target: ast.expr, value: ast.expr) -> None:
        if isinstance(target, ast.Name):
            self.alldefs.setdefault(target.id, []).insert(0, value)
        elif isinstance(target, (ast.Tuple, ast.List)) and isinstance(value, (ast.Tuple, ast.List)) and len(target.elts) == len(value.elts) and not any(
                isinstance(e, ast.Starred) for e in [*target.elts, *value.elts]):
            for t_, v_ in zip(target.elts, value.elts):
                self._alldef_targets(t_, v_)

    def _resolve_callee_wide(self, call: ast.Call) -> Func | None:
        """_resolve_callee plus `Class.method(...)` / `self.method` static methods and functions imported from other repo modules"""
        c = self._resolve_callee(call)
        if c is not None:
            return c
        f = call.func
        if isinstance(f, ast.Name):
            # a closure defined inside the analysed function (its free variables are the caller's locals: inlining at the call
            # site is exactly the late binding Python performs)
            for n in ast.walk(self.func.node):
                if isinstance(n, ast.FunctionDef) and n is not self.func.node and n.name == f.id:
                    try:
                        return self.func.nested(f.id)
                    except Exception:  # noqa: BLE001
                        return None
        if self.repo is not None and isinstance(f, ast.Attribute) and isinstance(f.value, ast.Name):
            m = self.func.module
            owner = m.classes.get(f.value.id)
            if owner is None and f.value.id in m.imports:
                obj = self.repo.lookup_dotted(m.imports[f.value.id])
                if isinstance(obj, Cls):
                    owner = obj
            if owner is not None:
                return self.repo.find_method(owner, f.attr)
        return None

    def _loop_entry(self, s: ast.For | ast.While, st: State) -> State:
        body_nodes: list[ast.AST] = list(s.body)
        if isinstance(s, ast.For):
            body_nodes.append(s.target)
        else:
            body_nodes.append(s.test)  # walrus in the test
        names, paths = stored_names(body_nodes)
        st = st.copy()
        for n in names:
            self._kill_name(st, n)
        for p in paths:
            self._kill_path(st, p)
        return st

    def _literal_rounds(self, s: ast.For, st: State) -> list[ast.expr] | None:
        """the elements of `for x in (f, g)`: a short literal tuple of names (functions, classes), directly or through a local that
        every path binds to the same literal; None when the loop is an ordinary one"""
        simple_t = isinstance(s.target, ast.Name)
        tuple_t = isinstance(s.target, ast.Tuple) and all(isinstance(e, ast.Name) for e in s.target.elts)
        if not (simple_t or tuple_t) or s.orelse or not st.alts:
            return None
        # the literal is read as written (names inside it are substituted into the body, where they are expanded as usual)
        it = s.iter
        if isinstance(it, ast.Name):
            its = {ast.dump(self._expand(s.iter, a)) for a in st.alts}
            if len(its) != 1:
                return None
            it = self._expand(s.iter, st.alts[0])
        if not isinstance(it, (ast.Tuple, ast.List)) or not (2 <= len(it.elts) <= 4):
            return None
        atom = lambda e: isinstance(e, (ast.Name, ast.Attribute))  # noqa: E731
        if simple_t and not all(atom(e) for e in it.elts):
            return None
        if tuple_t and not all(isinstance(e, ast.Tuple) and len(e.elts) == len(s.target.elts) and all(atom(x) for x in e.elts) for e in it.elts):  # type: ignore[union-attr]
            return None
        stored, _ = stored_names(s.body)
        tnames = {s.target.id} if simple_t else {e.id for e in s.target.elts}  # type: ignore[union-attr]
        if tnames & set(stored) or any(isinstance(n, (ast.Lambda, ast.FunctionDef)) for b in s.body for n in ast.walk(b)):
            return None
        return list(it.elts)

    def _for(self, s: ast.For, st: State) -> Outcome:
        line = s.lineno
        st = st.copy()
        self._expr(s.iter, st)
        self._record(s, st, ())
        rounds = self._literal_rounds(s, st)
        if rounds is not None:
            # unrolled: each round is the body with that name in place of the variable; `continue` ends a round, `break` the loop
            cur: State = st
            breaks: list[State] = []
            for e in rounds:
                pairs = [(s.target.id, e)] if isinstance(s.target, ast.Name) else [(t_.id, v_) for t_, v_ in zip(s.target.elts, e.elts)]  # type: ignore[union-attr]
                body_ = []
                for x in s.body:
                    y = copy.deepcopy(x)
                    # simultaneous substitution (the values may mention the other targets' names: `(a, b), (b, a)`)
                    tmp = {nm: f"__round_{i}__" for i, (nm, _) in enumerate(pairs)}
                    for nm, _ in pairs:
                        y = norm._Subst(nm, ast.Name(tmp[nm], ast.Load())).visit(y)
                    for nm, v_ in pairs:
                        y = norm._Subst(tmp[nm], v_).visit(y)
                    body_.append(ast.fix_missing_locations(y))
                out_ = self._block(body_, cur.copy())
                breaks += out_.breaks
                cur = join([out_.fall, *out_.continues])
                if cur.dead:
                    break
                if len(cur.alts) > 1:
                    # what one round established on some of its paths is not carried into the next round (as for an ordinary loop):
                    # only what all paths agree on
                    cur = State([Alt(cur.common_env(), cur.common_facts())])
            fall_ = join([cur, *breaks])
            return Outcome(None if fall_.dead else fall_)
        entry = self._loop_entry(s, st)
        dom = [norm.canon(self._expand(s.iter, a)) for a in entry.alts]
        self._loops.append(s)
        body = self._block(s.body, entry.copy())
        self._loops.pop()
        normal = entry.copy()
        has_break = bool(body.breaks)
        if not has_break and normal.alts:
            # quantified facts: what holds at the end of every completed iteration
            ends = [x for x in ([body.fall] if body.fall is not None else []) + body.continues]
            tvars = tuple(sorted(n.id for n in ast.walk(s.target) if isinstance(n, ast.Name)))
            if ends:
                common: dict[str, Fact] | None = None
                for e in ends:
                    cf = e.common_facts()
                    common = cf if common is None else {k: v for k, v in common.items() if k in cf}
                assert common is not None
                entry_common = set(entry.common_facts())
                per_iter = [f for k, f in common.items() if k not in entry_common and (f.names() & set(tvars))]
                # facts must not mention names that the body itself stores to (other than the loop targets)
                body_names, _ = stored_names(s.body)
                per_iter = [f for f in per_iter if not (f.names() & (body_names - set(tvars)))]
                if per_iter:
                    for a, d in zip(normal.alts, dom):
                        q = Fact(ast.Constant(True), "forall", tvars, d, tuple(per_iter), line)
                        a.facts[q.text] = q
                elif len(ends) > 1:
                    # `if not c: continue` in front of the body: what the other iterations establish holds for the elements with c
                    # (the loop then reads `for v in [v for v in D if c]`)
                    keep = lambda f: f.kind == "atom" and bool(f.names() & set(tvars)) and not (f.names() & (body_names - set(tvars)))  # noqa: E731
                    done = False
                    for e0 in ends:
                        if done:
                            break
                        for k0, n0 in e0.common_facts().items():
                            if k0 in entry_common or not keep(n0):
                                continue
                            c = norm.canon(norm.negate(n0.expr))
                            ctext = ast.unparse(c)
                            P = [e for e in ends if ctext in e.common_facts()]
                            N = [e for e in ends if k0 in e.common_facts()]
                            if not P or len(P) + len(N) != len(ends):
                                continue
                            commonP: dict[str, Fact] | None = None
                            for e in P:
                                cf = e.common_facts()
                                commonP = cf if commonP is None else {k: v for k, v in commonP.items() if k in cf}
                            assert commonP is not None
                            per_iter = [f for k, f in commonP.items() if k not in entry_common and k != ctext and keep(f)]
                            if not per_iter:
                                continue
                            for a, d in zip(normal.alts, dom):
                                fd = ast.ListComp(copy.deepcopy(s.target), [ast.comprehension(copy.deepcopy(s.target), d, [c], 0)])
                                for nn in ast.walk(fd.elt):
                                    if isinstance(nn, ast.Name):
                                        nn.ctx = ast.Load()
                                ast.fix_missing_locations(fd)
                                q = Fact(ast.Constant(True), "forall", tvars, fd, tuple(per_iter), line)
                                a.facts[q.text] = q
                            done = True
                            break
            else:
                # no iteration can complete: the loop either does not iterate or leaves the function
                for a, d in zip(normal.alts, dom):
                    q = Fact(ast.Constant(True), "forall", tvars, d, (Fact(ast.Constant(False)),), line)
                    a.facts[q.text] = q
        after = normal
        o = Outcome(after)
        if s.orelse:
            e = self._block(s.orelse, after)
            o = Outcome(e.fall, e.breaks, e.continues)
        # break states: forget what the loop stores? no - they carry the state at the break
        fall = join([o.fall, *body.breaks])
        return Outcome(None if fall.dead else fall, o.breaks, o.continues)

    def _while(self, s: ast.While, st: State) -> Outcome:
        line = s.lineno
        entry = self._loop_entry(s, st)
        self._expr(s.test, entry)
        self._record(s, entry, ())
        self._loops.append(s)
        body = self._block(s.body, self._assume(entry, s.test, True, line))
        self._loops.pop()
        infinite = isinstance(s.test, ast.Constant) and bool(s.test.value) is True
        normal = None if infinite else self._assume(entry, s.test, False, line)
        o = Outcome(normal)
        if s.orelse and normal is not None:
            e = self._block(s.orelse, normal)
            o = Outcome(e.fall, e.breaks, e.continues)
        fall = join([o.fall, *body.breaks])
        return Outcome(None if fall.dead else fall, o.breaks, o.continues)

    def _match(self, s: ast.Match, st: State) -> Outcome:
        st = st.copy()
        self._expr(s.subject, st)
        self._record(s, st, ())
        outs: list[Outcome] = []
        exhaustive = False
        for case in s.cases:
            cs = st.copy()
            cond = _pattern_condition(case.pattern, s.subject)
            for nm, val in _pattern_bindings(case.pattern, s.subject):
                self._assign_name(cs, nm, val)
            if cond is not None:
                cs = self._assume(cs, cond, True, case.pattern.lineno)
            tag = ast.Call(
                ast.Name("__case__", ast.Load()), [s.subject, ast.Constant(ast.unparse(case.pattern))], []
            )
            cs = self._assume(cs, tag, True, case.pattern.lineno)
            if case.guard is not None:
                self._expr(case.guard, cs)
                cs = self._assume(cs, case.guard, True, case.pattern.lineno)
            elif isinstance(case.pattern, ast.MatchAs) and case.pattern.pattern is None:
                exhaustive = True
            self._record(case, cs, ())
            outs.append(self._block(case.body, cs))
        falls = [o.fall for o in outs]
        if not exhaustive:
            falls.append(st)
        fall = join(falls)
        return Outcome(
            None if fall.dead else fall, [b for o in outs for b in o.breaks], [c for o in outs for c in o.continues]
        )


_NESTED_CACHE: dict[int, dict[str, ast.FunctionDef]] = {}


def _nested_defs(f: Func) -> dict[str, ast.FunctionDef]:
    d = _NESTED_CACHE.get(id(f.node))
    if d is None:
        d = {n.name: n for n in ast.walk(f.node) if isinstance(n, ast.FunctionDef) and n is not f.node}
        _NESTED_CACHE[id(f.node)] = d
    return d


def _GLOBALISH(f: Func) -> set[str]:
    m = f.module
    import builtins

    return set(m.imports) | set(m.classes) | set(m.funcs) | set(m.consts) | set(dir(builtins))


def _pattern_condition(p: ast.pattern, subject: ast.expr) -> ast.expr | None:
    """a Python condition implied by a successful match (class patterns -> isinstance, keyword
    sub-patterns that are constants -> attribute comparisons)."""
    if isinstance(p, ast.MatchAs):
        return _pattern_condition(p.pattern, subject) if p.pattern is not None else None
    if isinstance(p, ast.MatchClass):
        conds: list[ast.expr] = [ast.Call(ast.Name("isinstance", ast.Load()), [subject, p.cls], [])]
        for attr, sub in zip(p.kwd_attrs, p.kwd_patterns):
            tgt = ast.Attribute(subject, attr, ast.Load())
            if isinstance(sub, ast.MatchSingleton):
                conds.append(ast.Compare(tgt, [ast.Is()], [ast.Constant(sub.value)]))
            elif isinstance(sub, ast.MatchValue):
                conds.append(ast.Compare(tgt, [ast.Eq()], [sub.value]))
            else:
                c = _pattern_condition(sub, tgt)
                if c is not None:
                    conds.append(c)
        return conds[0] if len(conds) == 1 else ast.BoolOp(ast.And(), conds)
    if isinstance(p, ast.MatchValue):
        return ast.Compare(subject, [ast.Eq()], [p.value])
    if isinstance(p, ast.MatchSingleton):
        return ast.Compare(subject, [ast.Is()], [ast.Constant(p.value)])
    if isinstance(p, ast.MatchOr):
        cs = [_pattern_condition(x, subject) for x in p.patterns]
        if all(c is not None for c in cs):
            return ast.BoolOp(ast.Or(), cs)  # type: ignore[arg-type]
    return None


def _pattern_bindings(p: ast.pattern, subject: ast.expr) -> list[tuple[str, ast.expr]]:
    out: list[tuple[str, ast.expr]] = []
    if isinstance(p, ast.MatchAs):
        if p.name:
            out.append((p.name, subject))
        if p.pattern is not None:
            out += _pattern_bindings(p.pattern, subject)
    elif isinstance(p, ast.MatchClass):
        for attr, sub in zip(p.kwd_attrs, p.kwd_patterns):
            out += _pattern_bindings(sub, ast.Attribute(subject, attr, ast.Load()))
    return out


def _iter_elem(it: ast.expr) -> ast.expr:
    return ast.Call(ast.Name("__elem__", ast.Load()), [it], [])


def _unpack(value: ast.expr | None, n: int) -> list[ast.expr | None]:
    """n value expressions for `a, b, c = value`"""
    if value is None:
        return [None] * n
    if isinstance(value, (ast.Tuple, ast.List)) and len(value.elts) == n and not any(
        isinstance(e, ast.Starred) for e in value.elts
    ):
        return list(value.elts)
    # a, b, c = (f(x) for x in (p, q, r))   /  [f(x) for x in (p, q, r)] / tuple(...)
    gen = value
    if isinstance(gen, ast.Call) and isinstance(gen.func, ast.Name) and gen.func.id in ("tuple", "list") and gen.args:
        gen = gen.args[0]
    if isinstance(gen, (ast.GeneratorExp, ast.ListComp)) and len(gen.generators) == 1:
        g = gen.generators[0]
        if (
            isinstance(g.iter, (ast.Tuple, ast.List))
            and len(g.iter.elts) == n
            and not g.ifs
            and isinstance(g.target, ast.Name)
        ):
            return [expand(gen.elt, {g.target.id: x}) for x in g.iter.elts]
    return [ast.Subscript(value, ast.Constant(i), ast.Load()) for i in range(n)]


# --------------------------------------------------------------------------- helper summaries

_RETURN_CACHE: dict[tuple, list[ast.expr]] = {}


def _return_cones(f: Func, repo: Repo | None, depth: int, exclude: frozenset[str] = frozenset()) -> list[ast.expr]:
    key = (f.key, id(f.node), depth, exclude)
    if key in _RETURN_CACHE:
        return _RETURN_CACHE[key]
    _RETURN_CACHE[key] = []
    try:
        fl = Flow(f, repo, inline_depth=0)
        fl.inline_exclude = exclude
    except AnalysisError:
        return []
    out: list[ast.expr] = []
    for site in fl.stmts(ast.Return):
        v = site.node.value  # type: ignore[attr-defined]
        if v is None or isinstance(v, ast.Constant):
            continue
        out.append(fl.cone(v, site, inline=max(depth, 0)))
    # generator helpers: yielded values
    for site in fl.sites:
        if isinstance(site.node, (ast.Yield, ast.YieldFrom)) and site.node.value is not None:
            out.append(fl.cone(site.node.value, site, inline=max(depth, 0)))
    _RETURN_CACHE[key] = out
    return out


_SUMMARY_CACHE: dict[tuple[str, int, int], dict[str, list[Fact] | None]] = {}


def outcome_summary(f: Func, repo: Repo | None, depth: int = 0) -> dict[str, list[Fact] | None]:
    """Facts (over f's parameter names) that hold whenever f returns a value that is
    truthy ("true"), falsy ("false"), not None ("notnone"), None ("none").
    A value of None for an outcome = that outcome is impossible / unknown."""
    key = (f.key, id(f.node), depth)
    if key in _SUMMARY_CACHE:
        return _SUMMARY_CACHE[key]
    empty: dict[str, list[Fact] | None] = {"true": None, "false": None, "notnone": None, "none": None}
    _SUMMARY_CACHE[key] = empty  # recursion guard
    try:
        fl = Flow(f, repo, inline_depth=depth)
    except AnalysisError:
        return empty
    sets: dict[str, list[dict[str, Fact]]] = {"true": [], "false": [], "notnone": [], "none": []}

    def refine(site: Site, base: dict[str, Fact], cond: ast.expr, pol: bool) -> dict[str, Fact] | None:
        d = dict(base)
        for a in norm.atoms(cond, pol):
            ex = norm.canon(site.expand(a))
            for a2 in norm.atoms(ex, True):
                neg = ast.unparse(norm.canon(norm.negate(a2)))
                if neg in d:
                    return None
                d[ast.unparse(a2)] = Fact(a2)
        return d

    for site in fl.stmts(ast.Return):
        if not site.reachable:
            continue
        v = site.node.value  # type: ignore[attr-defined]
        base = {x.text: x for x in site.facts}
        if v is None or (isinstance(v, ast.Constant) and v.value is None):
            sets["false"].append(base)
            sets["none"].append(base)
        elif isinstance(v, ast.Constant):
            sets["true" if v.value else "false"].append(base)
            sets["notnone"].append(base)
        else:
            # facts that mention the returned value are re-expressed over `__ret__` (the caller substitutes its call expression)
            vtxt = ast.unparse(norm.canon(site.expand(v)))
            vraw = ast.unparse(v)

            def over_ret(d: dict[str, Fact] | None) -> dict[str, Fact] | None:
                if d is None:
                    return None
                out: dict[str, Fact] = {}
                for k, fct in d.items():
                    if fct.kind == "atom" and (vtxt in k or vraw in k):
                        class R(ast.NodeTransformer):
                            def generic_visit(self, node: ast.AST) -> ast.AST:
                                if isinstance(node, ast.expr) and ast.unparse(node) in (vtxt, vraw):
                                    return ast.copy_location(ast.Name("__ret__", ast.Load()), node)
                                return super().generic_visit(node)

                        e2 = R().visit(copy.deepcopy(fct.expr))
                        nf = Fact(ast.fix_missing_locations(e2))
                        out[nf.text] = nf
                        out[k] = fct  # and the fact itself, over the parameters
                    else:
                        out[k] = fct
                return out

            # what is returned, as an expression over the parameters: `__ret__ is <expr>` (kept by the intersection only if every
            # return of that outcome returns the same expression)
            ident: Fact | None = None
            vexp = norm.canon(site.expand(v))
            pnames = set(f.params)
            def _plain(n_: ast.AST) -> bool:
                # attribute reads, argument-less method calls and constructor-style calls `Name(args)` (the value built, not object identity)
                if isinstance(n_, (ast.Lambda, ast.ListComp, ast.GeneratorExp, ast.DictComp, ast.SetComp)):
                    return False
                if isinstance(n_, ast.Call):
                    return (isinstance(n_.func, ast.Attribute) and not n_.args and not n_.keywords) or (
                        isinstance(n_.func, ast.Name) and n_.func.id[:1].isupper() and not n_.keywords)
                return True

            fn_ = norm.free_names(vexp) - {n_.func.id for n_ in ast.walk(vexp) if isinstance(n_, ast.Call) and isinstance(n_.func, ast.Name)}
            if fn_ and fn_ <= pnames and all(_plain(n_) for n_ in ast.walk(vexp)) and _size(vexp) <= 40:
                ident = Fact(ast.fix_missing_locations(ast.Compare(ast.Name("__ret__", ast.Load()), [ast.Is()], [copy.deepcopy(vexp)])))
            for pol, name in ((True, "true"), (False, "false")):
                d = over_ret(refine(site, base, v, pol))
                if d is not None:
                    if ident is not None and pol:
                        d[ident.text] = ident
                    sets[name].append(d)
            isnone = ast.Compare(v, [ast.Is()], [ast.Constant(None)])
            for pol, name in ((True, "none"), (False, "notnone")):
                d = over_ret(refine(site, base, isnone, pol))
                if d is not None:
                    if ident is not None and not pol:
                        d[ident.text] = ident
                    sets[name].append(d)
    if fl.end_state is not None:
        end = dict(fl.end_state.common_facts())
        sets["false"].append(end)
        sets["none"].append(end)

    def inter(ss: list[dict[str, Fact]]) -> list[Fact] | None:
        if not ss:
            return None
        keys = set(ss[0])
        for x in ss[1:]:
            keys &= set(x)
        return [ss[0][k] for k in sorted(keys)]

    res = {k: inter(v) for k, v in sets.items()}
    _SUMMARY_CACHE[key] = res
    return res


def bool_summary(f: Func, repo: Repo | None, depth: int = 0) -> tuple[list[Fact] | None, list[Fact] | None]:
    r = outcome_summary(f, repo, depth)
    return r["true"], r["false"]

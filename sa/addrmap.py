"""Abstract interpreter for the register-map builders (`generate_acc_op` and the helpers it calls).

Integers are linear forms (sa/linform.py) over configuration symbols (`len(self.streamer_setup_fields)`,
`self.n`, floordiv/ceildiv of those); dictionaries are ordered lists of *segments*
(key description, first address, count, stride).  Only the statement and expression kinds a
register-map builder plausibly uses are interpreted; anything else raises AnalysisError so that
a builder the interpreter cannot follow is reported as analysis-broken rather than passed.
"""
from __future__ import annotations

import ast
import re
from dataclasses import dataclass, field

from .errors import AnalysisError
from .linform import Form, SymTab
from .model import Cls, Func, Repo

IDX = "__i__"


@dataclass
class Seg:
    keys: tuple  # ("lit", name) | ("seq", text, lo, hi) | ("fmt", template, count text)
    lo: Form
    count: Form
    stride: int
    where: str
    kind: str = "field"

    def hi(self) -> Form:
        """one past the last address (count >= 1 assumed by callers that compare)"""
        if self.stride == 1:
            return self.lo + self.count
        return self.lo + (self.count - 1).scale(self.stride) + 1

    def label(self) -> str:
        k = self.keys
        if k[0] == "lit":
            return repr(k[1])
        if k[0] == "seq":
            sl = "" if (k[2] == 0 and k[3] is None) else f"[{k[2]}:{'' if k[3] is None else k[3]}]"
            return f"*{k[1]}{sl}"
        if k[0] == "fmt":
            return f"f'{k[1]}' x {k[2]}"
        return str(k)


@dataclass
class DictVal:
    segs: list = field(default_factory=list)
    reserved: list = field(default_factory=list)
    ident: str | None = None  # the dictionary is an opaque attribute (e.g. `self.fields` of a RoCC accelerator)


@dataclass
class SeqVal:
    text: str
    lo: int = 0
    hi: int | None = None


@dataclass
class TupleVal:
    items: list


@dataclass
class AttrVal:
    text: str


@dataclass
class DivVal:
    num: Form
    den: int


@dataclass
class StrVal:
    s: str


@dataclass
class AccOpVal:
    fields: DictVal
    launch: DictVal
    barrier: Form | None
    where: str
    args: list


@dataclass
class Opaque:
    text: str


@dataclass
class RangeVal:
    lo: Form
    count: Form


class _Return(Exception):
    def __init__(self, v):
        self.v = v


class AddrInterp:
    def __init__(self, repo: Repo, cls: Cls, tab: SymTab, reserved_after: dict[str, tuple[int, str]] | None = None, depth: int = 4):
        self.repo, self.cls, self.tab = repo, cls, tab
        self.reserved_after = reserved_after or {}
        self.depth = depth
        self.analysed: list[str] = []
        self.assumptions: list[str] = []
        self.slice_needs: dict[str, int] = {}  # len symbol -> minimum length the slice model relies on

    # -------------------------------------------------------------- functions
    def call(self, f: Func, args: list, kwargs: dict, depth: int):
        if depth <= 0:
            raise AnalysisError(f"{f.where}: inlining depth exhausted")
        self.analysed.append(f.key)
        a = f.node.args
        names = [x.arg for x in a.args]
        if names and names[0] in ("self", "cls"):
            names = names[1:]
        env: dict = {}
        defaults = a.defaults
        for i, n in enumerate(names):
            if i < len(args):
                env[n] = args[i]
            elif n in kwargs:
                env[n] = kwargs[n]
            else:
                di = i - (len(names) - len(defaults))
                if di < 0:
                    raise AnalysisError(f"{f.where}: parameter {n} unbound")
                env[n] = self.eval(defaults[di], {}, f, depth)
        try:
            self.block(f.node.body, env, f, depth)
        except _Return as r:
            ret = r.v
        else:
            ret = None
        tag = f"{f.cls.name}.{f.name}" if f.cls else f.name
        if tag in self.reserved_after:
            n, why = self.reserved_after[tag]
            if not (isinstance(ret, TupleVal) and len(ret.items) == 2 and isinstance(ret.items[1], DictVal) and ret.items[1].segs):
                raise AnalysisError(f"{f.where}: expected (next address, dictionary) from {tag}")
            d = ret.items[1]
            last = d.segs[-1]
            d.reserved.append(Seg(("lit", f"<reserved: {why}>"), last.hi(), Form.of(n), 1, f.where, "reserved"))
        return ret

    def block(self, stmts, env: dict, f: Func, depth: int) -> None:
        for st in stmts:
            self.stmt(st, env, f, depth)

    def stmt(self, st: ast.stmt, env: dict, f: Func, depth: int) -> None:
        w = f"{f.module.relpath}:{st.lineno}"
        if isinstance(st, ast.Expr):
            v = st.value
            if isinstance(v, ast.Constant):
                return
            if isinstance(v, ast.Call) and isinstance(v.func, ast.Attribute) and v.func.attr == "update" and isinstance(v.func.value, ast.Name):
                d = env.get(v.func.value.id)
                if not isinstance(d, DictVal) or len(v.args) != 1:
                    raise AnalysisError(f"{w}: update on a non-dictionary")
                o = self.eval(v.args[0], env, f, depth)
                if not isinstance(o, DictVal):
                    raise AnalysisError(f"{w}: update with a non-dictionary")
                d.segs.extend(o.segs)
                d.reserved.extend(o.reserved)
                return
            raise AnalysisError(f"{w}: unsupported expression statement in a register-map builder: {ast.unparse(st)[:80]}")
        if isinstance(st, (ast.Assign, ast.AnnAssign)):
            if st.value is None:
                return
            targets = st.targets if isinstance(st, ast.Assign) else [st.target]
            if all(isinstance(t, (ast.Subscript, ast.Attribute)) for t in targets):
                root = targets[0]
                while isinstance(root, (ast.Subscript, ast.Attribute)):
                    root = root.value
                if isinstance(root, ast.Name) and isinstance(env.get(root.id), AccOpVal):
                    return  # decorating the finished op (`op.attributes[...] = ...`)
                raise AnalysisError(f"{w}: store through {ast.unparse(targets[0])}")
            val = self.eval(st.value, env, f, depth)
            for t in targets:
                self.bind(t, val, env, w)
            return
        if isinstance(st, ast.AugAssign) and isinstance(st.target, ast.Name) and isinstance(st.op, (ast.Add, ast.Sub)):
            cur = self.form(env.get(st.target.id), w)
            d = self.form(self.eval(st.value, env, f, depth), w)
            env[st.target.id] = cur + d if isinstance(st.op, ast.Add) else cur - d
            return
        if isinstance(st, ast.Return):
            raise _Return(self.eval(st.value, env, f, depth) if st.value is not None else None)
        if isinstance(st, (ast.Assert, ast.Pass)):
            return
        raise AnalysisError(f"{w}: unsupported statement kind {type(st).__name__} in a register-map builder")

    def bind(self, t: ast.expr, val, env: dict, w: str) -> None:
        if isinstance(t, ast.Name):
            env[t.id] = val
        elif isinstance(t, (ast.Tuple, ast.List)):
            if not isinstance(val, TupleVal) or len(val.items) != len(t.elts):
                raise AnalysisError(f"{w}: cannot unpack {type(val).__name__} into {ast.unparse(t)}")
            for x, v in zip(t.elts, val.items):
                self.bind(x, v, env, w)
        else:
            raise AnalysisError(f"{w}: unsupported assignment target {ast.unparse(t)}")

    def _instance_assigned(self, attr: str) -> bool:
        for k in self.repo.mro(self.cls):
            for m in k.methods.values():
                for n in ast.walk(m.node):
                    if isinstance(n, (ast.Assign, ast.AnnAssign, ast.AugAssign)):
                        ts = n.targets if isinstance(n, ast.Assign) else [n.target]
                        for t in ts:
                            for x in ast.walk(t):
                                if isinstance(x, ast.Attribute) and x.attr == attr and isinstance(x.value, ast.Name) and x.value.id in ("self", "cls") and isinstance(x.ctx, ast.Store):
                                    return True
        return False

    # -------------------------------------------------------------- coercions
    def form(self, v, w: str) -> Form:
        if isinstance(v, Form):
            return v
        if isinstance(v, AttrVal):
            return self.tab.get(v.text)
        if isinstance(v, Opaque):
            return self.tab.get(f"opaque({v.text})", lb=None)
        raise AnalysisError(f"{w}: expected an integer, got {type(v).__name__}")

    def seq(self, v, w: str) -> SeqVal:
        if isinstance(v, SeqVal):
            return v
        if isinstance(v, AttrVal):
            return SeqVal(v.text)
        raise AnalysisError(f"{w}: expected a sequence, got {type(v).__name__}")

    def length(self, s: SeqVal) -> Form:
        name = f"len({s.text})"
        L = self.tab.get(name)
        need = max(s.lo, s.hi or 0)
        if need:
            self.slice_needs[name] = max(self.slice_needs.get(name, 0), need)
        if s.hi is None:
            return L - s.lo
        return Form.of(s.hi - s.lo)

    # -------------------------------------------------------------- expressions
    def eval(self, e: ast.expr, env: dict, f: Func, depth: int):
        w = f"{f.module.relpath}:{getattr(e, 'lineno', 0)}"
        if isinstance(e, ast.Constant):
            if isinstance(e.value, bool) or e.value is None:
                return Opaque(repr(e.value))
            if isinstance(e.value, int):
                return Form.of(e.value)
            if isinstance(e.value, str):
                return StrVal(e.value)
            return Opaque(repr(e.value))
        if isinstance(e, ast.Name):
            if e.id in env:
                return env[e.id]
            c = f.module.consts.get(e.id)
            if isinstance(c, ast.Constant) and isinstance(c.value, int):
                return Form.of(c.value)
            return Opaque(e.id)
        if isinstance(e, ast.Attribute):
            txt = ast.unparse(e)
            if isinstance(e.value, ast.Name) and e.value.id in ("self", "cls"):
                fc = self.repo.find_const(self.cls, e.attr)
                if fc is not None and self._instance_assigned(e.attr):
                    return AttrVal(txt)  # a per-instance configuration value: stays symbolic
                if fc is not None and isinstance(fc[1], ast.Constant) and isinstance(fc[1].value, int) and not isinstance(fc[1].value, bool):
                    self.assumptions.append(f"{txt} is the class constant {fc[1].value} ({fc[0].where})")
                    return Form.of(fc[1].value)
                if fc is not None and isinstance(fc[1], ast.Dict):
                    return DictVal(ident=txt)
                return AttrVal(txt)
            return Opaque(txt)
        if isinstance(e, ast.UnaryOp) and isinstance(e.op, ast.USub):
            return -self.form(self.eval(e.operand, env, f, depth), w)
        if isinstance(e, ast.BinOp):
            l = self.eval(e.left, env, f, depth)
            r = self.eval(e.right, env, f, depth)
            if isinstance(e.op, ast.Add):
                return self.form(l, w) + self.form(r, w)
            if isinstance(e.op, ast.Sub):
                return self.form(l, w) - self.form(r, w)
            if isinstance(e.op, ast.Mult):
                lf, rf = self.form(l, w), self.form(r, w)
                if lf.is_const():
                    return rf.scale(lf.const)
                if rf.is_const():
                    return lf.scale(rf.const)
                return self.form(Opaque(ast.unparse(e)), w)
            if isinstance(e.op, ast.Div):
                rf = self.form(r, w)
                if rf.is_const() and rf.const > 0:
                    return DivVal(self.form(l, w), rf.const)
                return Opaque(ast.unparse(e))
            if isinstance(e.op, ast.FloorDiv):
                lf, rf = self.form(l, w), self.form(r, w)
                if rf.is_const() and rf.const > 0:
                    k = rf.const
                    if lf.is_const():
                        return Form.of(lf.const // k)
                    s = lf.single()
                    if s is not None:
                        return self.tab.floordiv(s, k)
                    up = (lf - (k - 1)).single()
                    if up is not None:  # (x + k - 1) // k
                        return self.tab.ceildiv(up, k)
                    neg = (-lf).single()
                    if neg is not None:  # -x // k  ==  -ceildiv(x, k)
                        return -self.tab.ceildiv(neg, k)
                return self.form(Opaque(ast.unparse(e)), w)
            return self.form(Opaque(ast.unparse(e)), w)
        if isinstance(e, ast.Call):
            return self.eval_call(e, env, f, depth, w)
        if isinstance(e, ast.Subscript):
            base = self.eval(e.value, env, f, depth)
            if isinstance(e.slice, ast.Slice) and isinstance(base, (SeqVal, AttrVal)) and e.slice.step is None:
                s = self.seq(base, w)

                def cst(x):
                    if x is None:
                        return None
                    v = self.eval(x, env, f, depth)
                    if isinstance(v, Form) and v.is_const() and v.const >= 0:
                        return v.const
                    raise AnalysisError(f"{w}: non-constant slice bound {ast.unparse(x)}")

                lo, hi = cst(e.slice.lower) or 0, cst(e.slice.upper)
                if s.hi is not None and hi is None:
                    hi = s.hi - s.lo
                return SeqVal(s.text, s.lo + lo, None if hi is None else s.lo + hi)
            return Opaque(ast.unparse(e))
        if isinstance(e, (ast.Tuple, ast.List)):
            return TupleVal([self.eval(x, env, f, depth) for x in e.elts])
        if isinstance(e, ast.Dict):
            out = DictVal()
            for k, v in zip(e.keys, e.values):
                if k is None:
                    d = self.eval(v, env, f, depth)
                    if not isinstance(d, DictVal):
                        raise AnalysisError(f"{w}: ** of a non-dictionary {ast.unparse(v)[:60]}")
                    if d.ident is not None:
                        raise AnalysisError(f"{w}: ** of an opaque dictionary {d.ident}")
                    out.segs.extend(d.segs)
                    out.reserved.extend(d.reserved)
                else:
                    kv = self.eval(k, env, f, depth)
                    if not isinstance(kv, StrVal):
                        raise AnalysisError(f"{w}: non-literal dictionary key {ast.unparse(k)}")
                    out.segs.append(Seg(("lit", kv.s), self.form(self.eval(v, env, f, depth), w), Form.of(1), 1, f"{f.module.relpath}:{k.lineno}"))
            return out
        if isinstance(e, ast.DictComp):
            return self.dictcomp(e, env, f, depth, w)
        if isinstance(e, ast.JoinedStr):
            return Opaque(ast.unparse(e))
        if isinstance(e, ast.NamedExpr) and isinstance(e.target, ast.Name):
            v = self.eval(e.value, env, f, depth)
            env[e.target.id] = v
            return v
        return Opaque(ast.unparse(e)[:80])

    def eval_call(self, e: ast.Call, env: dict, f: Func, depth: int, w: str):
        fn = e.func
        name = fn.attr if isinstance(fn, ast.Attribute) else fn.id if isinstance(fn, ast.Name) else None
        args = [self.eval(a, env, f, depth) for a in e.args if not isinstance(a, ast.Starred)]
        kwargs = {k.arg: self.eval(k.value, env, f, depth) for k in e.keywords if k.arg}
        if name == "AcceleratorOp":
            allargs = list(args)
            for i, kname in enumerate(("name", "fields", "launch_fields", "barrier")):
                if kname in kwargs:
                    while len(allargs) <= i:
                        allargs.append(None)
                    allargs[i] = kwargs[kname]
            if len(allargs) < 4:
                raise AnalysisError(f"{w}: AcceleratorOp with fewer than 4 resolved arguments")
            fields, launch, barrier = allargs[1], allargs[2], allargs[3]
            if not isinstance(fields, DictVal) or not isinstance(launch, DictVal):
                raise AnalysisError(f"{w}: AcceleratorOp field arguments are not dictionaries")
            return AccOpVal(fields, launch, self.form(barrier, w), w, allargs)
        if name == "max" and len(args) == 2 and isinstance(fn, ast.Name) and all(isinstance(a_, Form) for a_ in args):
            cs = [a_ for a_ in args if a_.is_const()]
            vs = [a_ for a_ in args if not a_.is_const()]
            if len(cs) == 1 and len(vs) == 1 and vs[0].const == 0 and len(vs[0].coef) == 1 and list(vs[0].coef.values()) == [1]:
                try:
                    return self.tab.max_const(next(iter(vs[0].coef)), cs[0].const)
                except (ValueError, KeyError):
                    pass
            return self.form(Opaque(ast.unparse(e)), w)
        if name == "ceil" and len(args) == 1:
            a = args[0]
            if isinstance(a, DivVal):
                if a.num.is_const():
                    return Form.of(-(-a.num.const // a.den))
                s = a.num.single()
                if s is not None:
                    return self.tab.ceildiv(s, a.den)
            if isinstance(a, Form):
                return a
            return self.form(Opaque(ast.unparse(e)), w)
        if name == "floor" and len(args) == 1 and isinstance(args[0], DivVal):
            a = args[0]
            s = a.num.single()
            if s is not None:
                return self.tab.floordiv(s, a.den)
            return self.form(Opaque(ast.unparse(e)), w)
        if name == "range" and 1 <= len(args) <= 2 and isinstance(fn, ast.Name):
            bounds = [self.form(a, w) for a in args]
            lo = bounds[0] if len(bounds) == 2 else Form.of(0)
            return RangeVal(lo, bounds[-1] - lo)
        if name == "int" and len(args) == 1:
            return args[0]
        if name == "len" and len(args) == 1:
            return self.length(self.seq(args[0], w))
        if name == "dict" and len(args) == 1 and isinstance(args[0], DictVal):
            return args[0]
        if name in ("list", "tuple") and len(args) == 1 and isinstance(args[0], (SeqVal, AttrVal)):
            return args[0]
        if isinstance(fn, ast.Attribute) and isinstance(fn.value, ast.Name) and fn.value.id in ("self", "cls"):
            m = self.repo.find_method(self.cls, fn.attr)
            if m is not None:
                return self.call(m, args, kwargs, depth - 1)
        if isinstance(fn, ast.Name) and f is not None:
            # a plain helper function of the repository (defined in or imported into the calling module)
            h = f.module.funcs.get(fn.id)
            if h is None and fn.id in f.module.imports:
                obj = self.repo.lookup_dotted(f.module.imports[fn.id])
                h = obj if isinstance(obj, Func) else None
            if h is not None and h.cls is None:
                return self.call(h, args, kwargs, depth - 1)
        return Opaque(ast.unparse(e)[:80])

    @staticmethod
    def _quotient_only(var: str, exprs: list) -> int | None:
        """K when every use of `var` in the expressions is the left operand of `var // K` (one K)"""
        ks: set[int] = set()
        for x in exprs:
            parents: dict[int, ast.AST] = {}
            for n in ast.walk(x):
                for ch in ast.iter_child_nodes(n):
                    parents[id(ch)] = n
            for n in ast.walk(x):
                if isinstance(n, ast.Name) and n.id == var:
                    par = parents.get(id(n))
                    if isinstance(par, ast.BinOp) and isinstance(par.op, ast.FloorDiv) and par.left is n and isinstance(par.right, ast.Constant) and isinstance(par.right.value, int) and par.right.value > 0:
                        ks.add(par.right.value)
                    else:
                        return None
        return ks.pop() if len(ks) == 1 else None

    @staticmethod
    def _subst_quotient(x: ast.AST, var: str) -> ast.AST:
        import copy

        class R(ast.NodeTransformer):
            def visit_BinOp(self, node: ast.BinOp) -> ast.AST:
                if isinstance(node.op, ast.FloorDiv) and isinstance(node.left, ast.Name) and node.left.id == var:
                    return ast.copy_location(ast.Name(var, ast.Load()), node)
                return self.generic_visit(node)

        return ast.fix_missing_locations(R().visit(copy.deepcopy(x)))

    def dictcomp(self, e: ast.DictComp, env: dict, f: Func, depth: int, w: str) -> DictVal:
        if len(e.generators) != 1 or e.generators[0].ifs:
            raise AnalysisError(f"{w}: dictionary comprehension with filters or several generators")
        g = e.generators[0]
        it = g.iter
        # `{k: A if i < K else B for i, k in enumerate(S)}`: two consecutive slices of S with their own address expression
        if isinstance(e.value, ast.IfExp) and isinstance(it, ast.Call) and isinstance(it.func, ast.Name) and it.func.id == "enumerate" and len(it.args) == 1 \
                and not it.keywords and isinstance(g.target, ast.Tuple) and len(g.target.elts) == 2 and isinstance(g.target.elts[0], ast.Name):
            t_ = e.value.test
            iv = g.target.elts[0].id
            if isinstance(t_, ast.Compare) and len(t_.ops) == 1 and isinstance(t_.left, ast.Name) and t_.left.id == iv \
                    and isinstance(t_.comparators[0], ast.Constant) and isinstance(t_.comparators[0].value, int):
                kc = t_.comparators[0].value
                split = {ast.Lt: (kc, True), ast.LtE: (kc + 1, True), ast.GtE: (kc, False), ast.Gt: (kc + 1, False)}.get(type(t_.ops[0]))
                if split is not None and split[0] >= 0:
                    k_, first_is_body = split
                    lo_v, hi_v = (e.value.body, e.value.orelse) if first_is_body else (e.value.orelse, e.value.body)
                    S = it.args[0]
                    c = ast.Constant
                    first = ast.DictComp(e.key, lo_v, [ast.comprehension(g.target, ast.Call(it.func, [ast.Subscript(S, ast.Slice(c(0), c(k_), None), ast.Load())], []), [], 0)])
                    rest = ast.DictComp(e.key, hi_v, [ast.comprehension(g.target, ast.Call(it.func, [ast.Subscript(S, ast.Slice(c(k_), None, None), ast.Load()), c(k_)], []), [], 0)])
                    a_ = self.dictcomp(ast.fix_missing_locations(first), env, f, depth, w)
                    b_ = self.dictcomp(ast.fix_missing_locations(rest), env, f, depth, w)
                    return DictVal([*a_.segs, *b_.segs])
        sub = dict(env)
        keyvar = None
        seq: SeqVal | None = None
        if isinstance(it, ast.Call) and isinstance(it.func, ast.Name) and it.func.id == "enumerate" and isinstance(g.target, ast.Tuple) and len(g.target.elts) == 2:
            seq = self.seq(self.eval(it.args[0], env, f, depth), w)
            start = Form.of(0)
            if len(it.args) > 1:
                start = self.form(self.eval(it.args[1], env, f, depth), w)
            for k in it.keywords:
                if k.arg == "start":
                    start = self.form(self.eval(k.value, env, f, depth), w)
            idx, kv = g.target.elts
            if not (isinstance(idx, ast.Name) and isinstance(kv, ast.Name)):
                raise AnalysisError(f"{w}: unsupported comprehension target")
            sub[idx.id] = start + Form({IDX: 1}, 0)
            keyvar = kv.id
            count = self.length(seq)
            ctext = f"len({seq.text})"
        elif isinstance(g.target, ast.Name) and isinstance(rv := self.eval(it, env, f, depth), RangeVal):
            lo, count = rv.lo, rv.count
            key_e, val_e = e.key, e.value
            # `i // K` everywhere: the comprehension really ranges over the quotient
            k_div = self._quotient_only(g.target.id, [e.key, e.value])
            if k_div is not None and lo.is_const() and lo.const == 0:
                key_e, val_e = (self._subst_quotient(x, g.target.id) for x in (e.key, e.value))
                if count.is_const():
                    count = Form.of(-(-count.const // k_div))
                elif count.single() is not None:
                    count = self.tab.ceildiv(count.single(), k_div)
                else:
                    count = self.form(Opaque(f"ceildiv({count.show()},{k_div})"), w)
                e = ast.DictComp(key=key_e, value=val_e, generators=e.generators)
            sub[g.target.id] = lo + Form({IDX: 1}, 0)
            ctext = count.show()
        else:
            raise AnalysisError(f"{w}: unsupported comprehension iterator {ast.unparse(it)[:60]}")
        val = self.form(self.eval(e.value, sub, f, depth), w)
        idx_names = {n.id for n in ast.walk(g.target) if isinstance(n, ast.Name)} - ({keyvar} if keyvar else set())
        for sym in val.coef:
            # an address that depends on the index through something that is not a linear form cannot be placed
            if sym != IDX and isinstance(sym, str) and sym.startswith("opaque(") and any(re.search(rf"\b{re.escape(n)}\b", sym) for n in idx_names):
                raise AnalysisError(f"{w}: the address {ast.unparse(e.value)[:80]} is not a linear form of the position")
        stride = val.coef.get(IDX, 0)
        lo_form = Form({k: v for k, v in val.coef.items() if k != IDX}, val.const)
        if isinstance(e.key, ast.Name) and e.key.id == keyvar and seq is not None:
            keys = ("seq", seq.text, seq.lo, seq.hi)
        elif isinstance(e.key, ast.JoinedStr):
            tmpl = ""
            uses_idx = False
            for part in e.key.values:
                if isinstance(part, ast.Constant):
                    tmpl += str(part.value)
                else:
                    inner = part.value if isinstance(part, ast.FormattedValue) else part
                    names = {n.id for n in ast.walk(inner) if isinstance(n, ast.Name)}
                    tv = g.target.id if isinstance(g.target, ast.Name) else None
                    targets = {n.id for n in ast.walk(g.target) if isinstance(n, ast.Name)}
                    if names & targets:
                        uses_idx = True
                        tmpl += "{}" if (isinstance(inner, ast.Name)) else "{" + ast.unparse(inner) + "}"
                    else:
                        tmpl += "{" + ast.unparse(inner) + "}"
            if not uses_idx:
                raise AnalysisError(f"{w}: comprehension key {ast.unparse(e.key)} does not depend on the loop variable")
            keys = ("fmt", tmpl, ctext)
        else:
            raise AnalysisError(f"{w}: unsupported comprehension key {ast.unparse(e.key)[:60]}")
        return DictVal([Seg(keys, lo_form, count, stride, w)])

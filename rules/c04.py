"""C04 — CSR lowering writes every field to its declared register (DESIGN.md section 5, C04).

Decides, for every concrete accelerator class and symbolically in its configuration, that the
register map is injective and names the same fields the setup/launch ops carry; that the lowering
functions look up each field's own address and write its own value exactly once, in order; that
every await polls the declared barrier; that the pass lowers all three op kinds before it erases
declarations and state values; and the RoCC partner-operand discipline.  Does not decide run-time
register contents (that needs C07's state inference to be right) nor hardware address conventions
that are not stated in the code.
"""

from __future__ import annotations

import ast
import re

from sa import norm
from sa.addrmap import AccOpVal, AddrInterp, DictVal, Seg
from sa.errors import AnalysisError
from sa.flow import Flow
from sa.linform import Form, SymTab, witnesses
from sa.model import Cls, Func, Repo
from sa.norm import T
from sa.report import Check

from .common import callee_name, flow_of, has_fact, kwarg

ACCEL = "snaxc/accelerators/accelerator.py"
SNAX = "snaxc/accelerators/snax.py"
ROCC = "snaxc/accelerators/rocc.py"
PASS = "snaxc/transforms/convert_accfg_to_csr.py"

# Hardware-interface constant, frozen with its reason: the SNAX streamer wrapper places one busy register
# and one performance counter directly behind the streamer launch CSR (snax.py get_streamer_launch_dict,
# "1 busy register + 1 performance counter after launch field").  Nothing else may be mapped there.
RESERVED_AFTER = {"SNAXStreamer.get_streamer_launch_dict": (2, "streamer busy register + performance counter")}


def run(repo: Repo, chk: Check) -> None:
    chk.explanation = (
        "F1 with linear forms: generate_acc_op of every concrete accelerator is abstractly interpreted into address "
        "segments (first address, count, stride as linear forms over configuration symbols); all pairs of segments "
        "(setup fields, launch registers, reserved status registers, barrier) are proved disjoint by interval "
        "arithmetic on the difference form, and a pair that cannot be proved is searched for a concrete colliding "
        "configuration, which is then reported.  Key sets are compared with the declared field tuples.  F3/F5 on the "
        "lowering functions (own field -> own address -> own value, one write per field, in order), the barriers, "
        "the pass structure, DeleteAllStates' three carriers and the RoCC partner retracing."
    )
    register_maps(repo, chk)
    lowering(repo, chk)
    awaits(repo, chk)
    pass_structure(repo, chk)
    state_erasure(repo, chk)
    rocc(repo, chk)
    retrace_intact(repo, chk)
    registry_binding(repo, chk)


# --------------------------------------------------------------------------- the accelerator registered under a name is the one built for it
def registry_binding(repo: Repo, chk: Check) -> None:
    chk.rule(
        "C04.registry-binding",
        "a factory handed to AccContext.register_accelerator inside a loop does not capture a per-iteration variable by reference (closures bind "
        "late: every registered name would return the accelerator of the LAST iteration, and its ops would be lowered with a foreign register "
        "map); the value is bound when the factory is created (default argument, functools.partial, a class / function object)",
        floor=1,
    )
    n = 0
    funcs = list(repo.all_funcs()) + [m for c in repo.all_classes() for m in c.methods.values()]
    for f in funcs:
        regs = [c for c in ast.walk(f.node) if isinstance(c, ast.Call) and callee_name(c) == "register_accelerator" and len(c.args) >= 2]
        if not regs:
            continue
        chk.analysed(f.key)
        parents: dict[int, ast.AST] = {}
        for nd in ast.walk(f.node):
            for ch in ast.iter_child_nodes(nd):
                parents[id(ch)] = nd
        for c in regs:
            loops = []
            cur = parents.get(id(c))
            while cur is not None:
                if isinstance(cur, (ast.For, ast.While)):
                    loops.append(cur)
                cur = parents.get(id(cur))
            fac = c.args[1]
            n += 1
            key = f"{f.key}:register@{c.lineno}"
            if not isinstance(fac, ast.Lambda) or not loops:
                chk.ok("C04.registry-binding", key, f"{f.module.relpath}:{c.lineno}", "the factory is not a closure created in a loop", nontrivial=bool(loops))
                continue
            own = {a.arg for a in (*fac.args.posonlyargs, *fac.args.args, *fac.args.kwonlyargs)}
            free = {x.id for x in ast.walk(fac.body) if isinstance(x, ast.Name) and isinstance(x.ctx, ast.Load)} - own
            per_iter: set[str] = set()
            for l in loops:
                for x in ast.walk(l):
                    if isinstance(x, ast.Name) and isinstance(x.ctx, ast.Store):
                        per_iter.add(x.id)
            late = sorted(free & per_iter)
            chk.result(not late, "C04.registry-binding", key, f"{f.module.relpath}:{c.lineno}",
                       "the per-iteration value is bound when the factory is created",
                       f"the factory `{ast.unparse(fac)[:60]}` reads {late} when it is CALLED, i.e. after the loop has finished: every accelerator name registered "
                       "in this loop resolves to the accelerator of the last iteration")
    if n == 0:
        raise AnalysisError("no call of register_accelerator found in the analysed tree")


# --------------------------------------------------------------------------- register maps
def _concrete_accelerators(repo: Repo) -> list[Cls]:
    base = repo.cls(ACCEL, "Accelerator")
    return [c for c in repo.subclasses(base) if not repo.is_abstract(c) and not any("ABC" in ast.unparse(b) for b in c.node.bases)]


def _xdma_min_fields(repo: Repo, c: Cls) -> tuple[int, str] | None:
    """lower bound on len(streamer_setup_fields) of a DMA-extension accelerator: 2 pointer fields per
    streamer (first loop of get_xdma_streamer_setup_fields) times the 2 streamers its __init__ asserts"""
    f = repo.find_method(c, "get_xdma_streamer_setup_fields")
    init = repo.find_method(c, "__init__")
    if f is None or init is None:
        return None
    two = any(isinstance(n, ast.Assert) and norm.contains(n.test, T("$x.size() == 2")) for n in ast.walk(init.node))
    loops = [s for s in f.node.body if isinstance(s, ast.For)]
    if not two or not loops:
        return None
    first = loops[0]
    if not norm.contains(first.iter, T("self.streamer_config.data.streamers")):
        return None
    n = 0
    for st in first.body:
        if isinstance(st, ast.Expr) and isinstance(st.value, ast.Call) and callee_name(st.value) == "extend" and st.value.args and isinstance(st.value.args[0], (ast.List, ast.Tuple)):
            n += len(st.value.args[0].elts)
        elif isinstance(st, ast.Expr) and isinstance(st.value, ast.Call) and callee_name(st.value) == "append":
            n += 1
        else:
            return None
    return 2 * n, f"{f.where}: {n} unconditional pointer fields per streamer, two streamers asserted in {init.where}"


def _fields_decl(repo: Repo, c: Cls, attr: str) -> tuple[ast.expr, str] | None:
    for k in repo.mro(c):
        init = k.methods.get("__init__")
        if init is not None:
            for n in ast.walk(init.node):
                if isinstance(n, ast.Assign) and isinstance(n.targets[0], ast.Attribute) and ast.unparse(n.targets[0]) == f"self.{attr}":
                    return n.value, f"{k.module.relpath}:{n.lineno}"
        if attr in k.consts:
            return k.consts[attr], f"{k.module.relpath}:{k.consts[attr].lineno}"
    return None


def _decl_keys(e: ast.expr, it: AddrInterp, f: Func) -> list[tuple] | None:
    """key descriptors of a declared field tuple, in the vocabulary of addrmap.Seg.keys"""
    if isinstance(e, ast.Attribute) and isinstance(e.value, ast.Name) and e.value.id == "self":
        return [("seq", ast.unparse(e), 0, None)]
    if not isinstance(e, (ast.Tuple, ast.List)):
        return None
    out: list[tuple] = []
    for x in e.elts:
        if isinstance(x, ast.Constant) and isinstance(x.value, str):
            out.append(("lit", x.value))
        elif isinstance(x, ast.Starred):
            v = x.value
            if isinstance(v, ast.Attribute) and isinstance(v.value, ast.Name) and v.value.id == "self":
                out.append(("seq", ast.unparse(v), 0, None))
            elif isinstance(v, (ast.GeneratorExp, ast.ListComp)) and len(v.generators) == 1 and not v.generators[0].ifs and isinstance(v.elt, ast.JoinedStr):
                g = v.generators[0]
                if not (isinstance(g.iter, ast.Call) and callee_name(g.iter) == "range" and len(g.iter.args) == 1 and isinstance(g.target, ast.Name)):
                    return None
                cnt = it.form(it.eval(g.iter.args[0], {}, f, 2), f.where)
                tmpl = ""
                for part in v.elt.values:
                    if isinstance(part, ast.Constant):
                        tmpl += str(part.value)
                    else:
                        inner = part.value if isinstance(part, ast.FormattedValue) else part
                        tmpl += "{}" if isinstance(inner, ast.Name) and inner.id == g.target.id else "{" + ast.unparse(inner) + "}"
                out.append(("fmt", tmpl, cnt.show()))
            else:
                return None
        else:
            return None
    return out


def _merge_slices(keys: list[tuple]) -> list[tuple]:
    """adjacent slices x[0:k], x[k:] of one sequence are the whole sequence"""
    out: list[tuple] = []
    by: dict[str, list[tuple]] = {}
    for k in keys:
        if k[0] == "seq":
            by.setdefault(k[1], []).append(k)
    done: set[str] = set()
    for k in keys:
        if k[0] != "seq":
            out.append(k)
            continue
        if k[1] in done:
            continue
        parts = sorted(by[k[1]], key=lambda s: s[2])
        pos, whole = 0, True
        for p in parts:
            if p[2] != pos:
                whole = False
            pos = p[3] if p[3] is not None else None
            if pos is None and p is not parts[-1]:
                whole = False
        if whole and pos is None:
            out.append(("seq", k[1], 0, None))
            done.add(k[1])
        else:
            out.append(k)
    return out


def _klabel(k: tuple) -> str:
    return Seg(k, Form.of(0), Form.of(1), 1, "").label()


def register_maps(repo: Repo, chk: Check) -> None:
    chk.rule(
        "C04.injective",
        "per accelerator, symbolically in the configuration: every pair of address segments (setup fields, launch "
        "registers, the two reserved streamer status registers, the barrier) is disjoint; consecutive keys of one "
        "segment get distinct addresses",
        floor=40,
    )
    chk.rule("C04.names", "the keys of the declared address dictionaries are exactly the names the setup / launch ops carry (self.fields / self.launch_fields)", floor=8)
    chk.rule("C04.rocc-table", "instruction-configured accelerators: every instruction has both an .rs1 and an .rs2 entry with one funct7, and distinct instructions have distinct funct7 values", floor=1)
    accs = _concrete_accelerators(repo)
    if len(accs) < 6:
        raise AnalysisError(f"only {len(accs)} concrete accelerator classes found (6 confirmed by reading)")
    for c in accs:
        g = repo.find_method(c, "generate_acc_op")
        if g is None:
            raise AnalysisError(f"{c.where}: no generate_acc_op")
        tab = SymTab()
        it = AddrInterp(repo, c, tab, RESERVED_AFTER)
        v = it.call(g, [], {}, 6)
        chk.analysed(*it.analysed)
        for a in sorted(set(it.assumptions)):
            if a not in chk.assumptions:
                chk.assumptions.append(a)
        if not isinstance(v, AccOpVal):
            raise AnalysisError(f"{g.where}: generate_acc_op does not return an AcceleratorOp the interpreter can follow")
        base_key = f"{c.module.relpath}:{c.name}"
        if v.fields.ident is not None or v.launch.ident is not None:
            _rocc_table(repo, chk, c, v, base_key)
            continue
        # bounds the slice model relies on
        for sym, need in it.slice_needs.items():
            lb = _xdma_min_fields(repo, c) if sym == "len(self.streamer_setup_fields)" else None
            if lb is None or lb[0] < need:
                raise AnalysisError(f"{g.where}: slices of {sym} assume at least {need} elements and no lower bound could be derived")
            tab.raise_lb(sym, lb[0], lb[1])
            note = f"{c.name}: {sym} >= {lb[0]} ({lb[1]})"
            if note not in chk.assumptions:
                chk.assumptions.append(note)
        segs: list[Seg] = []
        for kind, d in (("field", v.fields), ("launch", v.launch)):
            for s in d.segs:
                s.kind = kind
                segs.append(s)
            segs.extend(d.reserved)
        assert v.barrier is not None
        segs.append(Seg(("lit", "<barrier>"), v.barrier, Form.of(1), 1, v.where, "barrier"))
        _injective(chk, tab, c, base_key, segs)
        _names(repo, chk, c, it, g, v, base_key)


def _concrete(s: Seg, val: dict[str, int]) -> list[int]:
    n = s.count.eval(val)
    lo = s.lo.eval(val)
    return [lo + i * s.stride for i in range(max(n, 0))]


def _injective(chk: Check, tab: SymTab, c: Cls, base_key: str, segs: list[Seg]) -> None:
    # within a segment
    for s in segs:
        key = f"{base_key}:{s.label()}:stride"
        single = (s.count - 1).nonneg(tab) and (-(s.count - 1)).nonneg(tab)
        if s.stride >= 1 or single:
            chk.ok("C04.injective", key, s.where, f"{s.kind} segment {s.label()}: consecutive keys are {s.stride} address(es) apart", nontrivial=not single)
        else:
            chk.bad("C04.injective", key, s.where, f"{s.kind} segment {s.label()} gives every key the address {s.lo.show()} + {s.stride}*i: keys of this segment share a register")
    # all pairs
    for i, a in enumerate(segs):
        for b in segs[i + 1:]:
            key = f"{base_key}:{a.label()}|{b.label()}"
            where = b.where
            d1, d2 = b.lo - a.hi(), a.lo - b.hi()
            # hi() is only meaningful for count >= 1; an empty segment cannot collide
            if d1.nonneg(tab) or d2.nonneg(tab):
                form = d1 if d1.nonneg(tab) else d2
                chk.ok("C04.injective", key, where, f"{a.label()} and {b.label()} are disjoint for every configuration: gap form {form.show()} >= 0",
                       facts=[f"{a.label()}: [{a.lo.show()}, +{a.count.show()})", f"{b.label()}: [{b.lo.show()}, +{b.count.show()})"])
                continue
            names = set(d1.coef) | set(a.count.coef) | set(b.count.coef)
            hit = None
            n_wit = 0
            for val in witnesses(tab, names):
                n_wit += 1
                sa_, sb_ = _concrete(a, val), _concrete(b, val)
                common = set(sa_) & set(sb_)
                if common:
                    addr = min(common)
                    base = {k: x for k, x in val.items() if k in tab.base_symbols(names)}
                    hit = (addr, sa_.index(addr), sb_.index(addr), base)
                    break
            if hit is not None:
                addr, ia, ib, base = hit
                cfg = ", ".join(f"{k}={x}" for k, x in sorted(base.items()))
                chk.bad("C04.injective", key, where,
                        f"{c.name}: with {cfg} element {ia} of {a.kind} segment {a.label()} and element {ib} of {b.kind} segment {b.label()} "
                        f"are both mapped to CSR {hex(addr)}",
                        facts=[f"{a.label()}: first address {a.lo.show()}, count {a.count.show()} ({a.where})",
                               f"{b.label()}: first address {b.lo.show()}, count {b.count.show()} ({b.where})",
                               f"neither {d1.show()} >= 0 nor {d2.show()} >= 0 holds for all configurations"])
            elif n_wit == 0:
                # neither an interval argument nor a single configuration to try: an address expression this interpreter does not model
                raise AnalysisError(f"{where}: {c.name}: whether {a.label()} and {b.label()} share a register is neither proved nor could any configuration be tried "
                                    f"({d1.show()} / {d2.show()})")
            else:
                chk.undecided.append(f"C04.injective {key}: disjointness neither proved nor refuted ({d1.show()} / {d2.show()})")
                chk.ok("C04.injective", key, where, f"{a.label()} / {b.label()}: not provable by interval reasoning, no colliding configuration among the enumerated ones", nontrivial=False)


def _names(repo: Repo, chk: Check, c: Cls, it: AddrInterp, g: Func, v: AccOpVal, base_key: str) -> None:
    for attr, d in (("fields", v.fields), ("launch_fields", v.launch)):
        decl = _fields_decl(repo, c, attr)
        key = f"{base_key}:{attr}"
        if decl is None:
            raise AnalysisError(f"{c.where}: no declaration of self.{attr} found")
        e, where = decl
        # a declaration that is itself a reference to a builder result: resolve one step (`self.fields = self.streamer_setup_fields`)
        dk = _decl_keys(e, it, g)
        if dk is None:
            raise AnalysisError(f"{where}: declared {attr} tuple not understood: {ast.unparse(e)[:80]}")
        mk = _merge_slices([s.keys for s in d.segs])
        a = sorted(_klabel(k) for k in dk)
        b = sorted(_klabel(k) for k in mk)
        missing = [x for x in a if x not in b]
        extra = [x for x in b if x not in a]
        dups = sorted({x for x in b if b.count(x) > 1})
        chk.result(
            not missing and not extra and not dups, "C04.names", key, where,
            f"{c.name}.{attr}: {len(a)} key group(s) agree with the address dictionary of generate_acc_op",
            f"{c.name}.{attr}: declared but without address: {missing}; addressed but not declared: {extra}; addressed twice: {dups}",
            facts=[f"declared: {a}", f"addressed: {b}"],
        )


def _rocc_table(repo: Repo, chk: Check, c: Cls, v: AccOpVal, base_key: str) -> None:
    for attr in ("fields", "launch_fields"):
        fc = repo.find_const(c, attr)
        if fc is None or not isinstance(fc[1], ast.Dict):
            raise AnalysisError(f"{c.where}: {attr} is not a literal dictionary")
        table: dict[str, dict[str, int]] = {}
        problems: list[str] = []
        for k, val in zip(fc[1].keys, fc[1].values):
            if not (isinstance(k, ast.Constant) and isinstance(k.value, str) and isinstance(val, ast.Constant) and isinstance(val.value, int)):
                raise AnalysisError(f"{c.where}: non-literal entry in {attr}")
            if k.value[-4:] not in (".rs1", ".rs2"):
                problems.append(f"{k.value!r} is neither an .rs1 nor an .rs2 field")
                continue
            if k.value[-4:] in table.setdefault(k.value[:-4], {}):
                problems.append(f"{k.value!r} listed twice")
            table[k.value[:-4]][k.value[-4:]] = val.value
        seen: dict[int, str] = {}
        for ins, d in table.items():
            if set(d) != {".rs1", ".rs2"}:
                problems.append(f"instruction {ins} lacks {sorted({'.rs1', '.rs2'} - set(d))}")
            elif d[".rs1"] != d[".rs2"]:
                problems.append(f"instruction {ins}: .rs1 has funct7 {d['.rs1']} but .rs2 has {d['.rs2']}")
            f7 = d.get(".rs1")
            if f7 is not None:
                if f7 in seen:
                    problems.append(f"instructions {seen[f7]} and {ins} share funct7 {f7}")
                seen[f7] = ins
        chk.result(not problems, "C04.rocc-table", f"{base_key}:{attr}", f"{fc[0].module.relpath}:{fc[1].lineno}",
                   f"{c.name}.{attr}: {len(table)} instruction(s), each with both source fields and its own funct7", "; ".join(problems))
    # across the two tables
    both: dict[int, str] = {}
    clash = []
    for attr in ("fields", "launch_fields"):
        fc = repo.find_const(c, attr)
        assert fc is not None and isinstance(fc[1], ast.Dict)
        for k, val in zip(fc[1].keys, fc[1].values):
            assert isinstance(k, ast.Constant) and isinstance(val, ast.Constant)
            ins = k.value[:-4]
            if val.value in both and both[val.value] != ins:
                clash.append(f"{both[val.value]} and {ins} share funct7 {val.value}")
            both[val.value] = ins
    chk.result(not clash, "C04.rocc-table", f"{base_key}:setup-vs-launch", c.where, f"{c.name}: setup and launch instructions use distinct funct7 values", "; ".join(clash))


# --------------------------------------------------------------------------- lowering functions
CSR_ASM = re.compile(r"^\s*(csrw|csrr)\s+\$(\d)\s*,\s*\$(\d)\s*$")


def _asm_calls(f: Func):
    for n in ast.walk(f.node):
        if isinstance(n, ast.Call) and callee_name(n) == "InlineAsmOp" and n.args and isinstance(n.args[0], ast.Constant) and isinstance(n.args[0].value, str):
            yield n, n.args[0].value


def _asm_sites(fl: Flow):
    """(site, literal) of every inline-asm construction the walker reaches: in the function itself or in a helper it walked through"""
    for s in fl.sites:
        n = s.node
        if s.reachable and isinstance(n, ast.Call) and callee_name(n) == "InlineAsmOp" and n.args and isinstance(n.args[0], ast.Constant) and isinstance(n.args[0].value, str):
            yield s, n.args[0].value


MANY = 9


def _write_counts(repo: Repo, f: Func, stmts: list[ast.stmt], depth: int = 0) -> set[int]:
    """how many `csrw` constructions one execution of `stmts` can perform: the set of possible counts over all paths (MANY = inside a
    nested loop / comprehension). asserts do not branch; raise ends a path without a count; helpers are followed"""
    fall, done = _wc(repo, f, stmts, depth)
    return fall | done


def _wc(repo: Repo, f: Func, stmts: list[ast.stmt], depth: int) -> tuple[set[int], set[int]]:
    """(counts of the paths that fall off the end, counts of the paths ended by return / continue / break)"""

    def add(xs: set[int], ys: set[int]) -> set[int]:
        return {min(MANY, x + y) for x in xs for y in ys}

    def expr_counts(e: ast.AST) -> set[int]:
        total = {0}
        stack = [e]
        while stack:
            n = stack.pop()
            if isinstance(n, (ast.ListComp, ast.SetComp, ast.DictComp, ast.GeneratorExp, ast.Lambda)):
                if _write_counts_expr_has(repo, f, n, depth):
                    total = {MANY}
                continue
            if isinstance(n, ast.IfExp):
                total = add(total, expr_counts(n.body) | expr_counts(n.orelse))
                stack.append(n.test)
                continue
            if isinstance(n, ast.Call):
                total = add(total, _call_counts(repo, f, n, depth))
            stack.extend(ast.iter_child_nodes(n))
        return total

    acc = {0}
    done: set[int] = set()
    for st in stmts:
        if not acc:
            break
        if isinstance(st, (ast.FunctionDef, ast.AsyncFunctionDef, ast.ClassDef, ast.Pass, ast.Import, ast.ImportFrom, ast.Global, ast.Nonlocal, ast.Assert)):
            continue
        if isinstance(st, ast.Raise):
            return set(), done  # the path ends in an exception
        if isinstance(st, (ast.Return, ast.Continue, ast.Break)):
            c = expr_counts(st.value) if isinstance(st, ast.Return) and st.value is not None else {0}
            return set(), done | add(acc, c)
        if isinstance(st, ast.If):
            t = expr_counts(st.test)
            fa, da = _wc(repo, f, st.body, depth)
            fb, db = _wc(repo, f, st.orelse, depth) if st.orelse else ({0}, set())
            base = add(acc, t)
            done |= add(base, da | db)
            acc = add(base, fa | fb)
            continue
        if isinstance(st, (ast.For, ast.While)):
            fb_, db_ = _wc(repo, f, st.body, depth)
            if any(c > 0 for c in fb_ | db_):
                acc = {MANY}
            continue
        if isinstance(st, ast.Try):
            parts = [st.body, *[h.body for h in st.handlers], st.orelse, st.finalbody]
            if any(c > 0 for part in parts for c in _write_counts(repo, f, part, depth)):
                acc = {MANY}
            continue
        if isinstance(st, ast.With):
            fw, dw = _wc(repo, f, st.body, depth)
            done |= add(acc, dw)
            acc = add(acc, fw)
            continue
        acc = add(acc, expr_counts(st))
    return acc, done


def _write_counts_expr_has(repo: Repo, f: Func, e: ast.AST, depth: int) -> bool:
    return any(isinstance(n, ast.Call) and any(c > 0 for c in _call_counts(repo, f, n, depth)) for n in ast.walk(e))


def _call_counts(repo: Repo, f: Func, call: ast.Call, depth: int) -> set[int]:
    if callee_name(call) == "InlineAsmOp" and call.args and isinstance(call.args[0], ast.Constant) and isinstance(call.args[0].value, str):
        m = CSR_ASM.match(call.args[0].value)
        return {1} if m is not None and m.group(1) == "csrw" else {0}
    if depth >= 3 or not isinstance(call.func, ast.Name):
        return {0}
    h = None
    try:
        h = f.nested(call.func.id)
    except AnalysisError:
        h = f.module.funcs.get(call.func.id)
        if h is None and call.func.id in f.module.imports:
            obj = repo.lookup_dotted(f.module.imports[call.func.id])
            h = obj if isinstance(obj, Func) else None
    if h is None or h.node is f.node:
        return {0}
    c = _write_counts(repo, h, h.node.body, depth + 1)
    return c or {0}


def _definers(repo: Repo, name: str) -> list[Func]:
    out = []
    for c in repo.all_classes():
        f = c.methods.get(name)
        if f is not None and not repo_is_stub(f):
            out.append(f)
    return out


def repo_is_stub(f: Func) -> bool:
    body = [s for s in f.node.body if not (isinstance(s, ast.Expr) and isinstance(s.value, ast.Constant))]
    return len(body) == 1 and isinstance(body[0], ast.Raise)


def _enclosing_chain(root: ast.AST, target: ast.AST) -> list[ast.AST] | None:
    if root is target:
        return [root]
    for ch in ast.iter_child_nodes(root):
        sub = _enclosing_chain(ch, target)
        if sub is not None:
            return [root, *sub]
    return None


def lowering(repo: Repo, chk: Check) -> None:
    chk.rule(
        "C04.setup-lowering",
        "in every CSR lowering of a setup / launch op: inside the loop over the op's own iter_params() exactly one unconditional "
        "`csrw` is constructed per field; its address operand is the accelerator declaration's (launch_)field_items() entry "
        "indexed by the loop's own field name, its value operand derives from the loop's own value",
        floor=2,
    )
    chk.rule("C04.program-order", "the lowering returns the writes in iteration order: the returned list is only appended to, never sorted, reversed or inserted into", floor=2)
    n_csr = 0
    for kind, items in (("setup", "field_items"), ("launch", "launch_field_items")):
        for f in _definers(repo, f"lower_acc_{kind}"):
            fl = Flow(f, repo)
            asm = [(x, lit) for x, lit in _asm_sites(fl) if CSR_ASM.match(lit)]
            in_source = any(CSR_ASM.match(lit) for _, lit in _asm_calls(f))
            if not asm and not in_source:
                continue  # instruction-configured accelerators: C04.rocc-pairs
            n_csr += 1
            chk.analysed(f.key)
            key = f"{f.module.relpath}:{f.qualname}"
            params = [p for p in f.params if p not in ("self", "cls")]
            if len(params) < 2:
                raise AnalysisError(f"{f.where}: expected (op, acc_op) parameters")
            op_p, acc_p = params[0], params[1]
            loops = [n for n in ast.walk(f.node) if isinstance(n, ast.For) and norm.match(T(f"{op_p}.iter_params()"), n.iter) is not None]
            if not loops:
                _keyed_lowering(chk, f, fl, key, op_p, acc_p)
                continue
            if not asm:
                raise AnalysisError(f"{f.where}: the CSR accesses of this lowering are not reached by the walker")
            if len(loops) != 1 or not (isinstance(loops[0].target, ast.Tuple) and len(loops[0].target.elts) == 2 and all(isinstance(x, ast.Name) for x in loops[0].target.elts)):
                chk.bad("C04.setup-lowering", f"{key}:loop", f.where, f"expected exactly one `for field, val in {op_p}.iter_params()` loop, found {len(loops)}")
                continue
            loop = loops[0]
            fname, vname = (x.id for x in loop.target.elts)  # type: ignore[union-attr]
            inloop = [(x, lit) for x, lit in asm if any(l is loop for l in x.loops)]
            outside = [(x, lit) for x, lit in asm if not any(l is loop for l in x.loops)]
            writes = [(x, lit) for x, lit in inloop if CSR_ASM.match(lit).group(1) == "csrw"]  # type: ignore[union-attr]
            where = f"{f.module.relpath}:{loop.lineno}"
            # exactly one write on every path through one iteration (helpers followed, asserts do not branch)
            counts = _write_counts(repo, f, loop.body)
            if not writes or outside:
                chk.bad("C04.setup-lowering", f"{key}:one-write", where,
                        f"{len(writes)} csrw construction(s) per field inside the loop and {len(outside)} CSR access(es) outside it; exactly one write per configured field is required")
                continue
            chk.result(counts == {1}, "C04.setup-lowering", f"{key}:one-write", where,
                       "one csrw on every path through an iteration of the field loop",
                       f"an iteration of the field loop performs {sorted('several' if c == MANY else c for c in counts) if counts else 'no'} csrw construction(s) depending on the path: "
                       "some fields get no write or several")
            if counts != {1}:
                continue
            # the alternatives of an if/else each build their own csrw: every one of them is judged (keys numbered from the second on)
            for wi, (site, s_lit) in enumerate(writes):
                sfx = "" if wi == 0 else f"#{wi + 1}"
                call = site.node
                assert isinstance(call, ast.Call)
                m = CSR_ASM.match(s_lit)
                assert m is not None
                ai, vi = int(m.group(2)), int(m.group(3))
                ops = kwarg(call, "operands_", 2) or kwarg(call, "operands", 2)
                if not isinstance(ops, (ast.List, ast.Tuple)) or len(ops.elts) != 2 or {ai, vi} != {0, 1}:
                    chk.bad("C04.setup-lowering", f"{key}:operands{sfx}", f"{f.module.relpath}:{call.lineno}", f"csrw operand list not understood: {ast.unparse(ops) if ops is not None else None}")
                    continue
                acone = fl.cone(ops.elts[ai], site)
                vcone = fl.cone(ops.elts[vi], site)
                want = [f"dict({acc_p}.{items}())[$k]", f"dict($d.{items}())[$k]"]
                hits = []
                for t in want:
                    for _, mm in norm.find(T(t), acone):
                        hits.append(mm)
                own = [mm for mm in hits if fname in norm.free_names(mm["k"])]
                chk.result(bool(own), "C04.setup-lowering", f"{key}:address{sfx}", f"{f.module.relpath}:{call.lineno}",
                           f"address operand ${ai} is dict({acc_p}.{items}())[{fname}] — the declared address of the loop's own field",
                           f"address operand ${ai} does not derive from {acc_p}.{items}() indexed by the loop's field name `{fname}`: {ast.unparse(acone)[:200]}")
                other = "launch_field_items" if items == "field_items" else "field_items"
                wrong = norm.contains(acone, T(f"$d.{other}()"))
                chk.result(not wrong, "C04.setup-lowering", f"{key}:table{sfx}", f"{f.module.relpath}:{call.lineno}",
                           f"the {kind} lowering consults only {items}()", f"the {kind} lowering takes addresses from {other}()")
                vn = norm.free_names(vcone)
                elem = norm.contains(vcone, T(f"__elem__({op_p}.iter_params())[1]"))
                const_only = not (vname in vn or elem)
                chk.result(not const_only, "C04.setup-lowering", f"{key}:value{sfx}", f"{f.module.relpath}:{call.lineno}",
                           f"value operand ${vi} derives from the loop's own value `{vname}`",
                           f"value operand ${vi} does not depend on the loop's value `{vname}`: {ast.unparse(vcone)[:200]}")
                crossed = fname in norm.free_names(fl.cone(ops.elts[vi], site, inline=0)) and vname not in vn
                if crossed:
                    chk.bad("C04.setup-lowering", f"{key}:roles{sfx}", f"{f.module.relpath}:{call.lineno}", "address and value operands are exchanged")
            # program order
            rets = [n for n in ast.walk(f.node) if isinstance(n, ast.Return) and n.value is not None]
            bad_order = []
            for r in rets:
                roots = {n.id for n in ast.walk(r.value) if isinstance(n, ast.Name)}
                for n in ast.walk(f.node):
                    if isinstance(n, ast.Call):
                        cn = callee_name(n)
                        recv = n.func.value if isinstance(n.func, ast.Attribute) else None
                        if cn in ("sort", "reverse", "insert") and isinstance(recv, ast.Name) and recv.id in roots:
                            if cn == "insert" and n.args and norm.match(T(f"len({recv.id})"), n.args[0]) is not None:
                                continue
                            bad_order.append(f"{recv.id}.{cn}(...) at line {n.lineno}")
                        if cn in ("sorted", "reversed") and n.args and any(isinstance(x, ast.Name) and x.id in roots for x in ast.walk(n.args[0])):
                            bad_order.append(f"{cn}(...) at line {n.lineno}")
                    if isinstance(n, ast.Subscript) and isinstance(n.slice, ast.Slice) and n.slice.step is not None and isinstance(n.value, ast.Name) and n.value.id in roots:
                        bad_order.append(f"{n.value.id}[::step] at line {n.lineno}")
            chk.result(not bad_order, "C04.program-order", key, f.where, "the list of emitted ops is returned in construction (= field iteration) order",
                       f"the emitted ops are reordered before they are returned: {bad_order}")
    if n_csr < 2:
        raise AnalysisError(f"only {n_csr} CSR-style lowering function(s) found")


def _keyed_lowering(chk: Check, f: Func, fl: Flow, key: str, op_p: str, acc_p: str) -> None:
    """a lowering that addresses registers by explicit key instead of looping over the op's parameters (the gemmx
    per-channel launch): every CSR write goes to an address looked up in the declaration it was given, a value
    taken from the op's own parameters by name goes to the register declared under that same name, and the
    function defers to the generic lowering otherwise"""
    # write sites: direct InlineAsmOp constructions or calls of a local helper that forwards (addr, value)
    writes: list[tuple[ast.Call, ast.expr, ast.expr]] = []
    helpers: dict[str, tuple[int, int]] = {}
    for n in ast.walk(f.node):
        if isinstance(n, ast.FunctionDef) and n is not f.node:
            ps = [a.arg for a in n.args.args]
            for c, s in _asm_calls(Func(n.name, n.name, n, f.module, f.cls, f)):
                m = CSR_ASM.match(s)
                ops = kwarg(c, "operands_", 2) or kwarg(c, "operands", 2)
                if m and m.group(1) == "csrw" and isinstance(ops, (ast.List, ast.Tuple)) and len(ops.elts) == 2 and all(isinstance(x, ast.Name) and x.id in ps for x in ops.elts):
                    helpers[n.name] = (ps.index(ops.elts[int(m.group(2))].id), ps.index(ops.elts[int(m.group(3))].id))  # type: ignore[union-attr]
    nested_nodes = {id(x) for n in ast.walk(f.node) if isinstance(n, ast.FunctionDef) and n is not f.node for x in ast.walk(n)}
    for c, s in _asm_calls(f):
        m = CSR_ASM.match(s)
        if id(c) in nested_nodes or not m or m.group(1) != "csrw":
            continue
        ops = kwarg(c, "operands_", 2) or kwarg(c, "operands", 2)
        if isinstance(ops, (ast.List, ast.Tuple)) and len(ops.elts) == 2:
            writes.append((c, ops.elts[int(m.group(2))], ops.elts[int(m.group(3))]))
    for s in fl.sites:
        n = s.node
        if isinstance(n, ast.Call) and isinstance(n.func, ast.Name) and n.func.id in helpers and len(n.args) >= 2:
            ai, vi = helpers[n.func.id]
            writes.append((n, n.args[ai], n.args[vi]))
    if not writes:
        chk.bad("C04.setup-lowering", f"{key}:keyed", f.where, "CSR writes of this lowering could not be located")
        return
    defers = any(isinstance(n, ast.Return) and n.value is not None and norm.contains(n.value, T(f"super().{f.name}({op_p}, {acc_p})")) for n in ast.walk(f.node))
    chk.result(defers, "C04.setup-lowering", f"{key}:defers", f.where, "outside its special case the override defers to the generic lowering with the same op and declaration",
               "the override no longer defers to the generic lowering")
    seen: dict[str, int] = {}
    for call, a, v in writes:
        site = next((x for x in fl.sites if x.node is call), None)
        if site is None:
            raise AnalysisError(f"{f.where}: write site at line {call.lineno} not reached by the walker")
        # a write repeated for every group (channel block) the op is launched for must happen for EVERY group: the registers keep the last group's
        # values when the op has run, so a group whose writes are skipped (the first one, `already set up`) sees stale values as soon as the same
        # launch executes again without its setup in between (accfg-dedup hoists loop-invariant setup fields)
        for l in site.loops:
            if isinstance(l, ast.For) and isinstance(l.target, ast.Name):
                lv = l.target.id
                on_lv = [ast.unparse(fa.expr) for fa in site.facts if fa.kind in ("atom", "not") and lv in norm.free_names(fa.expr)]
                depends = lv in norm.free_names(fl.cone(v, site, inline=0)) or lv in norm.free_names(site.expand(v))
                if on_lv and depends:
                    chk.bad("C04.setup-lowering", f"{key}:every-group:{call.lineno}", f"{f.module.relpath}:{call.lineno}",
                            f"this write of a value selected by the loop variable `{lv}` only happens when {on_lv}: for the other iterations the register keeps what the previous "
                            "execution of the launch left in it (the last group's value)")
        acone, vcone = fl.cone(a, site, inline=0), fl.cone(v, site, inline=0)
        hits = [(tbl, m) for tbl in ("field_items", "launch_field_items") for _, m in norm.find(T(f"dict({acc_p}.{tbl}())[$k]"), acone)]
        ktxt = ast.unparse(norm.primary(hits[0][1]["k"])) if hits else "?"
        n_seen = seen[ktxt] = seen.get(ktxt, 0) + 1
        wkey = f"{key}:write:{ktxt}" + (f"#{n_seen}" if n_seen > 1 else "")
        where = f"{f.module.relpath}:{call.lineno}"
        if not hits:
            chk.bad("C04.setup-lowering", wkey, where, f"the address of this CSR write does not come from the declaration {acc_p}: {ast.unparse(acone)[:160]}")
            continue
        tbl, m = hits[0]
        vals = [mm for _, mm in norm.find(T(f"{{$f: $w for $f, $w in {op_p}.iter_params()}}[$k2]"), vcone)] + [mm for _, mm in norm.find(T(f"dict({op_p}.iter_params())[$k2]"), vcone)]
        if vals:
            k2 = ast.unparse(norm.primary(vals[0]["k2"]))
            launchy = op_p.startswith("launch") or "Launch" in (ast.unparse(f.node.args.args[1].annotation) if len(f.node.args.args) > 1 and f.node.args.args[1].annotation is not None else "")
            want_tbl = "launch_field_items" if launchy else "field_items"
            chk.result(k2 == ktxt and tbl == want_tbl, "C04.setup-lowering", wkey, where,
                       f"the op's own value {k2} is written to the register declared for {ktxt} in {tbl}()",
                       f"the op's value {k2} is written to the register declared for {ktxt} in {tbl}()")
        else:
            chk.ok("C04.setup-lowering", wkey, where, f"write to the address declared for {ktxt} in {tbl}() (value computed by the lowering itself)")


# --------------------------------------------------------------------------- barriers
def awaits(repo: Repo, chk: Check) -> None:
    chk.rule(
        "C04.await",
        "every lower_acc_await that reads a CSR reads the address `acc_op.barrier` of the declaration it is given; "
        "a barrier that writes instead iterates the declaration's launch_field_items() and writes to those addresses",
        floor=4,
    )
    for f in _definers(repo, "lower_acc_await"):
        chk.analysed(f.key)
        key = f"{f.module.relpath}:{f.qualname}"
        params = [p for p in f.params if p not in ("self", "cls")]
        if not params:
            raise AnalysisError(f"{f.where}: lower_acc_await without a declaration parameter")
        acc_p = params[0]
        fl = Flow(f, repo)
        asm = [(n, s) for n, s in _asm_calls(f) if CSR_ASM.match(s)]
        reads = [(n, s) for n, s in asm if CSR_ASM.match(s).group(1) == "csrr"]  # type: ignore[union-attr]
        writes = [(n, s) for n, s in asm if CSR_ASM.match(s).group(1) == "csrw"]  # type: ignore[union-attr]
        if not asm:
            rets = [n for n in ast.walk(f.node) if isinstance(n, ast.Return)]
            empty = all(isinstance(r.value, (ast.List, ast.Tuple)) and not r.value.elts for r in rets) and bool(rets)
            chk.result(empty, "C04.await", key, f.where, "no barrier exists for this (instruction-configured, synchronous) accelerator kind: nothing is emitted",
                       "neither a CSR access nor an empty result: barrier lowering not understood")
            continue
        for call, s in reads:
            m = CSR_ASM.match(s)
            assert m is not None
            # csrr $0 (result), $1 (address): the address is the single input operand
            ops = kwarg(call, "operands_", 2) or kwarg(call, "operands", 2)
            site = next((x for x in fl.sites if x.node is call), None)
            if not isinstance(ops, (ast.List, ast.Tuple)) or len(ops.elts) != 1 or site is None:
                chk.bad("C04.await", f"{key}:poll", f"{f.module.relpath}:{call.lineno}", "csrr operand list not understood")
                continue
            cone = fl.cone(ops.elts[0], site)
            chk.result(norm.contains(cone, T(f"{acc_p}.barrier")), "C04.await", f"{key}:poll", f"{f.module.relpath}:{call.lineno}",
                       f"the polled address is {acc_p}.barrier", f"the polled address does not derive from {acc_p}.barrier: {ast.unparse(cone)[:160]}")
        if not reads:
            # write-style barrier
            oks = []
            for call, s in writes:
                m = CSR_ASM.match(s)
                assert m is not None
                ops = kwarg(call, "operands_", 2) or kwarg(call, "operands", 2)
                site = next((x for x in fl.sites if x.node is call), None)
                if not isinstance(ops, (ast.List, ast.Tuple)) or len(ops.elts) != 2 or site is None:
                    oks.append(False)
                    continue
                cone = fl.cone(ops.elts[int(m.group(2))], site)
                oks.append(norm.contains(cone, T(f"__elem__({acc_p}.launch_field_items())[1]")))
            chk.result(bool(oks) and all(oks), "C04.await", f"{key}:write-barrier", f.where,
                       f"{len(oks)} barrier write(s), each to an address taken from {acc_p}.launch_field_items()",
                       f"a barrier write does not target an address from {acc_p}.launch_field_items()")


# --------------------------------------------------------------------------- pass structure
def _pattern_op_type(f: Func) -> str | None:
    a = [*f.node.args.posonlyargs, *f.node.args.args]
    if len(a) >= 2 and a[1].annotation is not None:
        return ast.unparse(a[1].annotation).split(".")[-1]
    return None


def pass_structure(repo: Repo, chk: Check) -> None:
    chk.rule(
        "C04.exhaustive",
        "ConvertAccfgToCsrPass lowers SetupOp, LaunchOp and AwaitOp in its first walker, each through the accelerator "
        "named by the op itself and by replacing the op in place with the accelerator's own lowering; declarations and "
        "state values are erased only by a later walker",
        floor=8,
    )
    mod = repo.module(PASS)
    apply = repo.func(PASS, "ConvertAccfgToCsrPass.apply")
    chk.analysed(apply.key)
    walkers = sorted((n for n in ast.walk(apply.node) if isinstance(n, ast.Call) and callee_name(n) == "PatternRewriteWalker"), key=lambda n: (n.lineno, n.col_offset))
    if len(walkers) < 2:
        chk.bad("C04.exhaustive", "walkers", apply.where, f"{len(walkers)} PatternRewriteWalker(s): lowering and erasure must be separate walks")
        return
    stages: list[list[str]] = []
    for w in walkers:
        names = [callee_name(n) for n in ast.walk(w) if isinstance(n, ast.Call) and callee_name(n) in mod.classes]
        stages.append([n for n in names if n])
    # every walker must actually run on the module
    ran = [n for n in ast.walk(apply.node) if isinstance(n, ast.Call) and callee_name(n) == "rewrite_module"]
    chk.result(len(ran) >= len(walkers), "C04.exhaustive", "walkers-run", apply.where, f"{len(walkers)} walkers, each applied with rewrite_module",
               f"{len(walkers)} walkers constructed but {len(ran)} rewrite_module call(s)")
    by_type: dict[str, tuple[str, int, bool]] = {}
    for si, names in enumerate(stages):
        for n in names:
            c = mod.classes[n]
            mr = c.methods.get("match_and_rewrite")
            if mr is None:
                continue
            t = _pattern_op_type(mr)
            typed = any("op_type_rewrite_pattern" in d for d in mr.decorators())
            k_ = t if typed and t else f"*{n}"
            # several patterns may match one op type (a preparation step before the lowering): the lowering is the one that asks the accelerator for it
            lowers_ = any(isinstance(x, ast.Call) and (callee_name(x) or "").startswith("lower_acc_") for x in ast.walk(mr.node))
            if k_ not in by_type or (lowers_ and not by_type[k_][2]):
                by_type[k_] = (n, si, lowers_)
    # declarations and states go in the walker that holds the erasing patterns; everything that reads them runs before it
    erase_si = next((si for si, names in enumerate(stages) if any(n in ("RemoveAcceleratorOps", "DeleteAllStates") or _pattern_op_type(mod.classes[n].methods["match_and_rewrite"]) == "AcceleratorOp"
                                                                    for n in names if "match_and_rewrite" in mod.classes[n].methods)), len(stages))
    for opname, kind in (("SetupOp", "setup"), ("LaunchOp", "launch"), ("AwaitOp", "await")):
        key = f"lowers:{opname}"
        if opname not in by_type:
            chk.bad("C04.exhaustive", key, apply.where, f"no registered pattern matches accfg.{opname}: such ops survive the lowering")
            continue
        pname, si, _ = by_type[opname]
        chk.result(si < erase_si, "C04.exhaustive", key, apply.where, f"{pname} (accfg.{opname}) runs before the walker that erases declarations and states",
                   f"{pname} runs in walker {si + 1}, after declarations may already be erased")
        mr = mod.classes[pname].methods["match_and_rewrite"]
        chk.analysed(mr.key)
        fl = Flow(mr, repo)
        op_p = mr.params[1]
        rep = [s for s in fl.calls("replace_op") if s.node.args and norm.match(T(op_p), s.node.args[0]) is not None]  # type: ignore[attr-defined]
        if len(rep) != 1:
            chk.bad("C04.exhaustive", f"{key}:replace", mr.where, f"{len(rep)} rewriter.replace_op({op_p}, ...) call(s)")
            continue
        s = rep[0]
        new = s.node.args[1] if len(s.node.args) > 1 else kwarg(s.node, "new_ops")  # type: ignore[attr-defined]
        cone = fl.cone(new, s, inline=0) if new is not None else ast.Constant(None)
        good_call = any(isinstance(n, ast.Call) and isinstance(n.func, ast.Attribute) and n.func.attr == f"lower_acc_{kind}" for n in ast.walk(cone))
        chk.result(good_call, "C04.exhaustive", f"{key}:replace", s.where(), f"the op is replaced in place by <accelerator>.lower_acc_{kind}(...)",
                   f"the replacement of accfg.{opname} is not the accelerator's lower_acc_{kind}: {ast.unparse(cone)[:160]}")
        # the accelerator and its declaration are looked up by the op's own accelerator name
        looked = norm.contains(cone, T(f"self.get_acc({op_p}.get_acc_name())")) or norm.contains(cone, T(f"$x.get_acc_op_from_module({op_p}.get_acc_name(), $m)"))
        chk.result(looked, "C04.exhaustive", f"{key}:accelerator", s.where(), f"accelerator and declaration are resolved from {op_p}.get_acc_name()",
                   f"the lowering is not resolved through the op's own accelerator name: {ast.unparse(cone)[:200]}")
        if kind in ("setup", "launch") and good_call:
            call = next(n for n in ast.walk(cone) if isinstance(n, ast.Call) and callee_name(n) == f"lower_acc_{kind}")
            passes_op = any(norm.match(T(op_p), a) is not None for a in call.args)
            chk.result(passes_op, "C04.exhaustive", f"{key}:own-op", s.where(), "the op being replaced is the op being lowered", f"lower_acc_{kind} is not given `{op_p}`")
    # erasure stage
    for pname, why in (("RemoveAcceleratorOps", "declarations"), ("DeleteAllStates", "state values")):
        where = [si for si, names in enumerate(stages) if pname in names]
        chk.result(bool(where) and min(where) >= 1, "C04.exhaustive", f"erase:{pname}", apply.where,
                   f"{pname} ({why}) runs only after the lowering walker", f"{pname} is {'not registered' if not where else 'registered in the lowering walker'}")
    get_acc = mod.classes["LowerAccfgBasePattern"].methods.get("get_acc") if "LowerAccfgBasePattern" in mod.classes else None
    if get_acc is not None:
        ok = any(norm.contains(n, T("self.ctx.get_acc_op_from_module($name, self.module)")) for n in ast.walk(get_acc.node) if isinstance(n, ast.Return) and n.value is not None)
        p = get_acc.params[1] if len(get_acc.params) > 1 else "?"
        uses_param = any(norm.contains(n, T(f"self.ctx.get_acc_op_from_module({p}, self.module)")) for n in ast.walk(get_acc.node) if isinstance(n, ast.Return) and n.value is not None)
        chk.result(ok and uses_param, "C04.exhaustive", "get_acc", get_acc.where, "get_acc resolves (declaration, accelerator) for the requested name in the module being rewritten",
                   "get_acc does not look the requested name up in the module being rewritten")


def state_erasure(repo: Repo, chk: Check) -> None:
    chk.rule(
        "C04.state-erasure",
        "DeleteAllStates matches every operation and filters all three carriers of accfg.state values: operands, results "
        "(mapping erased results to None) and the block arguments of every block of every region",
        floor=5,
    )
    c = repo.cls(PASS, "DeleteAllStates")
    mr = c.methods.get("match_and_rewrite")
    if mr is None:
        raise AnalysisError(f"{c.where}: no match_and_rewrite")
    chk.analysed(mr.key)
    key = f"{PASS}:DeleteAllStates"
    typed = any("op_type_rewrite_pattern" in d for d in mr.decorators())
    ann = _pattern_op_type(mr)
    chk.result(not typed and ann in ("Operation", None), "C04.state-erasure", f"{key}:all-ops", mr.where, "the pattern is untyped: it is offered every operation",
               f"the pattern only matches {ann}: state values on other operations survive")
    op_p = mr.params[1]
    is_state = ["isinstance($x.type, accfg.StateType)", "isinstance($x.type, StateType)"]

    def comp_filters(e: ast.expr, over: str, negated: bool) -> bool:
        """a comprehension over `<op>.<over>` whose filter (or conditional element) tests the state type"""
        for n in ast.walk(e):
            if isinstance(n, (ast.ListComp, ast.GeneratorExp)) and len(n.generators) == 1:
                g = n.generators[0]
                if not norm.contains(g.iter, T(f"$o.{over}")):
                    continue
                for t in g.ifs:
                    tt = norm.canon(t)
                    inner = tt.operand if norm.is_not(tt) else tt  # type: ignore[attr-defined]
                    if norm.any_match(is_state, inner) is not None and norm.is_not(tt) == negated:
                        return True
        return False

    creates = [n for n in ast.walk(mr.node) if isinstance(n, ast.Call) and callee_name(n) == "create"]
    op_f = [n for n in creates if (k := kwarg(n, "operands")) is not None and comp_filters(k, "operands", True)]
    res_f = [n for n in creates if (k := kwarg(n, "result_types")) is not None and comp_filters(k, "results", True)]
    chk.result(bool(op_f), "C04.state-erasure", f"{key}:operands", mr.where, "the op is re-created with the operands that are not of state type",
               "no re-creation of the op drops its state-typed operands")
    chk.result(bool(res_f), "C04.state-erasure", f"{key}:results", mr.where, "the op is re-created with the result types that are not of state type",
               "no re-creation of the op drops its state-typed results")
    # results mapping: None exactly for state-typed results
    mapping = False
    in_order = None
    for n in ast.walk(mr.node):
        if isinstance(n, (ast.ListComp, ast.GeneratorExp)) and isinstance(n.elt, ast.IfExp) and len(n.generators) == 1 and norm.contains(n.generators[0].iter, T("$o.results")):
            t, a, b = norm.canon(n.elt.test), n.elt.body, n.elt.orelse
            pos = norm.any_match(is_state, t) is not None
            neg = norm.is_not(t) and norm.any_match(is_state, t.operand) is not None  # type: ignore[attr-defined]
            none_a = isinstance(a, ast.Constant) and a.value is None
            none_b = isinstance(b, ast.Constant) and b.value is None
            if (pos and none_a and not none_b) or (neg and none_b and not none_a):
                mapping = True
                keep = b if none_a else a
                # the surviving results are taken front to back (the new op keeps their relative order)
                m0 = norm.any_match(["$l.pop(0)", "next($l)"], keep)
                mrev = norm.match(T("$l.pop()"), keep)
                if m0 is not None:
                    in_order = True
                elif mrev is not None and isinstance(mrev["l"], ast.Name):
                    defs = [d for st in ast.walk(mr.node) if isinstance(st, ast.Assign) and any(isinstance(t, ast.Name) and t.id == mrev["l"].id for t in st.targets) for d in [st.value]]
                    in_order = any("reversed(" in ast.unparse(d) or "[::-1]" in ast.unparse(d) for d in defs)
                else:
                    in_order = None
    chk.result(mapping, "C04.state-erasure", f"{key}:result-mapping", mr.where, "old results map to None exactly when they are of state type",
               "the old-result -> new-result mapping does not erase exactly the state-typed results")
    if mapping and in_order is not None:
        chk.result(bool(in_order), "C04.state-erasure", f"{key}:result-order", mr.where, "surviving results are mapped to the new op's results front to back",
                   "surviving results are taken from the END of the new op's result list: with two or more non-state results next to a state they are exchanged "
                   "(same-typed values reach the wrong users silently)")
    # block arguments
    fl = Flow(mr, repo)
    er = fl.calls("erase_block_argument")
    good = False
    detail = "no erase_block_argument call"
    for s in er:
        arg = s.node.args[0] if s.node.args else None  # type: ignore[attr-defined]
        if arg is None:
            continue
        doms = [ast.unparse(l.iter) for l in s.loops if isinstance(l, ast.For)]
        chain_ok = (
            len(doms) >= 3
            and norm.match(T(f"{op_p}.regions"), s.loops[-3].iter) is not None  # type: ignore[attr-defined]
            and norm.match(T("$r.blocks"), s.loops[-2].iter) is not None  # type: ignore[attr-defined]
            and norm.match(T("$b.args"), s.loops[-1].iter) is not None  # type: ignore[attr-defined]
        )
        guarded = has_fact(s, [t.replace("$x", ast.unparse(arg)) for t in is_state]) is not None
        detail = f"loops over {doms}, guarded by state-type test: {guarded}"
        if chain_ok and guarded:
            good = True
    chk.result(good, "C04.state-erasure", f"{key}:block-args", er[0].where() if er else mr.where,
               "state-typed block arguments are erased in every block of every region of the op", f"block-argument erasure incomplete: {detail}")


# --------------------------------------------------------------------------- RoCC
MEMO = ("cache", "lru_cache", "cached_property", "functools.cache", "functools.lru_cache")
SCOPE_SHARED = ("snaxc/accelerators/", "snaxc/transforms/convert_accfg_to_csr.py", "snaxc/inference/")


def _memoised(repo: Repo) -> dict[str, Func]:
    out: dict[str, Func] = {}
    funcs = list(repo.all_funcs()) + [m for c in repo.all_classes() for m in c.methods.values()]
    for f in funcs:
        if any(d.split("(")[0] in MEMO for d in f.decorators()):
            out[f.name] = f
    # wrappers that hand the memoised object on
    changed = True
    while changed:
        changed = False
        for f in funcs:
            if f.name in out:
                continue
            for n in ast.walk(f.node):
                if isinstance(n, ast.Return) and isinstance(n.value, ast.Call) and callee_name(n.value) in out:
                    out[f.name] = f
                    changed = True
                    break
    return out


def shared_mutations(repo: Repo, f: Func, memo: dict[str, Func]) -> list[tuple[int, str]]:
    """mutations of objects obtained from memoised functions inside `f` (aliases followed by name)"""
    tainted: dict[str, str] = {}
    order = sorted((n for n in ast.walk(f.node) if isinstance(n, (ast.Assign, ast.AnnAssign, ast.NamedExpr))), key=lambda n: n.lineno)
    for _ in range(3):
        for n in order:
            val = n.value
            tg = n.targets if isinstance(n, ast.Assign) else [n.target]
            src = None
            if isinstance(val, ast.Call) and callee_name(val) in memo:
                src = callee_name(val)
            elif isinstance(val, ast.Name) and val.id in tainted:
                src = tainted[val.id]
            elif isinstance(val, ast.IfExp):
                for br in (val.body, val.orelse):
                    if isinstance(br, ast.Call) and callee_name(br) in memo:
                        src = callee_name(br)
                    elif isinstance(br, ast.Name) and br.id in tainted:
                        src = tainted[br.id]
            if src:
                for t in tg:
                    if isinstance(t, ast.Name):
                        tainted[t.id] = src
    out = []
    from sa.flow import MUTATING_METHODS

    for n in ast.walk(f.node):
        if isinstance(n, ast.Call) and isinstance(n.func, ast.Attribute) and n.func.attr in MUTATING_METHODS:
            r = n.func.value
            if isinstance(r, ast.Name) and r.id in tainted:
                out.append((n.lineno, f"{r.id}.{n.func.attr}(...) mutates the object memoised by {tainted[r.id]}()"))
            if isinstance(r, ast.Call) and callee_name(r) in memo:
                out.append((n.lineno, f"{ast.unparse(r)[:40]}.{n.func.attr}(...) mutates the object memoised by {callee_name(r)}()"))
        if isinstance(n, (ast.Assign, ast.AugAssign, ast.Delete)):
            tg = n.targets if isinstance(n, (ast.Assign, ast.Delete)) else [n.target]
            for t in tg:
                if isinstance(t, ast.Subscript) and isinstance(t.value, ast.Name) and t.value.id in tainted:
                    out.append((n.lineno, f"store into {t.value.id}[...] mutates the object memoised by {tainted[t.value.id]}()"))
    return out


def retrace_intact(repo: Repo, chk: Check) -> None:
    """the lowering walks backwards and erases every setup it has lowered. What a setup finds by tracing its in_state therefore lacks the setups behind it -
    harmless for straight-line predecessors (they come earlier and are still there) but not for a loop-carried state, whose yield chain lies BEHIND the loop head:
    the missing partner of a RoCC instruction at the top of a loop body is then taken from the loop's init value although the body rewrites it. Tracing has to
    happen while the IR is intact: in a walker that runs before the erasing one"""
    chk.rule("C04.retrace-intact", "state is traced (infer_state_of) for the lowering only while no setup has been erased: by a pattern applied in a walker that runs before "
             "the reverse walker of the setup lowering, which completes the RoCC operand pairs", floor=1)
    f = repo.func(PASS, "ConvertAccfgToCsrPass.apply")
    chk.analysed(f.key)
    cp = repo.func(ROCC, "create_pairs")
    traces = any(isinstance(c, ast.Call) and callee_name(c) == "infer_state_of" for c in ast.walk(cp.node))
    walkers = [st for st in f.node.body if any(isinstance(c, ast.Call) and callee_name(c) == "PatternRewriteWalker" for c in ast.walk(st))]
    lowering = next((i for i, st in enumerate(walkers) if "LowerAccfgSetupToCsr" in ast.unparse(st)), None)
    if lowering is None:
        raise AnalysisError(f"{f.where}: the walker applying LowerAccfgSetupToCsr was not found")
    reverse = "walk_reverse=True" in ast.unparse(walkers[lowering]).replace(" ", "").replace("walk_reverse=True", "walk_reverse=True")
    completed = False
    for st in walkers[:lowering]:
        for c in ast.walk(st):
            if isinstance(c, ast.Call) and isinstance(c.func, ast.Name) and c.func.id in repo.module(PASS).classes:
                k = repo.module(PASS).classes[c.func.id]
                m = k.methods.get("match_and_rewrite")
                if m is not None and any(isinstance(x, ast.Call) and callee_name(x) == "infer_state_of" for x in ast.walk(m.node)) \
                        and any(isinstance(x, ast.Call) and callee_name(x) == "SetupOp" for x in ast.walk(m.node)):
                    chk.analysed(m.key)
                    completed = True
                    # a half that cannot be traced holds different values on different paths (or is unknown): it is refused, never replaced by a default
                    traced = {t_.id for a_ in ast.walk(m.node) if isinstance(a_, ast.Assign) and isinstance(a_.value, ast.Call) and callee_name(a_.value) == "infer_state_of"
                              for t_ in a_.targets if isinstance(t_, ast.Name)}
                    lenient = [x for x in ast.walk(m.node) if isinstance(x, ast.Call) and isinstance(x.func, ast.Attribute) and x.func.attr in ("get", "setdefault", "pop")
                               and isinstance(x.func.value, ast.Name) and x.func.value.id in traced and len(x.args) >= 2]
                    chk.result(not lenient, "C04.retrace-intact", f"{m.key}:no-default", f"{PASS}:{(lenient[0] if lenient else m.node).lineno}",
                               "an operand that cannot be traced is an error",
                               f"an operand that is not in the traced state is replaced by a default (`{ast.unparse(lenient[0])[:60] if lenient else ''}`): a half that was written with "
                               "different values on two paths is not in the state either, and the instruction then carries the default instead of the value in effect")
    chk.result(not (traces and reverse) or completed, "C04.retrace-intact", f"{f.key}:pairs-before-erasure", f"{PASS}:{walkers[lowering].lineno}",
               "the operand pairs are completed from the traced state before any setup is erased",
               "create_pairs traces the state (infer_state_of) from inside the reverse walker that erases the setups it has lowered: for `setup(X.rs1, X.rs2); for { s2 = "
               "setup from %arg (X.rs1); ..; s3 = setup from s2 (X.rs2 = %w); yield s3 }` s3 is gone when s2 is lowered, the loop head is traced to the init value "
               "and `X(%v, %b)` is emitted although X.rs2 holds %w from the second iteration on (findings/C04_rocc_partner_in_loop.mlir)")


def rocc(repo: Repo, chk: Check) -> None:
    chk.rule(
        "C04.rocc-pairs",
        "create_pairs fills a missing .rs1/.rs2 partner from infer_state_of(<this op>.in_state) under the same key and only when the "
        "op itself does not set it; for a first setup (no in_state) lower_acc_setup materialises a default for each missing partner "
        "before create_pairs runs; the emitted instruction takes (rs1, rs2) in that operand order",
        floor=5,
    )
    chk.rule("C04.shared-state", "an object obtained from a memoised function (functools.cache & co., or a wrapper returning one) is never mutated in the lowering code", floor=1)
    f, fl = flow_of(repo, chk, ROCC, "create_pairs")
    op_p = f.params[0]
    key = f"{ROCC}:create_pairs"
    # what is returned depends on the traced in-state of this very op
    rets = fl.stmts(ast.Return)
    dep = False
    for s in rets:
        if s.node.value is None:  # type: ignore[attr-defined]
            continue
        cone = fl.cone(s.node.value, s)  # type: ignore[attr-defined]
        if norm.contains(cone, T(f"infer_state_of({op_p}.in_state)")):
            dep = True
    chk.result(dep, "C04.rocc-pairs", f"{key}:trace", f.where, f"the returned operand pairs depend on infer_state_of({op_p}.in_state)",
               f"the returned operand pairs do not depend on the state traced from {op_p}.in_state: a deduplicated partner cannot be recovered")
    # partner fills
    fills = 0
    for s in fl.stmts(ast.Assign):
        st = s.node
        assert isinstance(st, ast.Assign)
        t = st.targets[0]
        if not (isinstance(t, ast.Subscript) and isinstance(st.value, ast.Subscript)):
            continue
        src = fl.cone(st.value.value, s, inline=0)
        if not norm.contains(src, T("infer_state_of($s)")):
            continue
        fills += 1
        k1, k2 = ast.unparse(norm.canon(t.slice)), ast.unparse(norm.canon(st.value.slice))
        dname = ast.unparse(t.value)
        own = norm.contains(src, T(f"infer_state_of({op_p}.in_state)"))
        guard = has_fact(s, [f"{k1} not in {dname}"]) is not None
        if not guard and isinstance(t.slice, ast.Name):
            # the key is drawn from a collection that only holds keys missing from the dictionary
            for lp in [l for l in s.loops if isinstance(l, ast.For) and isinstance(l.target, ast.Name) and l.target.id == t.slice.id]:
                dom_ = fl.cone(lp.iter, s, inline=2)
                for comp in [c for c in ast.walk(dom_) if isinstance(c, (ast.ListComp, ast.SetComp, ast.GeneratorExp))]:
                    for gen in comp.generators:
                        for cnd in gen.ifs:
                            for at in norm.atoms(cnd, True):
                                m_ = norm.match(T("$e not in $d"), at)
                                # the dictionary by its name, or as the expression it was bound to when the collection was built
                                names_ = {dname, *[ast.unparse(norm.primary(d_)) for d_ in fl.alldefs.get(dname, []) if not isinstance(d_, ast.Call) or callee_name(d_) != "__mut_store__"]}
                                if m_ is not None and ast.unparse(norm.primary(m_["d"])) in names_ and ast.dump(norm.canon(m_["e"])) == ast.dump(norm.canon(comp.elt)):
                                    guard = True
        chk.result(k1 == k2 and own and guard, "C04.rocc-pairs", f"{key}:fill:{k1}", s.where(),
                   f"{dname}[{k1}] is filled from the traced in-state under the same key, only when the op does not set it",
                   f"partner fill {ast.unparse(st)[:100]}: same key={k1 == k2}, from this op's in_state={own}, guarded by `{k1} not in {dname}`={guard}",
                   facts=s.fact_texts)
    if fills == 0:
        chk.undecided.append("C04.rocc-pairs: no key-by-key partner fill recognised in create_pairs (a different idiom is in use); only the dependency clause is decided")
    # the pair order
    comb = repo.func(ROCC, "combine_pairs_to_ops")
    chk.analysed(comb.key)
    calls = [n for n in ast.walk(comb.node) if isinstance(n, ast.Call) and callee_name(n) == "get_rocc_inline_asm"]
    asm = repo.func(ROCC, "get_rocc_inline_asm")
    chk.analysed(asm.key)
    order_ok = False
    for n in calls:
        if len(n.args) == 4 and norm.match(T("$v[$k][0]"), n.args[2]) is not None and norm.match(T("$v[$k][1]"), n.args[3]) is not None:
            order_ok = True
    pair_ok = False
    cf, cfl = f, fl
    for n in ast.walk(cf.node):
        if isinstance(n, ast.Tuple) and len(n.elts) == 2 and all(isinstance(x, ast.Subscript) for x in n.elts):
            a, b = (ast.unparse(x.slice) for x in n.elts)  # type: ignore[attr-defined]
            if a.endswith("'.rs1'") and b.endswith("'.rs2'") and a[:-6] == b[:-6]:
                pair_ok = True
            # the two field names may come, in this order, out of a helper: `for rs1, rs2 in [_operand_fields(insn)]` / `rs1, rs2 = _operand_fields(insn)` with
            # `return insn + ".rs1", insn + ".rs2"`
            sa_, sb_ = (x.slice for x in n.elts)  # type: ignore[attr-defined]
            if isinstance(sa_, ast.Name) and isinstance(sb_, ast.Name):
                srcs_ = []
                for m_ in ast.walk(cf.node):
                    if isinstance(m_, ast.comprehension) and isinstance(m_.target, ast.Tuple) and [getattr(e_, "id", None) for e_ in m_.target.elts] == [sa_.id, sb_.id] \
                            and isinstance(m_.iter, (ast.List, ast.Tuple)) and len(m_.iter.elts) == 1:
                        srcs_.append(m_.iter.elts[0])
                    if isinstance(m_, ast.Assign) and isinstance(m_.targets[0], ast.Tuple) and [getattr(e_, "id", None) for e_ in m_.targets[0].elts] == [sa_.id, sb_.id]:
                        srcs_.append(m_.value)
                for src_ in srcs_:
                    if isinstance(src_, ast.Tuple) and len(src_.elts) == 2:  # the helper as inlined by the normal form
                        ta, tb = (ast.unparse(e_) for e_ in src_.elts)
                        if ta.endswith("'.rs1'") and tb.endswith("'.rs2'") and ta[:-6] == tb[:-6]:
                            pair_ok = True
                    if isinstance(src_, ast.Call) and isinstance(src_.func, ast.Name) and src_.func.id in cf.module.funcs:
                        rets_ = [r_.value for r_ in ast.walk(cf.module.funcs[src_.func.id].node) if isinstance(r_, ast.Return) and r_.value is not None]
                        if len(rets_) == 1 and isinstance(rets_[0], ast.Tuple) and len(rets_[0].elts) == 2:
                            ta, tb = (ast.unparse(e_) for e_ in rets_[0].elts)
                            if ta.endswith("'.rs1'") and tb.endswith("'.rs2'") and ta[:-6] == tb[:-6]:
                                pair_ok = True
    asm_ok = False
    for n, s in ((n, n.args[0]) for n in ast.walk(asm.node) if isinstance(n, ast.Call) and callee_name(n) == "InlineAsmOp" and n.args):
        txt = ast.unparse(s)
        ops = n.args[2] if len(n.args) > 2 else None
        if re.search(r"\$0\s*,\s*\$1", txt) and isinstance(ops, (ast.List, ast.Tuple)) and [ast.unparse(x) for x in ops.elts] == asm.params[2:4]:
            asm_ok = True
    chk.result(order_ok and pair_ok and asm_ok, "C04.rocc-pairs", f"{ROCC}:pair-order", comb.where,
               "pairs are built as (.rs1, .rs2), passed as (pair[0], pair[1]) and emitted as ($0, $1)",
               f"operand order broken: pair built (rs1, rs2)={pair_ok}, passed in order={order_ok}, emitted in order={asm_ok}")
    # combine_pairs_to_ops emits one instruction per .rs1 entry with that entry's funct7
    cfl2 = Flow(comb, repo)
    emits = [n.iter for n in ast.walk(comb.node) if isinstance(n, ast.For)] + [
        g_.iter for n in ast.walk(comb.node) if isinstance(n, (ast.ListComp, ast.GeneratorExp)) and any(
            isinstance(c, ast.Call) and callee_name(c) == "get_rocc_inline_asm" for c in ast.walk(n.elt)) for g_ in n.generators]
    one = len(calls) == 1 and len(emits) == 1 and norm.contains(cfl2.cone(emits[0], None, inline=0), T("$n.endswith('.rs1')"))
    chk.result(one, "C04.rocc-pairs", f"{ROCC}:one-insn", comb.where, "one instruction is emitted per declared instruction (per .rs1 entry of the declaration passed in)",
               "combine_pairs_to_ops no longer emits exactly one instruction per .rs1 entry")
    # defaults for a first setup
    ls, lfl = flow_of(repo, chk, ROCC, "RoCCAccelerator.lower_acc_setup")
    sp = [p for p in ls.params if p not in ("self", "cls")][0]
    cps = lfl.calls("create_pairs")
    dom = False
    detail = "no create_pairs call"
    for s in cps:
        arg = s.node.args[0]  # type: ignore[attr-defined]
        for inl in (0, 3):  # as written; then looking through helpers that build the op
            cone = lfl.cone(arg, s, inline=inl)
            new = [m for _, m in norm.find(T("accfg.SetupOp($vals, $names, $acc)"), cone)] + [m for _, m in norm.find(T("SetupOp($vals, $names, $acc)"), cone)]
            detail = ast.unparse(cone)[:200]
            for m in new:
                names = norm.unroll_literal_generators(lfl.cone(m["names"], s, inline=inl))
                if norm.contains(names, T("$i + '.rs1'")) and norm.contains(names, T("$i + '.rs2'")):
                    dom = True
            if dom:
                break
    none_guard = any(
        isinstance(n, ast.If) and norm.any_match([f"{sp}.in_state is None", f"not {sp}.in_state"], norm.canon(n.test)) is not None
        for n in ast.walk(ls.node)
    )
    chk.result(dom and none_guard, "C04.rocc-pairs", f"{ROCC}:defaults", cps[0].where() if cps else ls.where,
               "for a setup without in_state the op handed to create_pairs is rebuilt with a default for each missing .rs1/.rs2 partner",
               f"no default materialisation for missing partners reaches create_pairs (guard on in_state is None: {none_guard}): {detail}")
    # the instruction filter uses the (possibly rebuilt) op
    # shared state
    memo = _memoised(repo)
    n_sites = 0
    funcs = [f for f in (list(repo.all_funcs()) + [m for c in repo.all_classes() for m in c.methods.values()]) if f.module.relpath.startswith(SCOPE_SHARED)]
    for g in funcs:
        uses = [n for n in ast.walk(g.node) if isinstance(n, ast.Call) and callee_name(n) in memo and memo[callee_name(n)].node is not g.node]
        if not uses:
            continue
        n_sites += len(uses)
        chk.analysed(g.key)
        muts = shared_mutations(repo, g, memo)
        gk = f"{g.module.relpath}:{g.qualname}"
        if muts:
            for line, what in muts:
                chk.bad("C04.shared-state", f"{gk}:{what.split('(')[0]}", f"{g.module.relpath}:{line}",
                        f"{what}: every later lookup of the same key sees this op's values as the previous state")
        else:
            chk.ok("C04.shared-state", gk, g.where, f"{len(uses)} use(s) of memoised results ({sorted({callee_name(n) for n in uses})}), none mutated")
    _shared_control(chk)


def _shared_control(chk: Check) -> None:
    """positive / negative control for C04.shared-state (the expected count of violations on the tree is zero)"""
    import textwrap

    from sa.model import Func as _F  # noqa: F401

    src = textwrap.dedent(
        """
        from functools import cache
        @cache
        def known(x):
            return {}
        def bad(op):
            s = known(op)
            s.update({})
            return s
        def good(op):
            s = dict(known(op))
            s.update({})
            return s
        """
    )
    tree = ast.parse(src)

    class _M:
        relpath = "<control>"

    class _Fn:
        def __init__(self, node):
            self.node, self.name, self.module = node, node.name, _M()

        def decorators(self):
            return [ast.unparse(d) for d in self.node.decorator_list]

    fns = {n.name: _Fn(n) for n in tree.body if isinstance(n, ast.FunctionDef)}
    memo = {"known": fns["known"]}
    chk.control("C04.shared-state", "mutating-a-cached-dict", bool(shared_mutations(None, fns["bad"], memo)), True)  # type: ignore[arg-type]
    chk.control("C04.shared-state", "copy-then-mutate", bool(shared_mutations(None, fns["good"], memo)), False)  # type: ignore[arg-type]

"""C15 — pipelined double-buffered loops equal the sequential loop (DESIGN.md section 5, C15).

Decided: counting agreement of the unrolling, barriers closing every group, index shifts, the parity
selection and its preconditions, stage shape and argument order, range preconditions.  Not decided:
freedom from conflicts under all interleavings.
"""

from __future__ import annotations

import ast
import copy

from sa import norm
from sa.errors import AnalysisError
from sa.flow import Flow, Site
from sa.model import Repo
from sa.norm import T
from sa.report import Check

from .common import callee_name, depends_on, flow_of, g, has_fact, mutation_sites, op_param, require_guards, rewriter_param, subexprs

CONSTRUCT = "snaxc/transforms/pipeline/construct_pipeline.py"
DUP = "snaxc/transforms/pipeline/pipeline_duplicate_buffers.py"
UNROLL = "snaxc/transforms/pipeline/unroll_pipeline.py"


def run(repo: Repo, chk: Check) -> None:
    chk.explanation = (
        "Counting agreement (F5), guard dominance (F2) and dependency (F3) rules on the software-pipelining passes: "
        "prologue length, epilogue length, lower-bound shift and the number of shifted index clones are all "
        "nb_stages-1; prologue step i runs stages 0..i on iterations i-j, epilogue step i the last i+1 stages on "
        "ub-(i+1)+...; every group and the steady-state body end with a cluster barrier; stage k reads index-k; the "
        "two buffers are selected by index mod 2 and only for one writer stage directly followed by one reader stage, "
        "the `safe` shortcut only for read-only/write-only buffers; stages are >= 2 barrier-closed groups of "
        "copy/kernel ops with block arguments ordered inputs-then-outputs; only loops with lb 0, step 1 are pipelined. "
        "Decides these clauses, not conflict freedom under all interleavings."
    )
    counts(repo, chk)
    parity(repo, chk)
    stage_shape(repo, chk)
    index_results_owner(repo, chk)


# --------------------------------------------------------------------------- unrolling
def counts(repo: Repo, chk: Check) -> None:
    f, fl = flow_of(repo, chk, UNROLL, "UnrollPipeline.match_and_rewrite")
    p = f.param(1)
    chk.rule(
        "C15.counts",
        "the four encodings of `number of stages - 1` agree: prologue range(nb_stages-1), epilogue range(nb_stages-1), "
        "lower-bound constant nb_stages-1, index clones range(1, nb_stages); prologue step i clones stages [j] for j in "
        "range(i+1) with index i-j, epilogue step i stages [-j-1] for j in reversed(range(i+1)) from ub-(i+1)",
        floor=8,
    )
    n1 = f"{p}.nb_stages - 1"
    # locals standing for parts of the pipeline (`stages = pipeline.stages`, `depth = len(stages) - 1`) are read as what they stand for;
    # `len(p.stages)` is `p.nb_stages` as long as the dialect defines the property that way
    try:
        nb = repo.func("snaxc/dialects/pipeline.py", "PipelineOp.nb_stages")
    except Exception:  # noqa: BLE001
        nb = None
    rets_nb = [x for x in ast.walk(nb.node) if isinstance(x, ast.Return)] if nb is not None else []
    len_is_nb = len(rets_nb) == 1 and rets_nb[0].value is not None and norm.match(T("len(self.stages)"), rets_nb[0].value) is not None

    class _Std(ast.NodeTransformer):
        def __init__(self, env: dict[str, ast.expr], keep: set[str]):
            self.env, self.keep = env, keep

        def visit_Name(self, n: ast.Name) -> ast.AST:
            if isinstance(n.ctx, ast.Load) and n.id in self.env and n.id not in self.keep and n.id != p:
                v_ = norm.primary(self.env[n.id])
                if p in {x.id for x in ast.walk(v_) if isinstance(x, ast.Name)} and not any(isinstance(x, ast.Call) and callee_name(x) not in ("len",) for x in ast.walk(v_)):
                    return self.visit(ast.copy_location(copy.deepcopy(v_), n))
            return n

        def visit_Call(self, n: ast.Call) -> ast.AST:
            self.generic_visit(n)
            m_ = norm.match(T("len($q.stages)"), n)
            if len_is_nb and m_ is not None and isinstance(m_["q"], ast.Name) and m_["q"].id == p:
                return ast.copy_location(ast.Attribute(ast.Name(p, ast.Load()), "nb_stages", ast.Load()), n)
            return n

    def std(site: Site, node):
        stored = {x.id for x in ast.walk(node) if isinstance(x, ast.Name) and isinstance(x.ctx, ast.Store)}
        out_ = _Std(site.env, stored).visit(copy.deepcopy(node))
        ast.fix_missing_locations(out_)
        return out_

    outer = [s for s in fl.stmts(ast.For) if s.reachable and not s.loops]
    pro = epi = clones = None
    pn = en = cn = None
    for s in outer:
        sn = std(s, s.node)
        has_before = any(isinstance(x, ast.Call) and "InsertPoint.before" in ast.unparse(x) for x in ast.walk(s.node))
        has_after = any(isinstance(x, ast.Call) and "InsertPoint.after" in ast.unparse(x) for x in ast.walk(s.node))
        stages = any(isinstance(x, ast.Attribute) and x.attr == "stages" for x in ast.walk(sn))
        if stages and has_before and pro is None:
            pro, pn = s, sn
        elif stages and has_after:
            epi, en = s, sn
        elif any(isinstance(x, ast.Call) and callee_name(x) == "SubiOp" for x in ast.walk(s.node)) and not stages:
            clones, cn = s, sn
    if pro is None or epi is None or clones is None or pn is None or en is None or cn is None:
        raise AnalysisError(f"{f.where}: prologue / epilogue / index-clone loops not identified")
    chk.result(norm.match(T(f"range({n1})"), pn.iter) is not None, "C15.counts", f"{f.key}:prologue-length", pro.where(),
               "prologue has nb_stages - 1 steps", f"prologue iterates {ast.unparse(pn.iter)}; expected range(nb_stages - 1)")
    chk.result(norm.match(T(f"range({n1})"), en.iter) is not None, "C15.counts", f"{f.key}:epilogue-length", epi.where(),
               "epilogue has nb_stages - 1 steps", f"epilogue iterates {ast.unparse(en.iter)}; expected range(nb_stages - 1)")
    chk.result(norm.match(T(f"range(1, {p}.nb_stages)"), cn.iter) is not None, "C15.counts", f"{f.key}:clone-count", clones.where(),
               "index clones exist for stages 1..nb_stages-1", f"index clones iterate {ast.unparse(cn.iter)}; expected range(1, nb_stages)")
    shift = [s for s in fl.calls("from_int_and_width") if s.reachable and not s.loops and s.node.args]
    ok_shift = False
    for s in shift:
        if norm.match(T(n1), std(s, s.node.args[0])) is not None:
            var = s.stmt.targets[0].id if isinstance(s.stmt, ast.Assign) and isinstance(s.stmt.targets[0], ast.Name) else None
            for r in fl.calls("replace_uses_with_if", "replace_all_uses_with"):
                if var and ast.unparse(r.node.args[0]) == f"{var}.result" and "lb" in ast.unparse(r.node.func.value):  # type: ignore[attr-defined]
                    ok_shift = True
    chk.result(ok_shift, "C15.counts", f"{f.key}:lb-shift", f.where, "the steady-state loop starts at nb_stages - 1 (the loop's lb use is redirected to that constant)",
               "the lower bound of the steady-state loop is not shifted by nb_stages - 1")
    # prologue inner structure
    iv = pn.target.id if isinstance(pn.target, ast.Name) else "i"
    inner = [n for n in pn.body if isinstance(n, ast.For)]

    def _readable(loops_: list, where_: str) -> None:
        # stage/iteration pairing is read from `for j in range(..)` / `reversed(range(..))` and subscripts by j; a pairing by zip of slices
        # needs the lengths of the lists, which this rule does not track
        for n_ in loops_:
            it_ = n_.iter
            if norm.match(T("reversed($r)"), it_) is not None:
                it_ = norm.match(T("reversed($r)"), it_)["r"]
            if not (isinstance(it_, ast.Call) and callee_name(it_) == "range"):
                raise AnalysisError(f"{where_}: stages and iterations are paired by `{ast.unparse(n_.iter)[:80]}`, a form this rule does not read")

    _readable(inner, pro.where())
    okp = False
    for n in inner:
        if norm.match(T("range($i + 1)"), n.iter, {"i": iv}) is not None and isinstance(n.target, ast.Name):
            j = n.target.id
            okp = norm.contains(n, T(f"{p}.stages[{j}].clone()")) and norm.contains(n, T(f"$tbl[{iv} - {j}]"))
    chk.result(okp, "C15.counts", f"{f.key}:prologue-stages", pro.where(), "prologue step i runs stage j (j <= i) on the index clone of iteration i - j",
               "prologue step i does not run stages [j] for j in range(i + 1) with the index clone i - j")
    okc = any(norm.match(T("arith.ConstantOp.from_int_and_width($i, $_)"), x, {"i": iv}) is not None for x in ast.walk(pn) if isinstance(x, ast.Call))
    chk.result(okc, "C15.counts", f"{f.key}:prologue-index", pro.where(), "prologue step i evaluates the index computation at the constant i")
    ie = en.target.id if isinstance(en.target, ast.Name) else "i"
    inner = [n for n in en.body if isinstance(n, ast.For)]
    _readable(inner, epi.where())
    oke = False
    for n in inner:
        if norm.match(T("reversed(range($i + 1))"), n.iter, {"i": ie}) is not None and isinstance(n.target, ast.Name):
            j = n.target.id
            oke = norm.contains(n, T(f"{p}.stages[-{j} - 1].clone()")) and norm.contains(n, T(f"$tbl[{ie} - {j}]"))
    chk.result(oke, "C15.counts", f"{f.key}:epilogue-stages", epi.where(), "epilogue step i runs the last i+1 stages, earliest remaining stage first",
               "epilogue step i does not run stages [-j-1] for j in reversed(range(i + 1)) with the index clone i - j")
    okes = False
    for x in ast.walk(en):
        if isinstance(x, ast.Call) and callee_name(x) == "SubiOp" and len(x.args) == 2 and ast.unparse(x.args[0]).endswith(".ub"):
            okes = any(norm.match(T("arith.ConstantOp.from_int_and_width($i + 1, $_)"), y, {"i": ie}) is not None for y in ast.walk(en) if isinstance(y, ast.Call))
    chk.result(okes, "C15.counts", f"{f.key}:epilogue-index", epi.where(), "epilogue step i evaluates the index computation at ub - (i + 1)",
               "epilogue index is not ub - (i + 1)")
    # ---- barriers
    chk.rule("C15.barriers", "each prologue group, each epilogue group and the steady-state body end with a ClusterSyncOp", floor=3)
    last_p = pn.body[-1]
    chk.result("ClusterSyncOp()" in ast.unparse(last_p) and "InsertPoint.before" in ast.unparse(last_p), "C15.barriers", f"{f.key}:prologue", pro.where(),
               "every prologue group is closed by a barrier before the loop", "a prologue group is not closed by a cluster barrier")
    sync_i = next((i for i, st in enumerate(en.body) if "ClusterSyncOp()" in ast.unparse(st)), None)
    inner_i = next((i for i, st in enumerate(en.body) if isinstance(st, ast.For)), None)
    chk.result(sync_i is not None and inner_i is not None and sync_i > inner_i, "C15.barriers", f"{f.key}:epilogue", epi.where(),
               "every epilogue group is closed by a barrier", "an epilogue group is not closed by a cluster barrier")
    steady = [s for s in fl.calls("insert_op") if s.reachable and not s.loops and "ClusterSyncOp()" in ast.unparse(s.node) and f"InsertPoint.at_end({p}.body.block)" in ast.unparse(s.node)]
    chk.result(bool(steady), "C15.barriers", f"{f.key}:steady-state", steady[0].where() if steady else f.where,
               "the steady-state body ends with a barrier", "the steady-state loop body no longer ends with a cluster barrier")
    # ---- index shift inside the loop
    chk.rule("C15.index-shift", "stage k's uses of the index results are redirected to the clone computing index - k", floor=2)
    ci = cn.target.id if isinstance(cn.target, ast.Name) else "i"
    src = ast.unparse(cn)
    ok_sub = any(isinstance(x, ast.Call) and callee_name(x) == "SubiOp" and ast.unparse(x.args[0]).endswith(".input") for x in ast.walk(cn)) and \
        any(norm.match(T("arith.ConstantOp.from_int_and_width($i, $_)"), x, {"i": ci}) is not None for x in ast.walk(cn) if isinstance(x, ast.Call))
    chk.result(ok_sub, "C15.index-shift", f"{f.key}:minus-k", clones.where(), "clone k computes index - k", "index clone k does not compute `index - k`")
    ok_pred = any(
        isinstance(x, ast.Compare) and len(x.ops) == 1 and isinstance(x.ops[0], ast.Eq)
        and ast.unparse(x.left).endswith(".index.value.data") and ast.unparse(x.comparators[0]) == ci
        for x in ast.walk(cn)
    )
    chk.result(ok_pred, "C15.index-shift", f"{f.key}:stage-k", clones.where(), "only uses inside stage k are redirected to clone k",
               "the use-redirection predicate does not select exactly the uses inside stage k")


# --------------------------------------------------------------------------- double buffering
def parity(repo: Repo, chk: Check) -> None:
    f, fl = flow_of(repo, chk, DUP, "PipelineDuplicateBuffers.match_and_rewrite")
    op = op_param(f)
    chk.rule(
        "C15.parity",
        "a buffer is double-buffered (select by pipeline index mod 2 between the alloc and its clone) only with exactly "
        "one reader stage directly following exactly one writer stage; the single-buffer shortcut is taken only if no "
        "stage reads or no stage writes the buffer; readers/writers are the stages of this pipeline having the buffer in "
        "ins resp. outs",
        floor=7,
    )
    # definitions of readers / writers
    defs = {}
    for s in fl.stmts(ast.Assign):
        t = s.node.targets[0]
        if isinstance(t, ast.Name) and isinstance(s.node.value, ast.ListComp) and depends_on(s.node.value, "$b.uses"):
            side = "ins" if depends_on(s.node.value, "$b in $u.operation.ins") else "outs" if depends_on(s.node.value, "$b in $u.operation.outs") else None
            if side:
                conds = [ast.unparse(a) for c in s.node.value.generators[0].ifs for a in norm.atoms(c, True)]
                defs[side] = (t.id, conds, s)
    uvs: dict[str, str] = {}
    aliases: dict[str, set[str]] = {}
    for side, (name, conds, s) in defs.items():
        gen = s.node.value.generators[0]
        uvs[side] = gen.target.id if isinstance(gen.target, ast.Name) else "?"
    if set(defs) != {"ins", "outs"}:
        # the lists filled use by use: `for use in buffer.uses: <conditions>; readers.append(use)` - in place, in a local function or in a new helper
        # (walked by the analysis; a flag parameter is folded into the side it selects)
        defs, uvs = {}, {}
        for a in fl.calls("append"):
            if not a.reachable or not a.node.args or not isinstance(a.node.func, ast.Attribute):
                continue
            lp = [l for l in a.loops if isinstance(l, ast.For) and isinstance(l.target, ast.Name) and norm.match(T("$b.uses"), norm.primary(a.expand(l.iter))) is not None]
            if not lp or ast.unparse(norm.primary(a.expand(a.node.args[0]))) != lp[-1].target.id:
                continue
            uv = lp[-1].target.id
            head = next((x for x in fl.stmts(ast.For) if x.node is lp[-1]), None)
            base = set(head.fact_texts) if head is not None else set()
            conds = [t for t in a.fact_texts if t not in base and uv in t]
            side = "ins" if any(norm.any_match([f"$b in {uv}.operation.ins"], fa.expr) is not None for fa in a.facts if fa.kind == "atom") else \
                "outs" if any(norm.any_match([f"$b in {uv}.operation.outs"], fa.expr) is not None for fa in a.facts if fa.kind == "atom") else None
            if side is None or side in defs:
                continue
            # the name the list is known by where its length is tested: the list itself, or what a walked helper's result was assigned to
            lname = ast.unparse(a.node.func.value)
            for nm, ds in fl.alldefs.items():
                if any(isinstance(norm.primary(d_), ast.Name) and norm.primary(d_).id == lname for d_ in ds) and not nm.startswith("__"):
                    lname = nm
            defs[side] = (lname, conds, a)
            uvs[side] = uv
            aliases[side] = {lname, ast.unparse(a.node.func.value)}
    if set(defs) != {"ins", "outs"}:
        raise AnalysisError(f"{f.where}: reader/writer use lists not found")
    for side, (name, conds, s) in defs.items():
        uv = uvs[side]
        ok = any(f"isinstance({uv}.operation, StageOp)" in c or f"isinstance({uv}.operation, pipeline.StageOp)" in c for c in conds) and any("parent_op() is" in c for c in conds) and len(conds) == 3
        chk.result(ok, "C15.parity", f"{f.key}:{side}-uses", s.where(), f"{'readers' if side == 'ins' else 'writers'} = stages of this pipeline with the buffer in {side}",
                   f"the {'reader' if side == 'ins' else 'writer'} list is filtered by {conds}")
    rd, wr = defs["ins"][0], defs["outs"][0]
    # the select
    sel = [s for s in fl.calls("SelectOp") if s.reachable]
    if not sel:
        raise AnalysisError(f"{f.where}: SelectOp not found")
    for s in sel:
        e = s.expand(s.node)
        m = norm.match(T('arith.SelectOp(arith.CmpiOp($z, arith.RemUIOp($idx, $two), "eq"), $a, $b)'), e)
        ok = m is not None and norm.match(T("arith.ConstantOp.from_int_and_width(2, $_)"), m["two"]) is not None and norm.match(
            T("arith.ConstantOp.from_int_and_width(0, $_)"), m["z"]) is not None and depends_on(m["idx"], "$_.body.block.args[0]")
        chk.result(ok, "C15.parity", f"{f.key}:select", s.where(), "buffer = select(index mod 2 == 0, buffer 0, buffer 1)",
                   f"the buffer selection is {ast.unparse(e)[:160]}; expected select(cmpi eq(0, remui(pipeline index, 2)), b0, b1)")
        if m is not None:
            two = ast.unparse(m["a"]) != ast.unparse(m["b"]) and depends_on(fl.cone(s.node.args[2], s, inline=0), "$x.clone()")
            chk.result(two, "C15.parity", f"{f.key}:two-buffers", s.where(), "the two alternatives are the alloc and its clone")
        def one(side: str):
            def t_(site: Site) -> bool:
                for fact in site.facts:
                    if fact.kind != "atom":
                        continue
                    m_ = norm.match(T("len($x) == 1"), fact.expr)
                    if m_ is not None and (ast.unparse(m_["x"]) == defs[side][0] or depends_on(m_["x"], f"$b in $u.operation.{side}") or (
                            norm.free_names(m_["x"]) & aliases.get(side, set()))):
                        return True
                return False
            return t_

        for gname, side in (("one-reader", "ins"), ("one-writer", "outs")):
            chk.result(one(side)(s), "C15.parity", f"{f.key}:{gname}", s.where(), f"double buffering only under `{gname}`",
                       f"double buffering is reachable without exactly one {'reader' if side == 'ins' else 'writer'} stage", s.fact_texts)
        guards = {
            "reader-follows-writer": ["$r.index.value.data == $w.index.value.data + 1", "$w.index.value.data + 1 == $r.index.value.data",
                                      "$r.index.value.data - 1 == $w.index.value.data"],
            "buffer-is-alloc": ["isinstance($b.op, AllocOp)", "isinstance($b.op, memref.AllocOp)"],
        }
        for gname, ts in guards.items():
            chk.result(bool(has_fact(s, ts)), "C15.parity", f"{f.key}:{gname}", s.where(), f"double buffering only under `{gname}`",
                       f"double buffering is reachable without `{gname}` ({ts[0]})", s.fact_texts)
    # the single-buffer shortcut
    shortcut = None
    for n in ast.walk(f.node):
        if isinstance(n, ast.If):
            t = ast.unparse(n.test)
            if f"len({rd}) == 0" in t or f"len({wr}) == 0" in t or f"not {rd}" in t:
                shortcut = n
                break
    if shortcut is None:
        raise AnalysisError(f"{f.where}: single-buffer shortcut not found")
    test = norm.canon(shortcut.test)
    disj = test.values if isinstance(test, ast.BoolOp) and isinstance(test.op, ast.Or) else [test]
    allowed = {f"len({rd}) == 0", f"len({wr}) == 0", f"not {rd}", f"not {wr}"}
    extra = [ast.unparse(d) for d in disj if ast.unparse(d) not in allowed]
    chk.result(not extra, "C15.parity", f"{f.key}:shortcut-condition", f"{f.module.relpath}:{shortcut.lineno}",
               "a single buffer is kept only if no stage reads it or no stage writes it",
               f"the buffer is also left un-duplicated under {extra}: a writer stage of iteration i can overwrite it before the reader stage of "
               "iteration i-1 has consumed it")


# --------------------------------------------------------------------------- construction
def index_results_owner(repo: Repo, chk: Check) -> None:
    """PipelineDuplicateBuffers drops a stage operand that is a result of the pipeline's index op without any reader / writer analysis ("already made safe"):
    sound only because the one producer of such operands is that pass itself (its select between the two copies of a buffer). A stage operand that
    ConstructPipeline turns into an index-op result - a view computed in the loop - is then pipelined single-buffered"""
    chk.rule("C15.index-results", "the 'defined by the index op => safe' shortcut of PipelineDuplicateBuffers has one producer: ConstructPipeline redirects no value to "
             "a result of the IndexOp it builds (only the loop index to the index block argument)", floor=1)
    f, fl = flow_of(repo, chk, CONSTRUCT, "ConstructPipeline.match_and_rewrite")
    ctor = [s for s in fl.calls("IndexOp") if s.reachable and isinstance(s.stmt, ast.Assign) and isinstance(s.stmt.targets[0], ast.Name)]
    if not ctor:
        raise AnalysisError(f"{f.where}: the IndexOp construction was not found")
    iv = ctor[0].stmt.targets[0].id  # type: ignore[union-attr]
    # is the shortcut still there?
    d = repo.func(DUP, "PipelineDuplicateBuffers.match_and_rewrite")
    shortcut = any(isinstance(c, ast.Compare) and len(c.ops) == 1 and isinstance(c.ops[0], ast.Is) and norm.match(T("$b.op"), c.left) is not None for c in ast.walk(d.node))
    n_ = 0
    for s in fl.calls("replace_uses_with_if", "replace_all_uses_with", "replace_by", "replace_by_if"):
        if not s.reachable or not s.node.args:
            continue
        n_ += 1
        new = fl.cone(s.node.args[0], s, inline=0)
        srcs = [new]
        # a loop variable stands for the elements of what the loop iterates
        names = {n.id for n in ast.walk(new) if isinstance(n, ast.Name)}
        for l in s.loops:
            if isinstance(l, ast.For) and names & {n.id for n in ast.walk(l.target) if isinstance(n, ast.Name)}:
                srcs.append(l.iter)
        to_result = any(norm.contains(x, T(f"{iv}.results")) or norm.contains(x, T(f"{iv}.res")) or norm.contains(x, T(f"{iv}.result")) for x in srcs)
        chk.result(not (to_result and shortcut), "C15.index-results", f"{f.key}:redirect#{n_}", s.where(), "not redirected to a result of the index op",
                   f"uses are redirected to `{ast.unparse(s.node.args[0])[:60]}`, a result of the pipeline's index op: PipelineDuplicateBuffers strips every stage operand "
                   "defined by the index op as already safe, so a producer/consumer view computed in the loop is pipelined with a single buffer")
    if n_ == 0:
        raise AnalysisError(f"{f.where}: no use redirection found (the loop index is expected to be redirected to the index block argument)")


def stage_shape(repo: Repo, chk: Check) -> None:
    f, fl = flow_of(repo, chk, CONSTRUCT, "ConstructPipeline.match_and_rewrite")
    op = op_param(f)
    rw = rewriter_param(f)
    chk.rule(
        "C15.stage-shape",
        "ConstructPipeline rewrites only loops with lb 0 and step 1, without nested scf.for, with >= 2 stages each closed by a "
        "ClusterSyncOp; stage block arguments are ordered inputs first, then outputs, matching StageOp(ins, outs)",
        floor=6,
    )
    sites = [(s, lab) for s, lab in mutation_sites(fl, rw) if s.reachable]
    firsts = sites[:1]
    if not firsts:
        raise AnalysisError(f"{f.where}: no mutation")

    def cmp_const(path: str, const: int):
        def t(site: Site):
            for fact in site.facts:
                if fact.kind == "atom" and isinstance(fact.expr, ast.Compare) and isinstance(fact.expr.ops[0], ast.Eq) and isinstance(fact.expr.comparators[0], ast.Constant) \
                        and fact.expr.comparators[0].value == const and norm.find(T(path), fact.expr.left, {"op": op}):
                    return fact
            return None
        return t

    require_guards(
        chk, "C15.stage-shape", f, sites,
        [
            ("lb==0", cmp_const("$op.lb", 0)),
            ("step==1", cmp_const("$op.step", 1)),
            ("at-least-two-stages", g("len($s) >= 2", "len($s) > 1", "not len($s) < 2")),
        ],
    )
    first = firsts[0][0]
    nest = any(f_.kind == "forall" and "isinstance" in f_.text and "ForOp" in f_.text for f_ in first.facts)
    chk.result(nest, "C15.stage-shape", f"{f.key}:no-nested-for", first.where(), "loops containing another scf.for are not pipelined",
               "the nested-loop exclusion is gone", first.fact_texts)
    is_stage = f.nested("is_stage_op")
    src = ast.unparse(is_stage.node)
    chk.result("CopyOp" in src and "GenericOp" in src and "StreamingRegionOpBase" in src and "isinstance" in src, "C15.stage-shape", f"{is_stage.key}:kinds", is_stage.where,
               "stage ops are copies / generics / streaming regions")
    # stages are closed by syncs: appending a stage happens under isinstance(next_op, ClusterSyncOp)
    # the stage list is the list whose length is tested against 2 in the guards above (not a name)
    stage_lists = set()
    for f_ in first.facts:
        if f_.kind == "atom":
            m_ = norm.any_match(["len($s) >= 2", "len($s) > 1", "not len($s) < 2"], f_.expr)
            if m_ is not None and isinstance(norm.primary(m_["s"]), ast.Name):
                stage_lists.add(norm.primary(m_["s"]).id)
    apps = [s for s in fl.calls("append") if s.reachable and ast.unparse(s.node.func.value) in stage_lists]  # type: ignore[attr-defined]
    chk.result(bool(apps) and all(has_fact(s, ["isinstance($n, ClusterSyncOp)", "isinstance($n, snax.ClusterSyncOp)"]) for s in apps), "C15.stage-shape", f"{f.key}:sync-closed",
               apps[0].where() if apps else f.where, "a stage is only completed by a ClusterSyncOp", "a stage can be completed without a closing ClusterSyncOp")
    # the input / output buffer lists are whatever StageOp receives first and second (not names)
    so = [s for s in fl.calls("StageOp") if s.reachable and len(s.node.args) >= 3 and isinstance(s.node.args[0], ast.Name) and isinstance(s.node.args[1], ast.Name)]
    if not so:
        raise AnalysisError(f"{f.where}: StageOp(inputs, outputs, stage) construction not found")
    in_l, out_l = so[0].node.args[0].id, so[0].node.args[1].id
    # argument order
    ro = f.nested("rewrite_operand")
    chk.analysed(ro.key)
    rfl = Flow(ro, repo)
    flag = ro.param(2)
    ins = [s for s in rfl.calls("insert_arg") if s.reachable]
    if not ins:
        raise AnalysisError(f"{ro.where}: insert_arg not found")
    ok_in = ok_out = False
    for s in ins:
        for alt in s.state.alts:
            from sa.flow import expand
            idx = expand(s.node.args[1], alt.env) if len(s.node.args) > 1 else None
            facts = set(alt.facts)
            if idx is None:
                continue
            it = ast.unparse(idx).replace(" ", "")
            if flag in facts and f"len({in_l})-1" == it:
                ok_in = True
            if f"not {flag}" in facts and it in (f"len({in_l})+len({out_l})-1", f"len({out_l})+len({in_l})-1"):
                ok_out = True
    chk.result(ok_in and ok_out, "C15.stage-shape", f"{ro.key}:arg-order", ro.where,
               "an input's block argument goes to the end of the inputs, an output's to the very end (inputs first, then outputs)",
               "stage block arguments are no longer inserted as `inputs first, then outputs`: StageOp(ins, outs) pairs operand k with block "
               "argument k, so ops inside a stage with several operands get the wrong buffers")
    # the two lists are filled by rewrite_operand: inputs under the flag, outputs under its negation
    fills = {"in": False, "out": False}
    for s in rfl.calls("append"):
        tgt = ast.unparse(s.node.func.value)  # type: ignore[attr-defined]
        for alt in s.state.alts:
            facts = set(alt.facts)
            if tgt == in_l and flag in facts:
                fills["in"] = True
            if tgt == out_l and f"not {flag}" in facts:
                fills["out"] = True
    # ... on EVERY path: an occurrence of a buffer that is not recorded under its role (e.g. because the same buffer was already seen in the
    # other role) makes an in-place stage `ins(%a, %acc) outs(%acc)` look read-only to the buffer duplication, which then keeps one copy
    def _appends(st: ast.stmt, lst: str) -> bool:
        return not isinstance(st, (ast.If, ast.For, ast.While, ast.FunctionDef)) and any(
            isinstance(n, ast.Call) and callee_name(n) in ("append", "insert", "extend") and isinstance(n.func, ast.Attribute) and ast.unparse(n.func.value) == lst for n in ast.walk(st))

    efl = Flow(ro, repo, events={"in": lambda st: _appends(st, in_l), "out": lambda st: _appends(st, out_l)})
    ends = [a for a in (efl.end_state.alts if efl.end_state is not None else [])]
    for s_ in efl.stmts(ast.Return):
        if s_.reachable:
            ends += list(s_.state.alts)
    if not ends:
        raise AnalysisError(f"{ro.where}: no exit of rewrite_operand reached")
    unrecorded = []
    for alt in ends:
        facts = set(alt.facts)
        role = "in" if flag in facts else "out" if f"not {flag}" in facts else None
        lst = in_l if role == "in" else out_l
        already = role is not None and any(t.replace(" ", "") in (f"{ro.param(0)}in{lst}",) for t in facts)
        if role is None:
            if not (f"__event__('in')" in facts or f"__event__('out')" in facts):
                unrecorded.append(sorted(t for t in facts if not t.startswith("__event__"))[:3])
        elif f"__event__({role!r})" not in facts and not already:
            unrecorded.append(sorted(t for t in facts if not t.startswith("__event__"))[:3])
    chk.result(not unrecorded, "C15.stage-shape", f"{ro.key}:every-occurrence-recorded", ro.where,
               "every path through rewrite_operand records the buffer in the list of its role",
               f"rewrite_operand can return without recording the operand under its role (path conditions {unrecorded[:2]}): a buffer a stage both reads and writes is then "
               "registered in one role only, PipelineDuplicateBuffers sees no writer (or no reader) and keeps a single copy that two stages use in the same barrier phase")
    chk.result(fills["in"] and fills["out"] and in_l != out_l,
               "C15.stage-shape", f"{f.key}:stage-operands", so[0].where() if so else f.where, "StageOp gets (inputs, outputs, stage number): the first list collects the input buffers, the second the output buffers",
               f"the lists handed to StageOp are not filled as inputs (under `{flag}`) / outputs (under `not {flag}`): {fills}")
    # ---- trip count
    chk.rule("C15.trip-count", "the prologue runs nb_stages-1 iterations unconditionally, so pipelining needs `trip count >= nb_stages - 1` (a guard relating the loop's ub to the number of stages)", floor=1)
    rel = [t for t in first.fact_texts if ".ub" in t and ("stages" in t or "nb_stages" in t)]
    chk.result(bool(rel), "C15.trip-count", f"{f.key}:enough-iterations", first.where(), f"guarded by {rel[:1]}",
               "no guard relates the loop's upper bound to the number of stages: for a trip count below nb_stages - 1 the unrolled prologue "
               "executes iterations that do not exist (index values outside the iteration range)", first.fact_texts)

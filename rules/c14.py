"""C14 — dispatch runs each operation on exactly the cores it belongs to (DESIGN.md section 5, C14)."""

from __future__ import annotations

import ast

from sa import norm
from sa.errors import AnalysisError
from sa.flow import Flow, Site
from sa.model import Repo
from sa.norm import T
from sa.pipeline import pipelines
from sa.report import Check

from . import c13
from .common import callee_name, depends_on, flow_of, has_event, has_fact, subexprs

DISPATCH = "snaxc/transforms/dispatch_regions.py"
MAIN = "snaxc/tools/snaxc_main.py"
RULES = "snaxc/util/dispatching_rules.py"


def run(repo: Repo, chk: Check) -> None:
    chk.explanation = (
        "Dependency (F3), guard-dominance / must-pass-through (F2) and exhaustiveness rules on DispatchRegions: both "
        "core conditions compare the same snax_cluster_core_idx call with nb_cores-1 (dm) and 0 (compute) by `eq`, each "
        "paired with its own dispatch rule; only ops for which the rule holds are collected, a group is flushed into one "
        "scf.if before the list is reset, groups need a common parent, ops keep their order; the dispatcher runs over "
        "every block of every function with a body without short-circuit evaluation; the two predicates' may-True type "
        "sets are reported; dispatching precedes every pass that lowers dispatchable ops. Decides these clauses for all "
        "executions of the pass code, not the per-core traces of a given program."
    )
    conditions(repo, chk)
    wrap(repo, chk)
    all_blocks(repo, chk)
    disjoint(repo, chk)
    no_skip(repo, chk)
    xdma_by_type(repo, chk)
    all_extensions(repo, chk)
    kernel_tables(repo, chk)
    order(repo, chk)


def _paths(stmts: list[ast.stmt], is_event) -> list[tuple[list[tuple[ast.expr, bool]], set[str], str]]:
    """paths through one loop iteration: (branch conditions with polarity, events seen, how the iteration ends). Nested loops count as a statement
    that may or may not produce its events; try / with / match are not supported (caller raises)."""
    out: list[tuple[list[tuple[ast.expr, bool]], set[str], str]] = []

    def go(rest: list[ast.stmt], conds: list[tuple[ast.expr, bool]], ev: set[str]) -> None:
        if not rest:
            out.append((conds, ev, "end"))
            return
        st, tail = rest[0], rest[1:]
        if isinstance(st, ast.If):
            go(st.body + tail, conds + [(st.test, True)], set(ev))
            go(st.orelse + tail, conds + [(st.test, False)], set(ev))
            return
        if isinstance(st, (ast.Continue, ast.Break, ast.Return)):
            out.append((conds, ev, type(st).__name__.lower()))
            return
        if isinstance(st, ast.Raise):
            return
        if isinstance(st, ast.While) and is_event(st):
            pass  # a loop the caller reads as one event (draining the pending list)
        elif isinstance(st, (ast.Try, ast.With, ast.Match, ast.While)):
            raise AnalysisError(f"line {st.lineno}: {type(st).__name__} inside the dispatcher loop is not modelled")
        e = set(ev)
        for lab in is_event(st):
            e.add(lab)
        go(tail, conds, e)

    go(stmts, [], set())
    return out


def no_skip(repo: Repo, chk: Check) -> None:
    """the run of collected ops must end AT the first op that is not collected: an iteration that neither collects the current op nor flushes,
    while ops are pending, lets the group swallow later ops across the current one - which then executes before (or after) ops it followed"""
    import itertools

    outer = repo.func(DISPATCH, "DispatchRegionsRewriter.match_and_rewrite")
    f = outer.nested("dispatcher")
    chk.rule("C14.no-skip", "every iteration of the dispatcher walk that starts with ops pending either collects the current op or flushes the pending group "
             "(no op is passed over while a group is open)", floor=1)
    loops = [n for n in ast.walk(f.node) if isinstance(n, ast.For) and isinstance(n.target, ast.Name)
             and any(isinstance(c, ast.Call) and callee_name(c) == "append" and c.args and isinstance(c.args[0], ast.Name) and c.args[0].id == n.target.id for c in ast.walk(n))]
    if len(loops) != 1:
        # no pending group is kept across iterations in a shape this clause reads: C14.wrap (which requires the collecting walk) decides
        chk.floors["C14.no-skip"] = 0
        chk.observe(f"C14.no-skip not evaluated: {len(loops)} walks collect their own loop variable")
        return
    loop = loops[0]
    opv = loop.target.id  # type: ignore[attr-defined]
    app = next(c for c in ast.walk(loop) if isinstance(c, ast.Call) and callee_name(c) == "append" and c.args and isinstance(c.args[0], ast.Name) and c.args[0].id == opv)
    lst = ast.unparse(app.func.value)  # type: ignore[attr-defined]

    # local helpers (closures of the dispatcher or of its caller) that reset the pending list when called
    def _resets(fn: ast.AST) -> bool:
        for n in ast.walk(fn):
            if isinstance(n, ast.Call) and norm.match(T("$l.clear()"), n, {"l": lst}) is not None:
                return True
            if isinstance(n, (ast.Assign, ast.AnnAssign)) and ast.unparse(n.targets[0] if isinstance(n, ast.Assign) else n.target) == lst and (
                    isinstance(n.value, (ast.List, ast.Tuple)) and not n.value.elts) and any(isinstance(g_, ast.Nonlocal) and lst in g_.names for g_ in ast.walk(fn)):
                return True
            if isinstance(n, ast.Delete) and any(ast.unparse(t_) == f"{lst}[:]" for t_ in n.targets):
                return True
        return False

    flushers = {n.name for n in ast.walk(outer.node) if isinstance(n, ast.FunctionDef) and n is not f.node and n is not outer.node and _resets(n)}

    def is_event(st: ast.stmt) -> list[str]:
        labs = []
        for n in ast.walk(st):
            if isinstance(n, ast.Call) and isinstance(n.func, ast.Name) and n.func.id in flushers:
                labs.append("flush")
            if isinstance(n, ast.Call) and callee_name(n) in ("append", "insert", "extend") and isinstance(n.func, ast.Attribute) and ast.unparse(n.func.value) == lst and any(
                    isinstance(a, ast.Name) and a.id == opv for x in n.args for a in ast.walk(x)):
                labs.append("collect")
            if isinstance(n, ast.Call) and norm.match(T("$l.clear()"), n, {"l": lst}) is not None:
                labs.append("flush")
        if isinstance(st, (ast.Assign, ast.AnnAssign)) and ast.unparse(st.targets[0] if isinstance(st, ast.Assign) else st.target) == lst:
            v = st.value
            if isinstance(v, (ast.List, ast.Tuple)) and not v.elts or (isinstance(v, ast.Call) and callee_name(v) == "list" and not v.args):
                labs.append("flush")
            elif isinstance(v, (ast.List, ast.Tuple)) and len(v.elts) == 1 and isinstance(v.elts[0], ast.Name) and v.elts[0].id == opv:
                labs += ["flush", "collect"]
        if isinstance(st, ast.While) and norm.any_match(["$l", "len($l)", "len($l) > 0", "len($l) != 0"], st.test, {"l": lst}) is not None and not any(
                isinstance(x, (ast.Break, ast.Return)) for x in ast.walk(st)) and any(
                isinstance(x, ast.Call) and norm.any_match(["$l.pop()", "$l.pop($k)"], x, {"l": lst}) is not None for b_ in st.body for x in ast.walk(b_)):
            labs.append("flush")  # `while pending: pending.pop(..)` runs until the list is empty
        return labs

    paths = _paths(loop.body, is_event)
    pend_true = [f"len({lst})", lst, f"len({lst}) > 0", f"len({lst}) != 0", f"len({lst}) >= 1", f"bool({lst})"]
    pend_false = [f"not {lst}", f"len({lst}) == 0", f"not len({lst})", f"len({lst}) < 1"]

    def atomise(e: ast.expr, table: dict[str, int]):
        """boolean structure over atoms; the emptiness tests of the pending list are one atom (index 0)"""
        e = norm.canon(e)
        txt = ast.unparse(e)
        if txt in pend_true:
            return ("atom", 0)
        if txt in pend_false:
            return ("not", ("atom", 0))
        if isinstance(e, ast.BoolOp):
            return ("and" if isinstance(e.op, ast.And) else "or", [atomise(v, table) for v in e.values])
        if isinstance(e, ast.UnaryOp) and isinstance(e.op, ast.Not):
            return ("not", atomise(e.operand, table))
        # a comparison and its negation are one atom
        neg = ast.unparse(norm.canon(norm.negate(e)))
        if neg in table:
            return ("not", ("atom", table[neg]))
        return ("atom", table.setdefault(txt, len(table) + 1))

    def ev(t, asg) -> bool:
        k = t[0]
        if k == "atom":
            return asg[t[1]]
        if k == "not":
            return not ev(t[1], asg)
        if k == "and":
            return all(ev(x, asg) for x in t[1])
        return any(ev(x, asg) for x in t[1])

    bad_paths = []
    for conds, events, how in paths:
        if "collect" in events or "flush" in events:
            continue
        table: dict[str, int] = {}
        forms = [(atomise(c, table), pol) for c, pol in conds]
        n_atoms = len(table) + 1
        if n_atoms > 12:
            raise AnalysisError(f"{f.where}: too many conditions on one path through the dispatcher loop")
        for bits in itertools.product([False, True], repeat=n_atoms - 1):
            asg = [True, *bits]  # pending group non-empty at the start of the iteration
            if all(ev(t, asg) == pol for t, pol in forms):
                inv = {v: k for k, v in table.items()}
                bad_paths.append((how, [("" if asg[i] else "not ") + inv[i] for i in range(1, n_atoms)][:4], conds[0][0].lineno if conds else loop.lineno))
                break
    chk.result(not bad_paths, "C14.no-skip", f"{f.key}:every-op-ends-or-joins-the-group", f"{f.module.relpath}:{bad_paths[0][2] if bad_paths else loop.lineno}",
               f"all {len(paths)} paths through an iteration collect the op, flush the group, or start with no op pending",
               f"with ops pending, an iteration can end ({bad_paths[0][0] if bad_paths else ''}) without collecting the current op and without flushing, e.g. when "
               f"{bad_paths[0][1] if bad_paths else ''}: the op is passed over and the group later moves as one block, so the ops collected after it execute before it")


def all_extensions(repo: Repo, chk: Check) -> None:
    """`the kernel is provided by a streamer extension` quantifies over every extension of XDMA_EXT_SET. A lookup table built from the set answers the
    same question only if its key tells the extensions apart - two extensions may support the same kernel op for different element types"""
    chk.rule("C14.all-extensions", "both dispatch rules compare the region's kernel with the supported kernel of EVERY extension in XDMA_EXT_SET (a scan of the set, or a table "
             "whose key is distinct for all extensions that support a kernel)", floor=2)
    ext_mod = repo.module("snaxc/accelerators/streamers/extensions/__init__.py")
    ext_set = ext_mod.consts.get("XDMA_EXT_SET")
    if not isinstance(ext_set, (ast.Tuple, ast.List, ast.Set)):
        raise AnalysisError("XDMA_EXT_SET is not a literal collection of extension classes")
    kernels: dict[str, tuple[str, str] | None] = {}
    for e in ext_set.elts:
        nm = ast.unparse(e).split(".")[-1]
        cls = next((c for c in repo.all_classes() if c.name == nm), None)
        if cls is None:
            raise AnalysisError(f"extension class {nm} not found")
        sk = None
        found = False
        for c in [cls, *repo.mro(cls)[1:]] if hasattr(repo, "mro") else [cls]:
            for st in c.node.body:
                tgt = st.targets[0] if isinstance(st, ast.Assign) and len(st.targets) == 1 else st.target if isinstance(st, ast.AnnAssign) and st.value is not None else None
                if isinstance(tgt, ast.Name) and tgt.id == "supported_kernel":
                    v = st.value
                    found = True
                    if isinstance(v, ast.Call) and callee_name(v) == "SupportedKernel" and len(v.args) >= 2:
                        sk = (ast.unparse(v.args[0]), ast.unparse(v.args[1]))
                    elif isinstance(v, ast.Constant) and v.value is None:
                        sk = None
                    else:
                        raise AnalysisError(f"{c.where}: supported_kernel of {nm} is not a literal SupportedKernel(...) or None")
                    break
            if found:
                break
        if not found:
            raise AnalysisError(f"supported_kernel of {nm} not found")
        kernels[nm] = sk
    # an answer remembered between calls must be keyed by what it depends on: is_same_kernel compares the kernel's type AND its element types
    from .common import memo_audit

    rmod = repo.module(RULES)
    for hf in rmod.funcs.values():
        for cont, node, problems, unknown in memo_audit(hf, repo):
            where = f"{rmod.relpath}:{getattr(node, 'lineno', 0)}"
            if problems:
                chk.bad("C14.all-extensions", f"{hf.key}:{cont}", where,
                        f"the classification is remembered in `{cont}` under a key that does not determine it: {problems}; the first kernel of a type seen in the process decides for "
                        "every later kernel of that type, whatever its element types (an xDMA add on i32 is not data movement once an i64 add was classified)")
            elif unknown:
                raise AnalysisError(f"{where}: cache `{cont}` of {hf.qualname}: cannot tell whether the key determines the classification ({unknown})")
    for qual in ("dispatch_to_dm", "dispatch_to_compute"):
        f = repo.func(RULES, qual)
        # the scan may sit in a plain helper of the module that the rule calls
        nodes = [f.node] + [rmod.funcs[c.func.id].node for c in ast.walk(f.node) if isinstance(c, ast.Call) and isinstance(c.func, ast.Name) and c.func.id in rmod.funcs
                            and rmod.funcs[c.func.id].node is not f.node]
        scans = [n for root in nodes for n in ast.walk(root) if isinstance(n, (ast.comprehension, ast.For)) and isinstance(n.iter, ast.Name) and n.iter.id == "XDMA_EXT_SET"]
        same = [n for root in nodes for n in ast.walk(root) if isinstance(n, ast.Call) and callee_name(n) == "is_same_kernel"]
        if scans and same:
            chk.ok("C14.all-extensions", f"{f.key}:scan", f.where, f"the kernel is compared with every extension of XDMA_EXT_SET ({len(kernels)} extensions)")
            continue
        tables = [n.id for n in ast.walk(f.node) if isinstance(n, ast.Name) and n.id in f.module.consts and isinstance(f.module.consts[n.id], ast.DictComp)]
        judged = False
        for t in dict.fromkeys(tables):
            d = f.module.consts[t]
            assert isinstance(d, ast.DictComp)
            g = d.generators[0]
            if not (len(d.generators) == 1 and isinstance(g.iter, ast.Name) and g.iter.id == "XDMA_EXT_SET" and isinstance(g.target, ast.Name)):
                continue
            ev_ = g.target.id
            ktxt = ast.unparse(d.key)
            proj = {f"{ev_}.supported_kernel.kernel_type": lambda sk: sk[0], f"{ev_}.supported_kernel": lambda sk: sk,
                    f"({ev_}.supported_kernel.kernel_type, {ev_}.supported_kernel.types)": lambda sk: sk, f"{ev_}": None, f"{ev_}.name": None}
            if ktxt not in proj:
                raise AnalysisError(f"{f.where}: table `{t}` is keyed by `{ktxt}`, which is not evaluated")
            judged = True
            if proj[ktxt] is None:
                chk.ok("C14.all-extensions", f"{f.key}:table:{t}", f.where, f"`{t}` has one entry per extension")
                continue
            keys: dict[object, list[str]] = {}
            for nm, sk in kernels.items():
                if sk is not None:
                    keys.setdefault(proj[ktxt](sk), []).append(nm)
            clash = {str(k): v for k, v in keys.items() if len(v) > 1}
            chk.result(not clash, "C14.all-extensions", f"{f.key}:table:{t}", f.where, f"`{t}` tells all {len(keys)} kernel-providing extensions apart",
                       f"`{t}` is keyed by `{ktxt}`, which is the same for {clash}: only the last of them survives in the table, a region whose kernel the other one provides is no "
                       "longer recognised as data movement (and is not compute either, so it runs on every core)")
        if not judged:
            raise AnalysisError(f"{f.where}: how the rule consults the extension set is not recognised")


def xdma_by_type(repo: Repo, chk: Check) -> None:
    """whether a streaming region is data movement depends on what its accelerator IS, not on what it is called: accelerators are registered
    under arbitrary names (AccContext.register_accelerator(name, factory)), and an xDMA registered under another name is still an xDMA"""
    chk.rule(
        "C14.xdma-by-type",
        "both dispatch rules decide the data-movement case of a streaming region on the accelerator object the context returns for the op's own "
        "accelerator name (isinstance(ctx.get_acc(op.accelerator.data), SNAXXDMAAccelerator)), never on the registered name",
        floor=2,
    )
    for qual in ("dispatch_to_dm", "dispatch_to_compute"):
        f, fl = flow_of(repo, chk, RULES, qual)
        op, ctx = f.param(0), f.param(1)
        by_type = by_name = None
        for s in fl.sites:
            if not s.reachable:
                continue
            for fa in s.facts:
                if fa.kind != "atom":
                    continue
                m = norm.any_match(["isinstance($c.get_acc($o.accelerator.data), SNAXXDMAAccelerator)", "isinstance($c.get_acc($o.accelerator.data), snax_xdma.SNAXXDMAAccelerator)",
                                    "isinstance($c.get_acc($o.accelerator.data), (SNAXXDMAAccelerator,))"], fa.expr, {"o": op, "c": ctx})
                if m is not None:
                    by_type = by_type or s
                if isinstance(fa.expr, ast.Compare) and norm.contains(fa.expr, T("SNAXXDMAAccelerator.name")) or (
                        isinstance(fa.expr, ast.Compare) and norm.contains(fa.expr, T("$o.accelerator.data"), {"o": op}) and any(
                            isinstance(c_, ast.Constant) and isinstance(c_.value, str) for c_ in ast.walk(fa.expr))):
                    by_name = by_name or s
        if by_type is None and by_name is None:
            raise AnalysisError(f"{f.where}: how the rule recognises an xDMA streaming region is not recognised")
        chk.result(by_name is None and by_type is not None, "C14.xdma-by-type", f"{f.key}:xdma-test", (by_name or by_type).where(),
                   "the xDMA case is decided on the type of the accelerator the context returns for the op's accelerator name",
                   "the xDMA case is decided by comparing the registered NAME: an xDMA (sub)class registered under another name is not recognised, its extension-kernel "
                   "regions are classified as compute and guarded by core 0 instead of the data-mover core")


def conditions(repo: Repo, chk: Check) -> None:
    f, fl = flow_of(repo, chk, DISPATCH, "DispatchRegionsRewriter.match_and_rewrite")
    chk.rule(
        "C14.conditions",
        "dm guard = cmpi eq(core_idx call, const(nb_cores - 1)) used with dispatch_to_dm; compute guard = cmpi eq(same "
        "call, const 0) used with dispatch_to_compute; the call is snax_cluster_core_idx and is pinned to range(nb_cores)",
        floor=5,
    )
    calls = [s for s in fl.calls("dispatcher") if s.reachable]
    # (site, condition expression, rule expression) of every use of the dispatcher: called directly, or through a local driver that hands its own
    # parameters on to it (`def dispatch_all_blocks(core_cond, rule): ... dispatcher(block, core_cond, lambda x: rule(x, self.ctx))`)
    uses: list[tuple[Site, ast.expr, ast.expr]] = []
    for s in calls:
        c = s.node
        assert isinstance(c, ast.Call)
        if len(c.args) < 3:
            raise AnalysisError(f"{s.where()}: dispatcher call with fewer than 3 arguments")
        uses.append((s, s.expand(c.args[1]), c.args[2]))
    if len(uses) < 2:
        for h in [n for n in ast.walk(f.node) if isinstance(n, ast.FunctionDef) and n is not f.node and n.name != "dispatcher"]:
            inner = [c for c in ast.walk(h) if isinstance(c, ast.Call) and callee_name(c) == "dispatcher" and len(c.args) >= 3]
            if len(inner) != 1:
                continue
            hp = [a.arg for a in h.args.args]
            for s in [x for x in fl.calls(h.name) if x.reachable]:
                if len(s.node.args) != len(hp) or s.node.keywords:
                    raise AnalysisError(f"{s.where()}: call of the local driver {h.name} with other than positional arguments")
                from sa.flow import expand as _expand
                sub = {p_: s.expand(a_) for p_, a_ in zip(hp, s.node.args)}
                uses.append((s, _expand(inner[0].args[1], sub), _expand(inner[0].args[2], sub)))
    if len(uses) < 2:
        raise AnalysisError(f"{f.where}: expected two dispatcher(...) calls")
    seen = {}
    core_calls = set()
    for s, cond, rule in uses:
        which = "dm" if "dispatch_to_dm" in ast.unparse(rule) else "compute" if "dispatch_to_compute" in ast.unparse(rule) else None
        if which is None:
            chk.bad("C14.conditions", f"{f.key}:rule", s.where(), f"dispatcher is called with rule {ast.unparse(rule)[:60]}")
            continue
        lam_ok = isinstance(rule, ast.Lambda) and isinstance(rule.body, ast.Call) and len(rule.body.args) >= 1 and ast.unparse(rule.body.args[0]) == rule.args.args[0].arg
        m = norm.match(T('arith.CmpiOp($call, $cst, "eq").result'), cond)
        want = "self.nb_cores - 1" if which == "dm" else "0"
        ok = m is not None and norm.match(T(f"arith.ConstantOp.from_int_and_width({want}, builtin.i32)"), m["cst"]) is not None
        chk.result(ok and lam_ok, "C14.conditions", f"{f.key}:{which}-condition", s.where(),
                   f"{which} ops are guarded by core_idx == {want}",
                   f"the {which} guard is {ast.unparse(cond)[:140]}; expected CmpiOp(core idx call, const {want}, \"eq\")")
        if m is not None:
            core_calls.add(ast.unparse(m["call"]))
            seen[which] = True
            chk.result(norm.match(T('func.CallOp("snax_cluster_core_idx", [], [builtin.i32])'), m["call"]) is not None, "C14.conditions",
                       f"{f.key}:{which}-core-call", s.where(), "the compared value is the result of snax_cluster_core_idx()")
    chk.result(len(core_calls) == 1 and set(seen) == {"dm", "compute"}, "C14.conditions", f"{f.key}:same-call", f.where,
               "both guards compare the same core-id call; both kinds are dispatched",
               f"the two guards use different core-id values {sorted(core_calls)} or one dispatch kind is missing {sorted(seen)}")
    pins = [s for s in fl.calls("ArrayAttr") if s.reachable]
    okp = any(subexprs(s.node, "[builtin.IntegerAttr($i, 32) for $i in range(self.nb_cores)]") for s in pins) and "pin_to_constants" in ast.unparse(f.node)
    chk.result(okp, "C14.conditions", f"{f.key}:pin", pins[0].where() if pins else f.where, "the core-id call is pinned to the constants 0..nb_cores-1",
               "pin_to_constants no longer enumerates range(nb_cores)")


def wrap(repo: Repo, chk: Check) -> None:
    outer = repo.func(DISPATCH, "DispatchRegionsRewriter.match_and_rewrite")
    f = outer.nested("dispatcher")
    chk.analysed(f.key)
    block_p, cond_p, rule_p = f.param(0), f.param(1), f.param(2)
    fl0 = Flow(f, repo)
    chk.rule(
        "C14.wrap",
        "dispatcher: ops are collected only under dispatch_rule(op); a pending group is flushed when the next op is not "
        "dispatchable or has another parent; the group is moved in order into one scf.if(core_cond) inserted before its "
        "first op, and only then the list is reset; terminators are never dispatchable (so every group is flushed)",
        floor=7,
    )
    apps = [s for s in fl0.calls("append") if s.reachable]
    if not apps:
        raise AnalysisError(f"{f.where}: no append")
    lst = ast.unparse(apps[0].node.func.value)  # type: ignore[attr-defined]
    for s in apps:
        chk.result(bool(has_fact(s, ["$r($o)"], {"r": rule_p, "o": s.node.args[0]})), "C14.wrap", f"{f.key}:collect", s.where(),
                   "collected only under dispatch_rule(op)", "an op is collected without dispatch_rule(op)", s.fact_texts)
    move_stmt = None
    for n in ast.walk(f.node):
        if isinstance(n, ast.For) and ast.unparse(n.iter) == lst and any(isinstance(x, ast.Call) and callee_name(x) == "detach" for x in ast.walk(n)):
            move_stmt = n
    if move_stmt is None:
        # the move lives in a local function that is handed the pending list: `def guard_ops(group): for o in group: ...` called as guard_ops(pending)
        for h in [x for x in ast.walk(f.node) if isinstance(x, ast.FunctionDef) and x is not f.node]:
            hp = [a.arg for a in h.args.args]
            for n in ast.walk(h):
                if isinstance(n, ast.For) and isinstance(n.iter, ast.Name) and n.iter.id in hp and any(isinstance(x, ast.Call) and callee_name(x) == "detach" for x in ast.walk(n)):
                    k_ = hp.index(n.iter.id)
                    sites_h = [c for c in ast.walk(f.node) if isinstance(c, ast.Call) and isinstance(c.func, ast.Name) and c.func.id == h.name]
                    if sites_h and all(len(c.args) > k_ and ast.unparse(c.args[k_]) == lst for c in sites_h):
                        move_stmt = n
    drain_var = drain_front = None
    if move_stmt is None:
        # the list is drained while it is moved: `while pending: o = pending.pop(..); o.detach(); ..` - pop(0) takes the ops in list order,
        # pop() takes them last first; the drained list needs no separate reset
        for n in ast.walk(f.node):
            if isinstance(n, ast.While) and norm.any_match(["$l", "len($l)", "len($l) > 0", "len($l) != 0"], n.test, {"l": lst}) is not None \
                    and any(isinstance(x, ast.Call) and callee_name(x) == "detach" for x in ast.walk(n)):
                pops = [st for st in n.body if isinstance(st, ast.Assign) and isinstance(st.targets[0], ast.Name) and norm.any_match(["$l.pop()", "$l.pop($k)"], st.value, {"l": lst}) is not None]
                if len(pops) == 1 and pops[0] is n.body[0]:
                    move_stmt = n
                    drain_var = pops[0].targets[0].id  # type: ignore[union-attr]
                    k_ = pops[0].value.args[0] if pops[0].value.args else None  # type: ignore[union-attr]
                    drain_front = isinstance(k_, ast.Constant) and k_.value == 0
    if move_stmt is None:
        raise AnalysisError(f"{f.where}: the loop moving the collected ops was not found")
    def _pos(st: ast.AST) -> tuple:
        # a closure walked at its call site is a copy of its statements: identify a statement by its source position
        return (type(st).__name__, getattr(st, "lineno", None), getattr(st, "col_offset", None), getattr(st, "end_lineno", None))

    fl = Flow(f, repo, events={"moved": lambda st, w=_pos(move_stmt): _pos(st) == w})
    resets = [s for s in fl.stmts(ast.Assign, ast.AnnAssign) if s.reachable and s.loops and isinstance(getattr(s.node, "value", None), ast.List) and not s.node.value.elts
              and ast.unparse(s.node.targets[0] if isinstance(s.node, ast.Assign) else s.node.target) == lst]
    resets += [s for s in fl.stmts(ast.Expr) if s.reachable and s.loops and isinstance(s.node.value, ast.Call)
               and norm.match(T("$l.clear()"), s.node.value, {"l": lst}) is not None]
    chk.result((bool(resets) or drain_var is not None) and all(has_event(s, "moved") for s in resets), "C14.wrap", f"{f.key}:flush-before-reset", resets[0].where() if resets else f.where,
               "the pending list is only reset after its ops were moved into the scf.if",
               "the pending list can be reset without moving its ops: those ops stay unguarded and run on every core")
    # flush condition
    flush_if = None
    for n in ast.walk(f.node):
        if isinstance(n, ast.If) and any(x is move_stmt for x in ast.walk(n)):
            flush_if = n
            break
    ok_cond = False
    if flush_if is not None:
        m = norm.any_match(["len($l) and (not $r($o) or $o.parent is not $l[-1].parent)", "$l and (not $r($o) or $o.parent is not $l[-1].parent)",
                            "len($l) > 0 and (not $r($o) or $o.parent is not $l[-1].parent)",
                            "len($l) and (not $r($o) or $o.parent_block() is not $l[-1].parent_block())"], flush_if.test, {"l": lst, "r": rule_p})
        ok_cond = m is not None
    if flush_if is None:
        # the move lives in a helper walked at its call site: read the condition off the facts that dominate the move
        for ms in [x for x in fl.stmts(ast.For) if x.reachable and _pos(x.node) == _pos(move_stmt)]:
            op_vars = {l.target.id for l in ms.loops if isinstance(l, ast.For) and isinstance(l.target, ast.Name)}
            about_op = [fa for fa in ms.facts if fa.kind == "atom" and (fa.names() & op_vars)]
            nonempty = bool(has_fact(ms, ["len($l)", "$l", "len($l) > 0"], {"l": lst}))
            either = [fa for fa in about_op if norm.any_match(
                ["not $r($o) or $o.parent is not $l[-1].parent", "not $r($o) or $o.parent_block() is not $l[-1].parent_block()"], fa.expr, {"l": lst, "r": rule_p}) is not None]
            # exactly this disjunction and nothing else about the current op: the group is flushed whenever it holds
            ok_cond = ok_cond or (nonempty and len(either) == 1 and len(about_op) == 1)
            flush_if = flush_if or ms.stmt
    chk.result(ok_cond, "C14.wrap", f"{f.key}:flush-condition", f"{f.module.relpath}:{flush_if.lineno if flush_if else f.node.lineno}",
               "a non-empty group is flushed when the next op is not dispatchable or has another parent",
               f"flush condition is `{ast.unparse(flush_if.test)[:140] if isinstance(flush_if, ast.If) else None}`; expected `pending and (not rule(op) or op.parent is not pending[-1].parent)`")
    ifs = [s for s in fl.calls("IfOp") if s.reachable]
    ok_if = any(len(s.node.args) >= 1 and ast.unparse(s.node.args[0]) == cond_p for s in ifs)
    chk.result(ok_if, "C14.wrap", f"{f.key}:guard", ifs[0].where() if ifs else f.where, "the scf.if tests the given core condition", "the scf.if does not test core_cond")
    ins = [s for s in fl.calls("insert_op") if s.reachable]
    ok_first = any(len(s.node.args) > 1 and norm.match(T("InsertPoint.before($l[0])"), s.node.args[1], {"l": lst}) is not None for s in ins)
    chk.result(ok_first, "C14.wrap", f"{f.key}:if-position", f.where, "the scf.if is inserted where the first op of the group was",
               "the scf.if is not inserted before the first collected op: the group changes its position relative to other ops")
    ok_order = False
    for s in ins:
        lp = [l for l in s.loops if _pos(l) == _pos(move_stmt)]
        if not (lp and len(s.node.args) > 1 and depends_on(s.expand(s.node.args[1]), "InsertPoint.before($y)")):
            continue
        if drain_var is not None:
            ok_order = ok_order or (ast.unparse(s.node.args[0]) == drain_var and bool(drain_front))
        elif ast.unparse(s.node.args[0]) == ast.unparse(lp[0].target):
            ok_order = True
    chk.result(ok_order, "C14.wrap", f"{f.key}:order", f.where, "ops are re-inserted before the scf.yield in list order (original order)",
               "collected ops are not re-inserted in list order before the yield" + (
                   f": `{lst}.pop()` takes the group last op first, so a group of two or more ops runs in reverse order inside its guard" if drain_var is not None and not drain_front else ""))
    walks = [s for s in fl.stmts(ast.For) if s.reachable and norm.any_match(["$b.walk(region_first=True)"], s.node.iter, {"b": block_p}) is not None]
    chk.result(bool(walks), "C14.wrap", f"{f.key}:walk", f.where, "every op nested in the block is visited (walk, regions first so that a region's terminator flushes its group)",
               "the dispatcher no longer walks all nested ops of the block with region_first=True")
    # terminators are outside both type sets
    for qual in ("dispatch_to_dm", "dispatch_to_compute"):
        cls, problems = c13.true_classes(repo, chk, qual)
        bad = [c for c in cls if c.split(".")[-1] in c13.NEVER_DISPATCHABLE]
        chk.result(not bad and not problems, "C14.wrap", f"{RULES}:{qual}:terminators", repo.func(RULES, qual).where,
                   "terminators / calls are never dispatchable, so the last op of every block flushes the pending group")


def all_blocks(repo: Repo, chk: Check) -> None:
    f, fl = flow_of(repo, chk, DISPATCH, "DispatchRegionsRewriter.match_and_rewrite")
    fn = f.param(1)
    chk.rule(
        "C14.all-blocks",
        "dispatcher(...) is evaluated for every block of the function: never inside a generator consumed by any()/all() "
        "or a short-circuit operand; and no early return skips functions that have a body",
        floor=3,
    )
    parents: dict[int, ast.AST] = {}
    scope = [f.node]
    for root in scope:
        for n in ast.walk(root):
            for c in ast.iter_child_nodes(n):
                parents[id(c)] = n
    n_calls = 0
    for n in ast.walk(f.node):
        if isinstance(n, ast.Call) and callee_name(n) == "dispatcher":
            n_calls += 1
            cur: ast.AST = n
            lazy = None
            over_blocks = False
            while id(cur) in parents:
                par = parents[id(cur)]
                if isinstance(par, ast.GeneratorExp):
                    gp = parents.get(id(par))
                    if isinstance(gp, ast.Call) and callee_name(gp) in ("any", "all", "next"):
                        lazy = f"generator consumed by {callee_name(gp)}()"
                if isinstance(par, (ast.GeneratorExp, ast.ListComp)):
                    over_blocks = over_blocks or any(norm.any_match(["$f.body.blocks", "$f.regions[0].blocks"], g.iter, {"f": fn}) is not None for g in par.generators)
                if isinstance(par, ast.For) and norm.any_match(["$f.body.blocks"], par.iter, {"f": fn}) is not None:
                    over_blocks = True
                if isinstance(par, ast.BoolOp) and par.values and cur is not par.values[0]:
                    lazy = "right operand of a short-circuit and/or"
                if isinstance(par, ast.FunctionDef) and par is not f.node and par.name == "dispatcher":
                    break
                cur = par
            in_helper = any(isinstance(p, ast.FunctionDef) and p.name == "dispatcher" for p in _ancestors(n, parents))
            key = f"{f.key}:dispatcher-call#{n_calls}"
            where = f"{f.module.relpath}:{n.lineno}"
            chk.result(lazy is None, "C14.all-blocks", key + ":eager", where, "the dispatcher call is always evaluated",
                       f"dispatcher(...) is evaluated lazily ({lazy}): after the first block/region that reports a change the remaining ones are skipped "
                       "and their dispatchable ops run on every core")
            if not in_helper:
                chk.result(over_blocks, "C14.all-blocks", key + ":every-block", where, "called for every block of the function body",
                           "dispatcher is not called for every block of func_op.body.blocks")
    # a local driver that runs the dispatcher over the blocks stands for one use per call of it; those calls must be eager too
    drivers = [h for h in ast.walk(f.node) if isinstance(h, ast.FunctionDef) and h is not f.node and h.name != "dispatcher"
               and any(isinstance(c, ast.Call) and callee_name(c) == "dispatcher" for c in ast.walk(h))]
    n_uses = n_calls
    for h in drivers:
        n_inner = sum(1 for c in ast.walk(h) if isinstance(c, ast.Call) and callee_name(c) == "dispatcher")
        sites_h = [c for c in ast.walk(f.node) if isinstance(c, ast.Call) and isinstance(c.func, ast.Name) and c.func.id == h.name]
        n_uses += n_inner * (len(sites_h) - 1)
        for k_, c in enumerate(sites_h, 1):
            cur = c
            lazy = None
            while id(cur) in parents:
                par = parents[id(cur)]
                if isinstance(par, ast.GeneratorExp) and isinstance(parents.get(id(par)), ast.Call) and callee_name(parents[id(par)]) in ("any", "all", "next"):
                    lazy = f"generator consumed by {callee_name(parents[id(par)])}()"
                if isinstance(par, ast.BoolOp) and par.values and cur is not par.values[0]:
                    lazy = "right operand of a short-circuit and/or"
                if isinstance(par, (ast.For, ast.While, ast.If)) and cur is not getattr(par, "test", None) and cur is not getattr(par, "iter", None) and isinstance(par, ast.If) and False:
                    pass
                cur = par
            chk.result(lazy is None, "C14.all-blocks", f"{f.key}:{h.name}-call#{k_}:eager", f"{f.module.relpath}:{c.lineno}", f"the local driver {h.name} is always evaluated",
                       f"{h.name}(...), which runs the dispatcher, is evaluated lazily ({lazy}): one kind of op is not dispatched when the other kind reported a change")
    if n_uses < 2:
        raise AnalysisError(f"{f.where}: dispatcher calls not found")
    # early returns before dispatching
    first_line = min(n.lineno for n in ast.walk(f.node) if isinstance(n, ast.Call) and callee_name(n) == "dispatcher" and not any(
        isinstance(p, ast.FunctionDef) and p.name == "dispatcher" for p in _ancestors(n, parents)))
    for s in fl.stmts(ast.Return):
        if s.line < first_line and s.reachable:
            ok = bool(has_fact(s, ["$f.is_declaration", "len($f.body.blocks) == 0", "not $f.body.blocks", "$f.body.blocks == []"], {"f": fn}))
            chk.result(ok, "C14.all-blocks", f"{f.key}:early-return@{s.line - f.node.lineno}", s.where(), "only declarations (no body) are skipped",
                       "the pattern returns before dispatching under a condition other than `the function has no body`: such functions keep "
                       "all their ops on every core", s.fact_texts)
    chk.ok("C14.all-blocks", f"{f.key}:no-skip", f.where, "no early return skips a function with a body", nontrivial=False)


def _ancestors(n: ast.AST, parents: dict[int, ast.AST]) -> list[ast.AST]:
    out = []
    cur = n
    while id(cur) in parents:
        cur = parents[id(cur)]
        out.append(cur)
    return out


def disjoint(repo: Repo, chk: Check) -> None:
    chk.rule("C14.disjoint", "no concrete op kind is unconditionally in both may-True type sets", floor=1)
    dm, _ = c13.true_classes(repo, chk, "dispatch_to_dm")
    comp, _ = c13.true_classes(repo, chk, "dispatch_to_compute")
    shared = {c.split(".")[-1] for c in dm} & {c.split(".")[-1] for c in comp}
    only_base = shared <= {"StreamingRegionOpBase"}
    chk.result(only_base, "C14.disjoint", f"{RULES}:type-sets", repo.func(RULES, "dispatch_to_dm").where,
               f"dm: {sorted(dm)}; compute: {sorted(comp)}; shared: {sorted(shared)} (split by the kernel test)",
               f"op kinds {sorted(shared - {'StreamingRegionOpBase'})} are dispatchable to both the dm and the compute core")
    # the two rules split the xDMA streaming regions by ONE test: dm takes the region iff some extension provides its kernel, compute takes it iff none does
    fc, flc = flow_of(repo, chk, RULES, "dispatch_to_compute")
    n_ = 0
    for s in flc.stmts(ast.Return):
        if not (s.reachable and isinstance(s.node.value, ast.Constant) and s.node.value.value is False):
            continue
        for fa in s.facts:
            q = norm.qnf(fa.expr) if fa.kind == "atom" else None
            if q is None or not any(isinstance(c_, ast.Call) and callee_name(c_) == "is_same_kernel" for c_ in ast.walk(q[4])):
                continue
            n_ += 1
            body = norm.canon(q[4])
            positive = q[0] == "any" and not norm.is_not(body)
            chk.result(positive, "C14.disjoint", f"{fc.key}:xdma-complement", s.where(),
                       "an xDMA region is kept off the compute core only if SOME extension provides its kernel (the test dispatch_to_dm accepts it by)",
                       f"an xDMA region is kept off the compute core if `{fa.text[:110]}`: with two or more extensions that holds for every kernel, also for one that no "
                       "extension provides - dispatch_to_dm declines it too, the region gets no guard and runs on every core")
    if n_ == 0:
        chk.observe("C14.disjoint xdma-complement not evaluated: dispatch_to_compute has no declining return under a quantified is_same_kernel test")
    # .. and it is ONE test: both rules ask the extensions about the same kernel op of the region
    def _kernel_args(fn_flow) -> set[str]:
        out_: set[str] = set()
        for s_ in fn_flow.stmts(ast.Return):
            if not s_.reachable:
                continue
            for fa in s_.facts:
                if fa.kind != "atom":
                    continue
                q_ = norm.qnf(fa.expr)
                for c_ in ast.walk(fa.expr):
                    if isinstance(c_, ast.Call) and callee_name(c_) == "is_same_kernel" and c_.args:
                        a_ = c_.args[0]
                        # a kernel drawn from a collection is named by the collection
                        if q_ is not None and isinstance(a_, ast.Name) and a_.id == q_[1]:
                            a_ = q_[2]
                        out_.add(ast.unparse(norm.canon(a_)))
        return out_

    fd, fld = flow_of(repo, chk, RULES, "dispatch_to_dm")
    ka, kb = _kernel_args(fld), _kernel_args(flc)
    if ka and kb:
        chk.result(ka == kb, "C14.disjoint", f"{RULES}:same-kernel", fd.where, f"both rules test the kernel `{sorted(ka)[0][:60]}`",
                   f"dispatch_to_dm asks the extensions about {sorted(ka)} and dispatch_to_compute about {sorted(kb)}: for a region where the two differ (a fused region whose "
                   "first kernel is no extension kernel but a later one is) both rules claim the region, it is wrapped in both guards and runs on no core")
    # unconditional True for a copy / generic
    for qual, cls in (("dispatch_to_dm", ("memref.CopyOp", "CopyOp")), ("dispatch_to_compute", ("linalg.GenericOp", "GenericOp"))):
        f, fl = flow_of(repo, chk, RULES, qual)
        op = f.param(0)
        ok = False
        for s in fl.stmts(ast.Return):
            if isinstance(s.node.value, ast.Constant) and s.node.value.value is True:
                for c in cls:
                    if has_fact(s, [f"isinstance($o, {c})"], {"o": op}) and len([x for x in s.facts if x.kind == "atom"]) == 1:
                        ok = True
        chk.result(ok, "C14.disjoint", f"{f.key}:base-kind", f.where, f"{cls[0]} is unconditionally dispatched by {qual}",
                   f"{cls[0]} is no longer unconditionally dispatched by {qual}")


ONE_SHOT = ("reversed", "iter", "map", "filter", "zip", "enumerate", "chain", "islice")


def kernel_tables(repo: Repo, chk: Check) -> None:
    """the kernel an extension / accelerator supports is a table that is consulted for every op of every function (`list(self.operand_types) == ..`):
    its operand types have to be re-iterable. A one-shot iterator (reversed(..), map(..), a generator expression) gives its elements to the first
    query only; from the second query on the kernel matches nothing, the region is classified for no core and runs on all of them"""
    chk.rule("C14.kernel-tables", "every SupportedKernel is built with a re-iterable sequence of operand types (literal, name of one, tuple(..) / list(..)), never "
             "with a one-shot iterator", floor=8)
    n_ = 0
    for rel, m in sorted(repo.modules.items()):
        consts = getattr(m, "consts", {})
        for c in ast.walk(m.tree):
            if not (isinstance(c, ast.Call) and callee_name(c) == "SupportedKernel"):
                continue
            arg = c.args[1] if len(c.args) > 1 else next((k.value for k in c.keywords if k.arg == "operand_types"), None)
            if arg is None:
                continue
            n_ += 1
            a = arg
            if isinstance(a, ast.Name) and isinstance(consts.get(a.id), ast.AST):
                a = consts[a.id]
            one_shot = isinstance(a, ast.GeneratorExp) or (isinstance(a, ast.Call) and isinstance(a.func, ast.Name) and a.func.id in ONE_SHOT)
            chk.result(not one_shot, "C14.kernel-tables", f"{rel}:SupportedKernel#{n_}", f"{rel}:{c.lineno}",
                       "operand types are a re-iterable sequence",
                       f"operand types are `{ast.unparse(arg)[:60]}`, a one-shot iterator: `is_same_kernel` consumes it on the first query, every later op of that "
                       "kernel matches no extension, is dispatched to no core and runs on all cores")


def order(repo: Repo, chk: Check) -> None:
    f = repo.func(MAIN, "SNAXCMain.setup_pipeline")
    chk.analysed(f.key)
    pipes = pipelines(f)
    chk.rule("C14.order", "DispatchRegions precedes every pass that lowers a dispatchable op kind (ConvertDartToSnaxStream, ConvertLinalgToAccPass, SNAXCopyToDMA) in every pipeline", floor=8)
    lowerers = ("ConvertDartToSnaxStream", "ConvertLinalgToAccPass", "SNAXCopyToDMA")
    for val, seq in pipes.items():
        label = ",".join(f"{k.split('.')[-1]}={int(v)}" for k, v in val)
        if "DispatchRegions" not in seq:
            chk.bad("C14.order", f"{f.key}:{label}", f.where, f"[{label}] DispatchRegions missing")
            continue
        d = seq.index("DispatchRegions")
        early = [p for p in seq[:d] if p in lowerers]
        chk.result(not early and seq.count("DispatchRegions") == 1, "C14.order", f"{f.key}:{label}", f.where,
                   f"[{label}] DispatchRegions at position {d}, lowerings after it",
                   f"[{label}] {early} lower dispatchable ops before DispatchRegions runs: they are never guarded")

"""C12 — materialised casts deliver the right data to every consumer (DESIGN.md section 5, C12).

Placement / direction / guard clauses only; the byte permutation of transform_constant is arithmetic.
"""

from __future__ import annotations

import ast
import re

from sa import norm
from sa.errors import AnalysisError
from sa.flow import Flow, Site
from sa.model import Func, Repo
from sa.norm import T
from sa.report import Check

from .common import expand_with_loops, has_forall, callee_name, depends_on, every_alt_has, flow_of, g, has_fact, mutation_sites, op_param, require_guards, rewriter_param, subexprs

CASTS = "snaxc/transforms/realize_memref_casts.py"
SPACE = "snaxc/transforms/set_memory_space.py"


def run(repo: Repo, chk: Check) -> None:
    chk.explanation = (
        "Dependency (F3), guard-dominance (F2) and sibling (F5) rules on memory-space assignment and cast realisation: "
        "the copy-in is built source->buffer in the forward walk, placed before the first use that reads the buffer "
        "(membership in the op's inputs); the copy-out is built buffer->source in the reverse walk, placed after the "
        "last use that writes it (membership in the op's outputs; returns never count); cast chains are followed through "
        "both cast kinds identically in both places; kernel operands outside L1 are replaced by an L1 cast of that very "
        "operand; function boundaries only get L3 where no space was given and returns are cast to the function type's "
        "space; compile-time re-layout happens only for None->dense static TSL and never when a terminator, a non-cast "
        "user or another reference to the global exists. Decides these clauses, not the permutation arithmetic."
    )
    realize(repo, chk)
    chain(repo, chk)
    l1(repo, chk)
    boundary(repo, chk)
    const_permutation(repo, chk)
    const_guards(repo, chk)
    alloc_dyn_sizes(repo, chk)


# --------------------------------------------------------------------------- RealizeMemrefCasts
def realize(repo: Repo, chk: Check) -> None:
    f, fl = flow_of(repo, chk, CASTS, "RealizeMemrefCasts.match_and_rewrite")
    op = op_param(f)
    chk.rule(
        "C12.copy-in",
        "copy-in = CopyOp(chain source, cast dest), inserted once some (forward walk) use of the cast value reads it, in front of the FIRST "
        "use of the value (reader or writer); for kernel ops `reads` means membership in use_op.inputs; then the search stops",
        floor=4,
    )
    chk.rule(
        "C12.copy-out",
        "copy-out = CopyOp(cast dest, chain source) inserted after the last (reverse walk) use that writes it; for kernel "
        "ops `writes` means membership in use_op.outputs; func.return never counts; then the search stops",
        floor=4,
    )
    copies = [s for s in fl.calls("CopyOp") if s.reachable and s.loops]
    if len(copies) < 2:
        raise AnalysisError(f"{f.where}: the two CopyOp constructions were not found")
    seen = set()
    for s in copies:
        loop = [l for l in s.loops if isinstance(l, ast.For)][-1]
        rev = norm.any_match(["$p.walk(reverse=True)"], loop.iter) is not None
        fwd = norm.any_match(["$p.walk()"], loop.iter) is not None
        a0, a1 = (s.expand(a) for a in s.node.args[:2])
        def is_src(e: ast.expr) -> bool:
            # the chain's source: `<op reached by walking up the casts>.source`, or the repo's own helper for exactly that walk
            return norm.match(T("$x.source"), e) is not None or norm.match(T("get_source_operand($op)"), e, {"op": op}) is not None

        src_first = is_src(a0) and norm.match(T("$op.dest"), a1, {"op": op}) is not None
        dst_first = norm.match(T("$op.dest"), a0, {"op": op}) is not None and is_src(a1)
        which = "copy-in" if src_first else "copy-out" if dst_first else None
        if which is None:
            if any(isinstance(c_, ast.Call) and isinstance(c_.func, ast.Name) for a_ in (a0, a1) for c_ in ast.walk(a_)):
                raise AnalysisError(f"{s.where()}: CopyOp({ast.unparse(a0)[:40]}, {ast.unparse(a1)[:40]}): an operand is computed by a call that is not looked through")
            chk.bad("C12.copy-in", f"{f.key}:copy@{'rev' if rev else 'fwd'}", s.where(), f"CopyOp({ast.unparse(a0)[:40]}, {ast.unparse(a1)[:40]}) is neither source->dest nor dest->source")
            continue
        seen.add(which)
        rule = "C12." + which
        key = f"{f.key}:{which}"
        chk.result(fwd if which == "copy-in" else rev, rule, key + ":walk", s.where(),
                   f"{which} is searched in the {'forward' if which == 'copy-in' else 'reverse'} walk of the parent",
                   f"{which} is built inside a loop over `{ast.unparse(loop.iter)}`: expected the {'forward' if which == 'copy-in' else 'reverse'} walk "
                   f"(first reader / last writer)")
        # insertion point and break
        body = loop.body
        ins = [x for x in fl.calls("insert_op") if x.reachable and any(l is loop for l in x.loops)]
        want = "InsertPoint.before" if which == "copy-in" else "InsertPoint.after"
        tv = loop.target.id if isinstance(loop.target, ast.Name) else "use_op"
        if which == "copy-out":
            ok_ip = any(len(x.node.args) > 1 and ast.unparse(x.node.args[1]) == f"{want}({tv})" for x in ins)
            chk.result(ok_ip, rule, key + ":position", s.where(), f"the copy is inserted with {want}(use)",
                       f"the {which} is not inserted with {want}(use_op): data arrives after its reader / leaves before its writer")
        else:
            # the buffer is filled in front of its FIRST use (reader or writer) once some use reads it: a copy placed in front of the
            # first reader would overwrite the result of an earlier writer (the copy back only follows the last writer)
            ok_ip = False
            detail = "no InsertPoint.before(...) for the copy-in"
            for x in ins:
                if len(x.node.args) < 2:
                    continue
                m = norm.match(T("InsertPoint.before($t)"), x.node.args[1])
                if m is None:
                    continue
                if isinstance(m["t"], ast.Name) and m["t"].id == tv:
                    detail = (f"the copy-in is inserted in front of the first READER `{tv}`: if an earlier op writes the buffer (write, read, write through one cast) "
                              "its result is overwritten by the stale original")
                    continue
                if isinstance(m["t"], ast.Name):
                    fv = m["t"].id
                    # first-use variable: assigned at the top level of the loop body, after the filter on `uses`, as `fv = fv or use`
                    for i_st, st in enumerate(body):
                        if isinstance(st, ast.Assign) and any(isinstance(t, ast.Name) and t.id == fv for t in st.targets) and norm.any_match(
                                [f"{fv} or {tv}", f"{tv} if {fv} is None else {fv}", f"{fv} if {fv} is not None else {tv}"], st.value) is not None:
                            filt = [b for b in body[:i_st] if isinstance(b, ast.If) and b.body and isinstance(b.body[-1], ast.Continue)]
                            if filt:
                                ok_ip = True
                    if not ok_ip:
                        detail = f"`{fv}` is not recognisably the first use of the buffer in walk order"
            chk.result(ok_ip, rule, key + ":position", s.where(), "the copy-in is inserted in front of the first use of the buffer (reader or writer)", detail)
        flag_if = next((st for st in body if isinstance(st, ast.If) and any(x is s.node for x in ast.walk(st))), None)
        has_break = flag_if is not None and isinstance(flag_if.body[-1], ast.Break)
        chk.result(has_break, rule, key + ":only-once", s.where(), "exactly one copy is inserted (break after the first match)",
                   "the search does not stop after inserting the copy")
        chk.result(bool(has_fact(s, ["$u in $us"], {"u": tv})) or any("not in" in ast.unparse(st) and "continue" in ast.unparse(st) for st in body[:1]), rule, key + ":is-use", s.where(),
                   "only ops that use the cast value are considered")
        # classification of the use
        if flag_if is not None and _classified_by_helper(repo, chk, f, flag_if.test, tv, op, which, rule, key, s):
            continue
        if flag_if is not None and any(isinstance(c_, ast.Call) and isinstance(c_.func, ast.Name) and c_.func.id not in ("isinstance", "len", "bool") for c_ in ast.walk(flag_if.test)):
            raise AnalysisError(f"{s.where()}: whether a use {'reads' if which == 'copy-in' else 'writes'} the buffer is decided by `{ast.unparse(flag_if.test)[:60]}`, a helper the clause does not read")
        if flag_if is not None and not isinstance(flag_if.test, ast.Name):
            # no flag variable: the test itself is the classification
            _classified_inline(chk, f, s, tv, op, which, rule, key)
            continue
        flag = ast.unparse(flag_if.test) if flag_if is not None else None
        side = "inputs" if which == "copy-in" else "outputs"
        kernel_assigns = []
        for st in ast.walk(loop):
            if isinstance(st, ast.Assign) and isinstance(st.targets[0], ast.Name) and st.targets[0].id == flag and not isinstance(st.value, ast.Constant):
                kernel_assigns.append(st)
        good = bool(kernel_assigns) and all(
            norm.any_match([f"$v in {tv}.{side}"], st.value) is not None and norm.any_match(["$op.results[0]", "$op.dest"], st.value.left, {"op": op}) is not None  # type: ignore[attr-defined]
            for st in kernel_assigns
        )
        chk.result(good, rule, key + ":classification", s.where(),
                   f"a kernel op {'reads' if which == 'copy-in' else 'writes'} the buffer iff the cast value is in its {side}",
                   f"for kernel ops the {'read' if which == 'copy-in' else 'write'} test is {[ast.unparse(st.value) for st in kernel_assigns]}; expected "
                   f"`cast value in use_op.{side}` (an operand used as both input and output must count for both copies)")
        # every other user counts as a reader / writer (it may be one): only func.return is known not to write
        denied = []
        for if_ in [st for st in ast.walk(loop) if isinstance(st, ast.If)]:
            for b_ in if_.body:
                if isinstance(b_, ast.Assign) and isinstance(b_.targets[0], ast.Name) and b_.targets[0].id == flag and isinstance(b_.value, ast.Constant) and b_.value.value is False:
                    if which == "copy-out" and "ReturnOp" in ast.unparse(if_.test) and not any(isinstance(c_, ast.Call) and isinstance(c_.func, ast.Name) and c_.func.id not in ("isinstance", "isa")
                                                                                          for c_ in ast.walk(if_.test)):
                        continue
                    denied.append(ast.unparse(if_.test)[:80])
        chk.result(not denied, rule, key + ":others-default-yes", s.where(), f"users that are no kernels count as {'readers' if which == 'copy-in' else 'writers'}"
                   + (" (func.return excepted)" if which == "copy-out" else ""),
                   f"users with `{denied[0] if denied else ''}` are declared not to {'read' if which == 'copy-in' else 'write'} the buffer: a memref.subview of the cast value is how "
                   "kernels reach it - the stand-in buffer is then never filled from (copied back to) the original")
        kinds = [st for st in ast.walk(loop) if isinstance(st, ast.If) and "isinstance" in ast.unparse(st.test) and tv in ast.unparse(st.test)]
        src_if = " ".join(ast.unparse(k.test) for k in kinds)
        chk.result("GenericOp" in src_if and "StreamingRegionOpBase" in src_if, rule, key + ":kernel-kinds", s.where(), "linalg.generic and dart streaming regions are classified by operand role")
        if which == "copy-out":
            ret = [st for st in ast.walk(loop) if isinstance(st, ast.If) and "ReturnOp" in ast.unparse(st.test)]
            ok_ret = any(isinstance(b, ast.Assign) and isinstance(b.value, ast.Constant) and b.value.value is False for r in ret for b in r.body)
            chk.result(ok_ret, rule, key + ":return-not-output", s.where(), "func.return is never treated as a writer")
    if seen != {"copy-in", "copy-out"}:
        chk.bad("C12.copy-in", f"{f.key}:both-copies", f.where, f"only {sorted(seen)} found: the buffer is not filled / not written back")
    # who uses the buffer: the users of the cast value AND the users of its views - a kernel that writes `memref.subview %cast` writes the buffer
    chk.rule("C12.view-users", "the first reader / last writer of the realised buffer are searched among the users of the cast value and, transitively, of its views "
             "(memref.subview)", floor=1)
    direct = [n for n in ast.walk(f.node) if isinstance(n, (ast.ListComp, ast.GeneratorExp, ast.DictComp, ast.SetComp)) and any(norm.match(T("$op.dest.uses"), g_.iter, {"op": op}) is not None
                                                                                                      or norm.match(T("$op.results[0].uses"), g_.iter, {"op": op}) is not None for g_ in n.generators)]
    follows = any(isinstance(n, ast.Call) and callee_name(n) == "isinstance" and len(n.args) == 2 and "SubviewOp" in ast.unparse(n.args[1]) for n in ast.walk(f.node)) and any(
        isinstance(n, ast.Call) and isinstance(n.func, ast.Attribute) and n.func.attr in ("extend", "append") and any(isinstance(x, ast.Attribute) and x.attr in ("results", "result")
                                                                                                                   for x in ast.walk(n)) for n in ast.walk(f.node))
    if not direct and not follows:
        chk.floors["C12.view-users"] = 0
        chk.observe("C12.view-users not evaluated: how the users of the cast value are collected was not recognised")
    else:
        chk.result(follows, "C12.view-users", f"{f.key}:views-followed", f"{f.module.relpath}:{direct[0].lineno if direct else f.node.lineno}",
                   "users of views of the cast value count as users of the buffer",
                   "only the direct users of the cast value are considered: for `cast -> memref.subview -> linalg.generic outs(view)` the subview op itself is taken for the last "
                   "writer, the copy back is placed behind it and in FRONT of the kernel, whose result never reaches the original (findings/C12_written_through_subview.mlir)")
    # the replacement: ops_to_add contains the alloc with dest type/space/layout
    al = [s for s in fl.calls("get") if s.reachable and "AllocOp" in ast.unparse(s.node.func)]
    ok_al = False
    for s in al:
        kws = {k.arg: s.expand(k.value) for k in s.node.keywords if k.arg}
        ok_al = "layout" in kws and "memory_space" in kws and depends_on(kws["layout"], "$op.dest.type.layout", binds={"op": op}) and depends_on(
            kws["memory_space"], "$op.dest.type.memory_space", binds={"op": op})
    chk.result(ok_al, "C12.copy-in", f"{f.key}:alloc-type", al[0].where() if al else f.where, "the stand-in buffer has the cast's destination layout and memory space")


KERNEL_KINDS = ("GenericOp", "StreamingRegionOpBase")


def _judge_use_classes(classes, u: str, member: list[str], binds: dict, which: str, where_name: str):
    """classes = (path conditions, answer, where): for each class of uses decide whether the answer is the one the property needs. Disjunctive conditions
    (`not isinstance(u, K) or v in u.inputs`) are split into one class per disjunct"""
    covered: set[str] = set()
    bad_kernel: list[str] = []
    ret_writer: list[str] = []
    work = list(classes)
    n_split = 0
    while work:
        facts, res, where = work.pop()
        split = None
        for i_, e_ in enumerate(facts):
            e0 = norm.primary(e_)
            if isinstance(e0, ast.BoolOp) and isinstance(e0.op, ast.Or) and not all(norm.match(T("isinstance($u, $k)"), d_, {"u": u}) is not None for d_ in e0.values) \
                    and any(u in {n.id for n in ast.walk(d_) if isinstance(n, ast.Name)} for d_ in e0.values):
                split = (i_, e0.values)
                break
        if split is not None and n_split < 16:
            n_split += 1
            i_, ds = split
            for d_ in ds:
                work.append(([*facts[:i_], *norm.atoms(d_, True), *facts[i_ + 1:]], res, where))
            continue
        pos: set[str] = set()
        neg: set[str] = set()
        for e_ in facts:
            e_ = norm.primary(e_)
            negated = norm.is_not(e_)
            core = e_.operand if negated else e_  # type: ignore[attr-defined]
            parts = core.values if isinstance(core, ast.BoolOp) and isinstance(core.op, ast.Or) and not negated else [core]
            kinds_here: set[str] = set()
            all_inst = True
            for p2 in parts:
                m = norm.match(T("isinstance($u, $k)"), p2, {"u": u})
                if m is None:
                    all_inst = False
                    continue
                kinds_here |= {k for k in (*KERNEL_KINDS, "ReturnOp") if k in ast.unparse(m["k"])}
            if not all_inst:
                continue
            (neg if negated else pos).update(kinds_here)
        txt = ast.unparse(res)
        has_member = any(norm.any_match(member, e_, dict(binds)) is not None for e_ in facts)
        if pos & set(KERNEL_KINDS):
            covered |= pos & set(KERNEL_KINDS)
            ok_ = norm.any_match(member, res, dict(binds)) is not None or (isinstance(res, ast.Constant) and res.value is True and has_member)
            if not ok_:
                bad_kernel.append(f"{where}: for {sorted(pos & set(KERNEL_KINDS))} the answer is `{txt[:60]}`")
        elif set(KERNEL_KINDS) <= neg:
            if which == "copy-out" and "ReturnOp" not in neg and "ReturnOp" not in pos:
                if norm.any_match(["not isinstance($u, $k)"], res, {"u": u}) is not None and "ReturnOp" in txt:
                    pass
                elif isinstance(res, ast.Constant) and res.value is True:
                    ret_writer.append(f"{where}: ops that are no kernels, func.return included, count as writers")
                elif not (isinstance(res, ast.Constant) and res.value is False):
                    raise AnalysisError(f"{where}: the answer for other ops is `{txt[:60]}`, a form this clause does not read")
            elif which == "copy-out" and "ReturnOp" in pos and not (isinstance(res, ast.Constant) and res.value is False):
                ret_writer.append(f"{where}: func.return answers `{txt[:40]}`")
        elif not has_member and isinstance(res, ast.Constant) and res.value is True and any(
                norm.any_match([m_.replace(".inputs", ".@").replace(".outputs", ".inputs").replace(".@", ".outputs") for m_ in member], e_, dict(binds)) is not None for e_ in facts):
            bad_kernel.append(f"{where}: the copy is made because the value is among the op's {'outputs' if which == 'copy-in' else 'inputs'}")
        elif has_member and isinstance(res, ast.Constant) and res.value is True and not (pos | neg) & set(KERNEL_KINDS):
            # whatever the kind: the copy is made because the value is among the op's inputs (outputs) - the right answer for a kernel op
            covered |= set(KERNEL_KINDS)
        else:
            raise AnalysisError(f"{where}: a class of uses in {where_name} is answered without a decided kernel-kind test ({sorted(pos)} / not {sorted(neg)})")
    return covered, bad_kernel, ret_writer


def _classified_inline(chk: Check, f: Func, s, tv: str, op: str, which: str, rule: str, key: str) -> None:
    """the read / write test written as one condition on the way to the copy: judged on the path classes reaching the CopyOp construction"""
    side = "inputs" if which == "copy-in" else "outputs"
    member = [f"$op.results[0] in {tv}.{side}", f"$op.dest in {tv}.{side}"]
    classes = []
    for alt in s.state.alts:
        facts = [x.expr for x in [*alt.facts.values(), *s.extra] if x.kind == "atom" and tv in {n.id for n in ast.walk(x.expr) if isinstance(n, ast.Name)}]
        facts = [e_ for e_ in facts if not any(isinstance(c_, ast.Compare) and any(isinstance(o_, (ast.In, ast.NotIn)) for o_ in c_.ops) and isinstance(c_.left, ast.Name) and c_.left.id == tv
                                              for c_ in [norm.primary(e_)])]  # `use in uses` is not about the kind of use
        classes.append((facts, ast.Constant(True), s.where()))
    covered, bad_kernel, ret_writer = _judge_use_classes(classes, tv, member, {"op": op}, which, f.name)
    chk.result(not bad_kernel, rule, key + ":classification", s.where(),
               f"a kernel op {'reads' if which == 'copy-in' else 'writes'} the buffer iff the cast value is in its {side}",
               f"{bad_kernel[:2]}; expected `cast value in use_op.{side}` (an operand used as both input and output must count for both copies)")
    chk.result(covered == set(KERNEL_KINDS), rule, key + ":kernel-kinds", s.where(), "linalg.generic and dart streaming regions are classified by operand role",
               f"only {sorted(covered)} are classified by operand role")
    if which == "copy-out":
        chk.result(not ret_writer, rule, key + ":return-not-output", s.where(), "func.return is never treated as a writer", "; ".join(ret_writer[:2]))


def _classified_by_helper(repo: Repo, chk: Check, f: Func, test: ast.expr, tv: str, op: str, which: str, rule: str, key: str, s) -> bool:
    """the read / write test of a use is `helper(use, cast value)`, a plain function of the module: the clauses are judged on the helper's
    return sites (path conditions + returned expression).  False = the test is not of this form."""
    if not (isinstance(test, ast.Call) and isinstance(test.func, ast.Name) and test.func.id in f.module.funcs and not test.keywords):
        return False
    h = f.module.funcs[test.func.id]
    params = [a.arg for a in h.node.args.args]
    if len(params) != len(test.args):
        return False
    u = v = None
    for p_, a_ in zip(params, test.args):
        if isinstance(a_, ast.Name) and a_.id == tv:
            u = p_
        elif norm.any_match(["$op.results[0]", "$op.dest"], a_, {"op": op}) is not None:
            v = p_
    if u is None or v is None:
        return False
    chk.analysed(h.key)
    hfl = Flow(h, repo)
    side = "inputs" if which == "copy-in" else "outputs"
    member = [f"{v} in {u}.{side}"]
    rets = [r for r in hfl.stmts(ast.Return) if r.reachable and r.node.value is not None]
    if not rets:
        raise AnalysisError(f"{h.where}: no return in the classification helper")
    classes = []
    for r in rets:
        for alt in r.state.alts:
            facts = [x.expr for x in alt.facts.values() if x.kind == "atom"] + [x.expr for x in r.extra if x.kind == "atom"]
            from sa.flow import expand as _expand
            res = norm.canon(norm.primary(_expand(r.node.value, dict(alt.env))))
            classes.append((facts, res, r.where()))
    covered, bad_kernel, ret_writer = _judge_use_classes(classes, u, member, {}, which, h.name)
    chk.result(not bad_kernel, rule, key + ":classification", s.where(),
               f"a kernel op {'reads' if which == 'copy-in' else 'writes'} the buffer iff the cast value is in its {side} (decided in {h.name})",
               f"{bad_kernel[:2]}; expected `cast value in use_op.{side}` (an operand used as both input and output must count for both copies)")
    chk.result(covered == set(KERNEL_KINDS), rule, key + ":kernel-kinds", s.where(), "linalg.generic and dart streaming regions are classified by operand role",
               f"only {sorted(covered)} are classified by operand role in {h.name}")
    if which == "copy-out":
        chk.result(not ret_writer, rule, key + ":return-not-output", s.where(), "func.return is never treated as a writer", "; ".join(ret_writer[:2]))
    return True


def _norm_loop(n: ast.While, var: str) -> str:
    return ast.unparse(n).replace(var, "CUR")


def chain(repo: Repo, chk: Check) -> None:
    chk.rule("C12.chain", "the chain source is found by following `.source` while the producer is a MemorySpaceCastOp or LayoutCast, identically in get_source_operand and in RealizeMemrefCasts", floor=2)
    loops = []

    def _walk_of(f: Func, depth: int = 0) -> tuple[Func, ast.While] | None:
        """the chain-following loop of f, or of a module-level helper f hands its cast to"""
        w_ = [n_ for n_ in ast.walk(f.node) if isinstance(n_, ast.While) and ".source" in ast.unparse(n_.test)]
        if w_:
            return f, w_[0]
        if depth >= 2:
            return None
        for c_ in ast.walk(f.node):
            if isinstance(c_, ast.Call) and isinstance(c_.func, ast.Name) and c_.func.id in f.module.funcs and f.module.funcs[c_.func.id].node is not f.node:
                got = _walk_of(f.module.funcs[c_.func.id], depth + 1)
                if got is not None:
                    return got
        return None

    for qual in ("get_source_operand", "RealizeMemrefCasts.match_and_rewrite"):
        f0 = repo.func(CASTS, qual)
        chk.analysed(f0.key)
        got = _walk_of(f0)
        if got is None:
            raise AnalysisError(f"{f0.where}: chain-following loop not found")
        f, n = got
        chk.analysed(f.key)
        var = n.body[0].targets[0].id if isinstance(n.body[0], ast.Assign) and isinstance(n.body[0].targets[0], ast.Name) else "source_op"
        t = ast.unparse(norm.canon(n.test))
        both = "MemorySpaceCastOp" in t and "LayoutCast" in t and "OpResult" in t
        step = len(n.body) == 1 and ast.unparse(n.body[0]) == f"{var} = {var}.source.op"
        chk.result(both and step, "C12.chain", f"{f.key}:follow", f"{f.module.relpath}:{n.lineno}", "follows .source.op through both cast kinds",
                   f"the chain loop is `{ast.unparse(n)[:160]}`")
        # a cast with other users is a buffer in its own right (they read and write it, it gets its own copies): fusing the chain across it fills the last
        # cast from the root while the newer data sits in the intermediate buffer
        single = any(norm.any_match(["$x.source.uses.get_length() == 1", "len($x.source.uses) == 1", "$x.source.has_one_use()", "len(list($x.source.uses)) == 1"], a_) is not None
                     for a_ in norm.atoms(n.test, True))
        chk.result(single, "C12.chain", f"{f.key}:single-use", f"{f.module.relpath}:{n.lineno}", "the chain is followed only through casts whose sole user is the next cast",
                   "the chain is followed through a cast that has other users: X -> memory_space_cast c (written by a kernel) -> layout_cast l is realised by filling l from X, "
                   "although the kernel's result is in c and reaches X only with c's copy back after its last writer")
        loops.append(re.sub(r"\s+", " ", _norm_loop(n, var)))
    chk.result(len(set(loops)) == 1, "C12.chain", f"{CASTS}:sibling-agreement", repo.func(CASTS, "get_source_operand").where,
               "both chain walks are the same code", f"the two chain walks differ: {loops}")
    # the "chain ends in its root's type" shortcut hands out a value of that type
    f = repo.func(CASTS, "RealizeMemrefCasts.match_and_rewrite")
    fl = Flow(f, repo)
    opn = op_param(f)
    w = [n for n in ast.walk(f.node) if isinstance(n, ast.While) and ".source" in ast.unparse(n.test)]
    root = w[0].body[0].targets[0].id if w and isinstance(w[0].body[0], ast.Assign) and isinstance(w[0].body[0].targets[0], ast.Name) else None
    n_sc = 0
    for s_ in fl.calls("replace_all_uses_with"):
        if not s_.reachable or not s_.node.args:
            continue
        eq = [x for x in s_.facts if x.kind == "atom" and isinstance(x.expr, ast.Compare) and len(x.expr.ops) == 1 and isinstance(x.expr.ops[0], ast.Eq)
              and norm.contains(x.expr, T(f"{opn}.dest.type")) and root is not None and norm.contains(x.expr, T(f"{root}.source.type"))]
        if not eq:
            continue
        n_sc += 1
        arg = s_.node.args[0]
        to_root = root is not None and norm.match(T(f"{root}.source"), arg) is not None
        typed = isinstance(arg, ast.IfExp) and norm.any_match([f"{opn}.source.type == $t", f"$t == {opn}.source.type"], arg.test) is not None and norm.match(
            T(f"{opn}.source"), arg.body) is not None and root is not None and norm.match(T(f"{root}.source"), arg.orelse) is not None
        chk.result(to_root or typed, "C12.chain", f"{f.key}:roundtrip-shortcut", s_.where(),
                   "a chain that ends in its root's type is replaced by a value of that type (the root, or the direct source when it has the type)",
                   f"when the chain ends in its root's type the uses are redirected to `{ast.unparse(arg)}`: for L3 -> L1 -> L3 that is the L1 intermediate, not the root")
    if n_sc == 0:
        chk.observe("RealizeMemrefCasts has no equal-type shortcut on this tree")


# --------------------------------------------------------------------------- L1 operands
def l1(repo: Repo, chk: Check) -> None:
    f, fl = flow_of(repo, chk, SPACE, "InitStreamAndLinalgMemorySpace.match_and_rewrite")
    op = op_param(f)
    chk.rule(
        "C12.l1",
        "exactly the memref operands whose memory space is not L1 are replaced, each by the dest of an L1 MemorySpaceCast of "
        "that very operand (a reused cast must be an L1 cast among the operand's own uses)",
        floor=4,
    )
    sel = [s for s in fl.stmts(ast.Assign) if s.reachable and isinstance(s.node.value, ast.Call) and callee_name(s.node.value) == "tuple"]
    ok_sel = False
    for s in sel:
        for sub in ast.walk(s.node.value):
            if isinstance(sub, ast.GeneratorExp) and norm.match(T("$op.operands"), sub.generators[0].iter, {"op": op}) is not None:
                conds = [ast.unparse(a) for c in sub.generators[0].ifs for a in norm.atoms(c, True)]
                ok_sel = any("isinstance" in c and "MemRefType" in c for c in conds) and any(c.endswith("memory_space != L1.attribute") for c in conds) and len(conds) == 2
    chk.result(ok_sel, "C12.l1", f"{f.key}:selection", sel[0].where() if sel else f.where, "selected = memref operands with memory_space != L1",
               "the set of operands to cast is not `memref-typed and memory_space != L1`")
    stores = [s for s in fl.stmts(ast.Assign) if s.reachable and isinstance(s.node.targets[0], ast.Subscript) and ast.unparse(s.node.targets[0].value) == f"{op}.operands"]
    ok_st = False
    for s in stores:
        idx = ast.unparse(s.node.targets[0].slice)
        ok_st = norm.match(T(f"$tbl[{op}.operands[{idx}]].dest"), s.node.value) is not None and bool(has_fact(s, [f"{op}.operands[{idx}] in $sel"]))
        if not ok_st:
            # `for i, x in enumerate(op.operands)`: x is operand i
            m_ = norm.match(T("$tbl[$x].dest"), s.node.value)
            if m_ is not None and isinstance(m_["x"], ast.Name):
                for lp in [l for l in s.loops if isinstance(l, ast.For) and isinstance(l.target, ast.Tuple) and len(l.target.elts) == 2]:
                    i_, x_ = lp.target.elts
                    if isinstance(i_, ast.Name) and isinstance(x_, ast.Name) and i_.id == idx and x_.id == m_["x"].id and norm.any_match(
                            [f"enumerate({op}.operands)", f"enumerate(tuple({op}.operands))", f"enumerate(list({op}.operands))"], lp.iter) is not None:
                        ok_st = bool(has_fact(s, [f"{x_.id} in $sel"]))
    chk.result(ok_st, "C12.l1", f"{f.key}:replacement", stores[0].where() if stores else f.where, "operand i is replaced by the dest of the cast recorded for operand i",
               "an operand is not replaced by the dest of its own L1 cast")
    h = f.nested("get_cast_op")
    chk.analysed(h.key)
    hfl = Flow(h, repo)
    o = h.param(0)
    new = [s for s in hfl.calls("from_type_and_target_space") if s.reachable]
    ok_new = any(len(s.node.args) >= 3 and ast.unparse(s.node.args[0]) == o and ast.unparse(s.node.args[2]) == "L1.attribute" and has_fact(
        s, ["$c is None", "not isinstance($c, memref.MemorySpaceCastOp)", "not isinstance($c, MemorySpaceCastOp)", "not $c"]) for s in new)
    chk.result(ok_new, "C12.l1", f"{h.key}:new-cast", new[0].where() if new else h.where, "a new cast goes from this operand to L1 and is only created when none was found")
    reuse = [s for s in hfl.stmts(ast.Assign) if s.reachable and s.loops and isinstance(s.node.targets[0], ast.Name) and ast.unparse(s.node.value).endswith(".operation")]
    ok_re = any(
        has_fact(s, ["isinstance($u.operation, memref.MemorySpaceCastOp)"]) and any("memory_space == L1.attribute" in t for t in s.fact_texts)
        and any(isinstance(l, ast.For) and ast.unparse(l.iter) == f"{o}.uses" for l in s.loops)
        for s in reuse
    )
    # the same search spelled `next((u.operation for u in operand.uses if <conditions>), None)`; a condition that is a call of a
    # local predicate stands for what that predicate establishes when it returns true
    picked_texts: list[str] = []
    for s in [x for x in hfl.calls("next") if x.reachable]:
        c = s.node
        gen = c.args[0] if c.args else None
        if not (isinstance(gen, ast.GeneratorExp) and len(gen.generators) == 1 and ast.unparse(gen.generators[0].iter) == f"{o}.uses" and len(c.args) == 2
                and isinstance(c.args[1], ast.Constant) and c.args[1].value is None):
            continue
        conds: list[ast.expr] = []
        for cnd in gen.generators[0].ifs:
            for at in norm.atoms(cnd, True):
                conds.append(at)
                if isinstance(at, ast.Call) and isinstance(at.func, ast.Name):
                    pred = None
                    try:
                        pred = f.nested(at.func.id)
                    except Exception:  # noqa: BLE001
                        pred = repo.try_func(SPACE, at.func.id)
                    if pred is not None and len(pred.params) == len(at.args):
                        from sa.flow import expand as _expand, outcome_summary
                        summ = outcome_summary(pred, repo, 0).get("true") or []
                        sub_ = dict(zip(pred.params, at.args))
                        conds.extend(_expand(x.expr, sub_) for x in summ if x.kind == "atom")
        elt = ast.unparse(gen.elt)
        texts = [ast.unparse(norm.canon(x)) for x in conds]
        if any(t_ in (f"isinstance({elt}, memref.MemorySpaceCastOp)", f"isinstance({elt}, MemorySpaceCastOp)") for t_ in texts) and any(
                "memory_space == L1.attribute" in t_ for t_ in texts):
            ok_re = True
            picked_texts = texts
            reuse = reuse or [s]
    chk.result(ok_re, "C12.l1", f"{h.key}:reuse", reuse[0].where() if reuse else h.where, "a cast is reused only if it is an L1 memory-space cast among this operand's uses",
               "an existing cast is reused without being an L1 cast of this operand")
    # visibility: a re-used cast must be available at the op (defined in its block or an enclosing one, in front of it)
    vis = False
    for s in reuse:
        txt = " ".join(s.fact_texts)
        same_block = bool(has_fact(s, ["$u.operation.parent_block() is $op.parent_block()", "$u.operation.parent_block() == $op.parent_block()", "$u.operation.parent is $op.parent"]))
        ancestor = "find_ancestor_op_in_block" in txt or "is_ancestor" in txt
        ordered = "get_operation_index" in txt or "is_before_in_block" in txt or "dominates" in txt
        vis = vis or ((same_block or ancestor) and (ordered or same_block))
    if picked_texts:
        txt = " ".join(picked_texts)
        vis = vis or (("find_ancestor_op_in_block" in txt or "is_ancestor" in txt) and ("get_operation_index" in txt or "is_before_in_block" in txt or "dominates" in txt))
    chk.result(vis, "C12.l1", f"{h.key}:reuse-visible", reuse[0].where() if reuse else h.where,
               "a cast is re-used only if it is defined in the op's block or an enclosing one, in front of the op",
               "a cast found among the operand's uses is re-used wherever it is: when the first user sits in a loop (or branch) body the cast is created there, and an op "
               "outside re-uses a value that is not available at that point")


def boundary(repo: Repo, chk: Check) -> None:
    chk.rule("C12.boundary", "function types only get L3 where the memory space is unset; a returned memref whose space differs is cast to the function type's space", floor=3)
    f = repo.func(SPACE, "InitFuncMemorySpace.match_and_rewrite")
    h = f.nested("change_to_memory_space")
    chk.analysed(h.key)
    hfl = Flow(h, repo)
    t = h.param(0)
    ok = False
    for s in hfl.stmts(ast.Return):
        v = s.node.value
        if isinstance(v, ast.Call) and callee_name(v) == "MemRefType":
            ok = bool(has_fact(s, ["isinstance($t.memory_space, builtin.NoneAttr)"], {"t": t})) and ast.unparse(v.args[3]) == "L3.attribute" and \
                [ast.unparse(a) for a in v.args[:3]] == [f"{t}.element_type", f"{t}.get_shape()", f"{t}.layout"]
    others = [s for s in hfl.stmts(ast.Return) if not (isinstance(s.node.value, ast.Call))]
    chk.result(ok and all(ast.unparse(s.node.value) == t for s in others), "C12.boundary", f"{h.key}:fill-none-with-l3", h.where,
               "only an unset memory space becomes L3; element type, shape and layout are kept; everything else is returned unchanged",
               "the default memory space is applied to types that already have one, or changes more than the memory space")
    g2, gfl = flow_of(repo, chk, SPACE, "HandleFuncReturns.match_and_rewrite")
    casts = [s for s in gfl.calls("from_type_and_target_space") if s.reachable]
    ok_c = False
    for s in casts:
        a = [expand_with_loops(s, x) for x in s.node.args[:3]]
        ok_c = len(a) == 3 and depends_on(a[2], "$f.function_type.outputs") and depends_on(a[2], "$x.memory_space") and depends_on(a[0], "$op.arguments[$i]") and bool(
            has_fact(s, ["$a.memory_space != $b.memory_space"]))
    chk.result(ok_c, "C12.boundary", f"{g2.key}:cast-to-function-type", casts[0].where() if casts else g2.where,
               "a returned memref in another space is cast to the space of the function type's result",
               "returned memrefs are not cast to the memory space declared by the function type")
    rets = [s for s in gfl.calls("ReturnOp") if s.reachable]
    def _complete_list(site) -> bool:
        """ReturnOp(*L) where L receives one element on every path through the loop over the function's outputs"""
        a = site.node.args[0] if site.node.args else None
        if not (isinstance(a, ast.Starred) and isinstance(a.value, ast.Name)):
            return False
        lst = a.value.id
        loops = [n for n in ast.walk(g2.node) if isinstance(n, ast.For) and any(isinstance(c, ast.Call) and callee_name(c) == "append" and ast.unparse(c.func.value) == lst for c in ast.walk(n))]
        if len(loops) != 1:
            return False

        def appends_on_all_paths(stmts) -> bool:
            for st in stmts:
                if isinstance(st, ast.Expr) and isinstance(st.value, ast.Call) and callee_name(st.value) == "append" and ast.unparse(st.value.func.value) == lst:
                    return True
                if isinstance(st, ast.If) and st.orelse and appends_on_all_paths(st.body) and appends_on_all_paths(st.orelse):
                    return True
            return False

        return appends_on_all_paths(loops[0].body)

    chk.result(any(_complete_list(s) for s in rets), "C12.boundary", f"{g2.key}:all-results", rets[0].where() if rets else g2.where,
               "the new return carries every result, cast or not")


# --------------------------------------------------------------------------- compile-time re-layout
def const_permutation(repo: Repo, chk: Check) -> None:
    chk.rule(
        "C12.const-permutation",
        "transform_constant moves element i of the plain data TO address layout(i) (a scatter): the bytes are the data reshaped to the "
        "layout's bounds and transposed into DESCENDING step order, or stored through the layout's address enumeration; reading the data "
        "THROUGH the enumeration (`values[all_values()]`, a gather) applies the inverse permutation and is right only for layouts that are "
        "their own inverse",
        floor=1,
    )
    f, fl = flow_of(repo, chk, CASTS, "transform_constant")
    dl = f.param(1)
    byts = [s for s in fl.calls("tobytes") if s.reachable]
    if not byts:
        raise AnalysisError(f"{f.where}: the bytes of the new constant are not taken from an array (`.tobytes()`)")
    for n_, s in enumerate(byts, 1):
        recv = s.node.func.value  # type: ignore[attr-defined]
        cone = fl.cone(recv, s, inline=0)
        key = f"{f.key}:data#{n_}"
        gathers = [c for c in ast.walk(cone) if isinstance(c, ast.Subscript) and isinstance(c.ctx, ast.Load) and norm.contains(c.slice, T("$l.data.all_values()"))]
        scatters = [c for c in ast.walk(cone) if isinstance(c, ast.Call) and isinstance(c.func, ast.Name) and c.func.id == "__store__" and len(c.args) >= 2
                    and norm.contains(c.args[1], T("$l.data.all_values()"))]
        rt = norm.find(T("$v.reshape($b).transpose($o)"), cone)
        if gathers and not scatters:
            chk.bad("C12.const-permutation", key, s.where(),
                    f"the new constant is `{ast.unparse(gathers[0])[:80]}`: the data is read THROUGH the layout's address enumeration (gather), which is the inverse of "
                    "placing element i at address layout(i); for [2,2]->(8,1),[2,2]->(4,2) elements land at the wrong addresses")
            continue
        if scatters:
            chk.ok("C12.const-permutation", key, s.where(), "the data is stored through the layout's address enumeration (scatter)")
            continue
        if not rt:
            # np.moveaxis(x, src, dst) puts source axis src[k] AT position dst[k]; with src the identity (`range(..)`) and dst the step order that is
            # the INVERSE of transpose(order) (right only for orders that are their own inverse); with dst the identity it is transpose(src)
            mv = norm.find(T("np.moveaxis($v.reshape($b), $src, $dst)"), cone) or norm.find(T("numpy.moveaxis($v.reshape($b), $src, $dst)"), cone)
            if mv:
                _, mm = mv[0]
                ident = lambda e: isinstance(norm.primary(e), ast.Call) and callee_name(norm.primary(e)) in ("range", "arange") and not norm.contains(e, T("$s.step"))  # noqa: E731
                if ident(mm["src"]) and norm.contains(mm["dst"], T("$s.step")):
                    chk.bad("C12.const-permutation", key, s.where(),
                            f"the new constant is `{ast.unparse(mv[0][0])[:100]}`: moveaxis sends tile dimension k TO position order[k], the inverse of "
                            "transposing INTO step order; for a layout whose step order is a 3-cycle ([2,2,2] with steps 2,4,1) elements land at the wrong addresses")
                    continue
                if ident(mm["dst"]) and norm.contains(mm["src"], T("$s.step")):
                    rt = [(mv[0][0], {"v": mm["v"], "b": mm["b"], "o": mm["src"]})]
        if not rt:
            raise AnalysisError(f"{s.where()}: the permutation applied to the constant data is not recognised")
        _, m = rt[0]
        b_ok = norm.contains(m["b"], T("$s.bound")) and depends_on(m["b"], f"{dl}.data")
        o = m["o"]
        by_step = norm.contains(o, T("$s.step")) and any(isinstance(c, ast.Call) and callee_name(c) == "argsort" for c in ast.walk(o))
        # descending: the ascending argsort reversed once (`[::-1]`, reversed(..), flip) or an argsort of negated steps
        rev = sum(1 for c in ast.walk(o) if isinstance(c, ast.Subscript) and isinstance(c.slice, ast.Slice) and isinstance(c.slice.step, ast.UnaryOp)
                  and isinstance(c.slice.step.op, ast.USub) and isinstance(c.slice.step.operand, ast.Constant) and c.slice.step.operand.value == 1)
        rev += sum(1 for c in ast.walk(o) if isinstance(c, ast.Call) and callee_name(c) in ("reversed", "flip"))
        neg = any(isinstance(c, ast.UnaryOp) and isinstance(c.op, ast.USub) and norm.contains(c, T("$s.step")) for c in ast.walk(o))
        desc = (rev % 2 == 1) != neg
        chk.result(b_ok and by_step and desc, "C12.const-permutation", key, s.where(),
                   "data reshaped to the layout's bounds and transposed into descending step order",
                   f"the data is reshaped/transposed by bounds-from-layout={b_ok}, order-from-steps={by_step}, descending={desc}: the outermost array axis must be the "
                   "stride with the largest step")


def const_guards(repo: Repo, chk: Check) -> None:
    chk.rule(
        "C12.const-guards",
        "transform_constant gives up (None) unless: source layout None, target TSL, dense and static; every caller bails on "
        "None; constants/allocs/globals used by a terminator are left alone; an alloc is re-typed only if all users are casts; "
        "a global is replaced only if nothing else refers to it (and, under a subview, the get_global has exactly one use)",
        floor=14,
    )
    f, fl = flow_of(repo, chk, CASTS, "transform_constant")
    dl = f.param(1)
    prod = [s for s in fl.stmts(ast.Return) if s.reachable and s.node.value is not None and not isinstance(s.node.value, ast.Constant)]
    if not prod:
        raise AnalysisError(f"{f.where}: producing return not found")
    for s in prod:
        for name, ts in (
            ("source-layout-none", ["isinstance($x.layout, builtin.NoneAttr)"]),
            ("target-is-tsl", [f"isinstance({dl}, TiledStridedLayoutAttr)"]),
            ("target-dense", [f"{dl}.data.is_dense()"]),
            ("target-static", [f"not {dl}.data.is_dynamic()"]),
            ("target-offset-zero", [f"{dl}.data.offset == 0", f"not {dl}.data.offset"]),
        ):
            chk.result(every_alt_has(s, ts), "C12.const-guards", f"{f.key}:{name}", s.where(), f"a transformed constant is only produced under `{name}`",
                       f"transform_constant can produce a value without `{name}`: the reshape/transpose is only valid for a dense static layout on plain data", s.fact_texts)
    pats = {
        "ApplyLayoutCastArithConstant": ("$c.result.uses", None),
        "ApplyLayoutCastMemrefAlloc": ("$c.memref.uses", "all-users-are-casts"),
        "ApplyLayoutCastMemrefGlobal": ("$c.memref.uses", "no-other-reference"),
        "ApplyLayoutCastSubviewGlobal": (None, "no-other-reference"),
    }
    for cname, (uses_t, extra) in pats.items():
        g2, gfl = flow_of(repo, chk, CASTS, f"{cname}.match_and_rewrite")
        rw = rewriter_param(g2)
        sites = [(s, lab) for s, lab in mutation_sites(gfl, rw) if s.reachable]
        if not sites:
            raise AnalysisError(f"{g2.where}: no mutation")
        first = sites[0][0]
        if uses_t is not None:
            okt = any("has_trait(IsTerminator)" in t and t.startswith("all((not") for t in first.fact_texts)
            chk.result(okt, "C12.const-guards", f"{g2.key}:not-used-by-terminator", first.where(), "left alone when the value is used by a terminator",
                       "the value is re-laid-out although a terminator (function result) uses it in its old layout", first.fact_texts)
        tc = [s for s in gfl.calls("transform_constant") if s.reachable]
        if tc:
            after = [s for s, _ in sites if s.line > tc[0].line]
            okn = bool(after)
            tpl = [T("transform_constant($a, $b) is not None")]
            for s in after:
                for alt in s.state.alts:
                    atoms_ = [x for x in alt.facts.values() if x.kind == "atom"]
                    called = cname == "ApplyLayoutCastArithConstant" or any(norm.match(T("isa($g.initial_value, $t)"), x.expr) is not None for x in atoms_)
                    if called and not any(norm.any_match(tpl, x.expr) is not None for x in atoms_):
                        okn = False
            chk.result(okn, "C12.const-guards", f"{g2.key}:bails-on-none", tc[0].where(), "mutations after transform_constant require a non-None result",
                       "the pattern keeps rewriting although transform_constant gave up (returned None)")
        if cname in ("ApplyLayoutCastArithConstant", "ApplyLayoutCastMemrefAlloc", "ApplyLayoutCastMemrefGlobal"):
            # re-typing the producer changes the type every direct user sees; anything but a cast keeps addressing the data with the layout it was written for
            what = {"ApplyLayoutCastArithConstant": "a constant", "ApplyLayoutCastMemrefAlloc": "an alloc", "ApplyLayoutCastMemrefGlobal": "a get_global"}[cname]
            ok = has_forall(first, ["isinstance($v.operation, $cls)"], domain_ok=lambda d: norm.contains(d, T("$c.memref.uses")) or norm.contains(d, T("$c.result.uses")) or norm.contains(d, T("$c.uses"))) is not None and any(
                "LayoutCast" in t for t in first.fact_texts)
            if not ok:
                ok = any(t.startswith("all((isinstance(") and "LayoutCast" in t and ".operation" in t for t in first.fact_texts)
            chk.result(ok, "C12.const-guards", f"{g2.key}:all-users-are-casts", first.where(), f"{what} is re-typed only if every user is a cast",
                       f"{what} is re-typed / re-laid-out although it has users that are not casts: a subview or kernel reading it directly keeps its row-major "
                       "(strided) view of data that is now tiled", first.fact_texts)
        if extra == "no-other-reference":
            ok = any("GetGlobalOp" in t and "name_" in t and t.startswith("all((not") for t in first.fact_texts)
            chk.result(ok, "C12.const-guards", f"{g2.key}:{extra}", first.where(), "a global is replaced only if no other get_global refers to its symbol",
                       "the global is replaced/erased although another get_global may refer to the same symbol (dangling reference)", first.fact_texts)
        if cname == "ApplyLayoutCastMemrefGlobal":
            # transform_constant reads the initial value as row-major data; the tensor attribute carries no layout, the global's type does
            ok = bool(has_fact(first, ["isinstance($g.type.layout, builtin.NoneAttr)", "isinstance($g.type.layout, NoneAttr)"]))
            chk.result(ok, "C12.const-guards", f"{g2.key}:global-layout-none", first.where(), "only a global whose type has no layout is re-laid-out at compile time",
                       "a global is re-laid-out whatever layout its type already has: the data of a global transformed before (a second layout cast of the same get_global) is "
                       "permuted again as if it were row-major", first.fact_texts)
        if cname == "ApplyLayoutCastSubviewGlobal":
            ok = bool(has_fact(first, ["$s.source.uses.get_length() == 1", "len($s.source.uses) == 1"]))
            chk.result(ok, "C12.const-guards", f"{g2.key}:single-subview", first.where(), "the get_global feeding the subview has exactly one use (this subview)",
                       "the global under a subview is re-laid-out although the get_global has other uses: only the matched subview is rebuilt, the "
                       "others keep a row-major view of the re-laid-out data", first.fact_texts)
            for name, ts in (("target-is-tsl", ["isinstance($o.dest.type.layout, TiledStridedLayoutAttr)"]), ("target-static", ["not $o.dest.type.layout.data.is_dynamic()"]),
                             ("global-layout-none", ["isinstance($s.source.type.layout, builtin.NoneAttr)"])):
                chk.result(bool(has_fact(first, ts)), "C12.const-guards", f"{g2.key}:{name}", first.where(), f"only under `{name}`")
            # two types address the same data: the global's new layout (target tiles extended over the whole global) and the rebuilt subview's result layout
            # (the target layout itself). They agree only if the global's layout starts at the same offset as the target layout
            g2fl = Flow(g2, repo)
            builds = [x for x in g2fl.calls("TiledStridedLayout") if x.reachable and not x.loops]
            sub_types = [x for x in g2fl.calls("MemRefType") if x.reachable and len(x.node.args) >= 3 and isinstance(norm.primary(x.node.args[2]), ast.Name)
                         and norm.contains(g2fl.cone(x.node.args[2], x, inline=0), T("$o.dest.type.layout"))]
            if len(builds) != 1 or not sub_types:
                raise AnalysisError(f"{g2.where}: the layout built for the global / the rebuilt subview's result type were not found")
            b_ = builds[0]
            off = b_.node.args[1] if len(b_.node.args) > 1 else next((k.value for k in b_.node.keywords if k.arg == "offset"), None)
            tgt = ast.unparse(norm.primary(sub_types[0].node.args[2]))
            ok = off is not None and norm.contains(g2fl.cone(off, b_, inline=0), T("$o.dest.type.layout.data.offset"))
            chk.result(ok, "C12.const-guards", f"{g2.key}:global-offset", b_.where(), "the global's new layout keeps the offset of the target layout the subview result is typed with",
                       f"the layout built for the global starts at offset {ast.unparse(off) if off is not None else '0 (default)'} while the rebuilt subview is typed with `{tgt}`, "
                       "which carries the target offset: the data is placed at element 0 and read `offset` elements further")


# --------------------------------------------------------------------------- dynamic sizes of the realised buffer
def alloc_dyn_sizes(repo: Repo, chk: Check) -> None:
    chk.rule(
        "C12.alloc-dyn-sizes",
        "the buffer allocated for a realised cast gets one dynamic size operand per DYNAMIC dimension of the destination type, in dimension order, "
        "each the memref.dim of the *source* at that very dimension index",
        floor=2,
    )
    f, fl = flow_of(repo, chk, CASTS, "RealizeMemrefCasts.match_and_rewrite")
    allocs = [s for s in fl.calls("get") if s.reachable and isinstance(s.node.func, ast.Attribute) and ast.unparse(s.node.func.value).endswith("AllocOp")]
    if not allocs:
        raise AnalysisError(f"{f.where}: allocation of the realised buffer not found")
    s = allocs[0]
    dyn = None
    for k in s.node.keywords:
        if k.arg == "dynamic_sizes":
            dyn = k.value
    if dyn is None or not isinstance(dyn, ast.Name):
        raise AnalysisError(f"{s.where()}: dynamic_sizes argument not understood")
    apps = [a for a in fl.calls("append") if a.reachable and ast.unparse(a.node.func.value) == dyn.id]  # type: ignore[attr-defined]
    ok_guard = ok_dim = False
    for a in apps:
        lp = [l for l in a.loops if isinstance(l, ast.For)]
        if not lp:
            continue
        tg = lp[-1].target
        if isinstance(tg, ast.Name):
            iv = tg.id
            in_order = norm.match(T("range(len($sh))"), lp[-1].iter) is not None
            guard = any(x.kind == "atom" and norm.any_match([f"$sh[{iv}] == builtin.DYNAMIC_INDEX", f"$sh[{iv}] == DYNAMIC_INDEX"], x.expr) is not None for x in a.facts)
        elif isinstance(tg, ast.Tuple) and len(tg.elts) == 2 and all(isinstance(e, ast.Name) for e in tg.elts) and norm.match(T("enumerate($sh)"), lp[-1].iter) is not None:
            # for i, size in enumerate(shape): `size` is shape[i]
            iv, sv = tg.elts[0].id, tg.elts[1].id  # type: ignore[attr-defined]
            in_order = True
            guard = any(x.kind == "atom" and norm.any_match([f"{sv} == builtin.DYNAMIC_INDEX", f"{sv} == DYNAMIC_INDEX"], x.expr) is not None for x in a.facts)
        else:
            continue
        ok_guard = ok_guard or (guard and in_order)
        cone = fl.cone(a.node.args[0], a, inline=0)
        for _, m in norm.find(T("memref.DimOp.from_source_and_index($src, $idx)"), cone) + norm.find(T("DimOp.from_source_and_index($src, $idx)"), cone):
            idx_c = fl.cone(m["idx"], a, inline=0)
            if norm.contains(idx_c, T(f"$c.from_int_and_width({iv}, $t)")) and (norm.contains(m["src"], T("$o.source")) or norm.contains(m["src"], T("get_source_operand($o)"))):
                ok_dim = True
    chk.result(ok_guard, "C12.alloc-dyn-sizes", f"{f.key}:one-per-dynamic-dim", s.where(), "a size operand is appended exactly for the DYNAMIC dimensions, walking the dimensions in order",
               "dynamic size operands are not appended under `shape[i] == DYNAMIC_INDEX` in dimension order")
    chk.result(ok_dim, "C12.alloc-dyn-sizes", f"{f.key}:dim-of-source-at-i", s.where(), "the operand for dimension i is memref.dim(source, i)",
               "the dynamic size of dimension i is not memref.dim of the source at index i")

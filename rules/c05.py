"""C05 — DMA lowering of a copy moves every element to its layout position (DESIGN.md section 5, C05).

Claimed for the structural clauses only: call/prototype agreement with the C runtime, source/destination
role discipline, mirror symmetry of the two sides, byte units of everything added to a pointer or passed
as a stride, the guards the lowering relies on (equal shapes and element types; plain layouts for the 1-D
case) and — by bounded abstract evaluation of the loop-nest builder over opaque tokens — that every
remaining stride is realised exactly once with its own bound and its own two steps.  The arithmetic of
contiguous-block detection and of dynamic steps is behavioural and not decided.
"""

from __future__ import annotations

import ast
import copy
import re
from pathlib import Path

from sa import norm
from sa.absexec import AbsExec, Closure, Obj, Tok, Undecided
from sa.errors import AnalysisError
from sa.flow import Flow, Site, expand
from sa.model import Func, Repo
from sa.norm import T
from sa.report import Check

from .common import expand_per_alt, expand_with_loops, callee_name, has_fact, is_mutation, kwarg, mutation_sites, rewriter_param

PASS = "snaxc/transforms/snax_copy_to_dma.py"
HEADER = "runtime/include/snax_rt.h"

A_TOK = {"src", "source"}
B_TOK = {"dst", "dest", "destination"}


def run(repo: Repo, chk: Check) -> None:
    chk.explanation = (
        "F5 table agreement between the Python call sites and the C prototypes of the runtime header; role lint and "
        "mirror comparison over identifiers whose names carry a source/destination token (flow-sensitive expansion of "
        "re-used neutral locals per path alternative); F3 dependency of every pointer increment, DMA size and DMA "
        "stride on the element byte size; F2 guards of the two patterns; and bounded abstract evaluation of the "
        "loop-nest builder (0..5 remaining strides, opaque tokens for bounds and steps) against the oracle 'each "
        "remaining stride is realised exactly once: its bound with its own source step and its own destination step'."
    )
    proto(repo, chk)
    roles(repo, chk)
    mirror(repo, chk)
    units(repo, chk)
    guards(repo, chk)
    nest(repo, chk)
    metadata_stride(repo, chk)
    from . import c10 as _c10

    _c10.lccb(repo, chk, rule="C05.lccb-built")
    seed_extent(repo, chk)
    lccb_static(repo, chk)
    layout_offset(repo, chk)


# --------------------------------------------------------------------------- helpers
def _tokens(name: str) -> list[str]:
    return [t for t in re.split(r"_+", name) if t]


def role_of_ident(name: str) -> str | None:
    ts = {t.lower() for t in _tokens(name)}
    a, b = bool(ts & A_TOK), bool(ts & B_TOK)
    if a and not b:
        return "A"
    if b and not a:
        return "B"
    return None


def roles_in(e: ast.AST) -> set[str]:
    out: set[str] = set()
    for n in ast.walk(e):
        nm = n.id if isinstance(n, ast.Name) else n.attr if isinstance(n, ast.Attribute) else n.arg if isinstance(n, ast.keyword) else None
        if nm:
            r = role_of_ident(nm)
            if r:
                out.add(r)
    return out


def _swap_name(name: str) -> str:
    out = []
    for t in re.split(r"(_+)", name):
        tl = t.lower()
        if tl in A_TOK:
            out.append("ROLEB")
        elif tl in B_TOK:
            out.append("ROLEA")
        else:
            out.append(t)
    return "".join(out)


def _norm_name(name: str) -> str:
    out = []
    for t in re.split(r"(_+)", name):
        tl = t.lower()
        out.append("ROLEA" if tl in A_TOK else "ROLEB" if tl in B_TOK else t)
    return "".join(out)


class _Rename(ast.NodeTransformer):
    def __init__(self, fn):
        self.fn = fn

    def visit_Name(self, node: ast.Name) -> ast.AST:
        return ast.copy_location(ast.Name(self.fn(node.id), node.ctx), node)

    def visit_Attribute(self, node: ast.Attribute) -> ast.AST:
        self.generic_visit(node)
        node.attr = self.fn(node.attr)
        return node

    def visit_keyword(self, node: ast.keyword) -> ast.AST:
        self.generic_visit(node)
        if node.arg:
            node.arg = self.fn(node.arg)
        return node

    def visit_arg(self, node: ast.arg) -> ast.AST:
        node.arg = self.fn(node.arg)
        return node


def role_text(e: ast.AST, swap: bool) -> str:
    return ast.unparse(_Rename(_swap_name if swap else _norm_name).visit(copy.deepcopy(norm.canon(e))))


def _funcs(repo: Repo) -> list[Func]:
    m = repo.module(PASS)
    out = list(m.funcs.values())
    for c in m.classes.values():
        out.extend(c.methods.values())
    return out


# --------------------------------------------------------------------------- prototypes
PROTO = re.compile(r"_mlir_ciface_(snax_dma_\w+)\s*\(([^)]*)\)", re.S)


def c_prototypes(repo_root: str) -> dict[str, list[str]]:
    p = Path(repo_root) / HEADER
    if not p.exists():
        raise AnalysisError(f"{HEADER} not found")
    out: dict[str, list[str]] = {}
    for m in PROTO.finditer(p.read_text()):
        params = [x.strip() for x in m.group(2).replace("\n", " ").split(",") if x.strip()]
        out[m.group(1)] = [re.split(r"[\s\*]+", x)[-1] for x in params]
    return out


def _dma_calls(f: Func):
    for n in ast.walk(f.node):
        if isinstance(n, ast.Call) and callee_name(n) == "CallOp" and n.args and isinstance(n.args[0], ast.Constant) and isinstance(n.args[0].value, str) and n.args[0].value.startswith("snax_dma"):
            yield n


def proto(repo: Repo, chk: Check) -> None:
    chk.rule("C05.proto", "every func.CallOp to a snax_dma_* runtime function passes exactly the parameters of its C prototype in runtime/include/snax_rt.h, and the external declaration the pass inserts has the same arity", floor=4)
    protos = c_prototypes(chk.repo_root)
    if len(protos) < 2:
        raise AnalysisError(f"{HEADER}: fewer than two snax_dma prototypes found")
    n_calls = 0
    for f in _funcs(repo):
        for call in _dma_calls(f):
            chk.analysed(f.key)
            n_calls += 1
            name = call.args[0].value  # type: ignore[attr-defined]
            args = kwarg(call, "arguments", 1)
            key = f"{PASS}:{f.qualname}:{name}#{sum(1 for c in _dma_calls(f) if c.lineno <= call.lineno and c.args[0].value == name)}"  # type: ignore[attr-defined]
            where = f"{PASS}:{call.lineno}"
            if name not in protos:
                chk.bad("C05.proto", key, where, f"{name} has no prototype in {HEADER}")
                continue
            if not isinstance(args, (ast.List, ast.Tuple)) or any(isinstance(a, ast.Starred) for a in args.elts):
                chk.bad("C05.proto", key, where, f"argument list of the call to {name} is not a literal list")
                continue
            chk.result(len(args.elts) == len(protos[name]), "C05.proto", key, where,
                       f"{name}: {len(args.elts)} operands for parameters {protos[name]}",
                       f"{name} is called with {len(args.elts)} operands but its C prototype has {len(protos[name])}: {protos[name]}")
        for n in ast.walk(f.node):
            if isinstance(n, ast.Call) and callee_name(n) == "external" and n.args and isinstance(n.args[0], ast.Constant) and str(n.args[0].value).startswith("snax_dma"):
                chk.analysed(f.key)
                name = n.args[0].value
                ins = n.args[1] if len(n.args) > 1 else None
                arity = None
                if isinstance(ins, ast.BinOp) and isinstance(ins.op, ast.Mult):
                    for side, other in ((ins.left, ins.right), (ins.right, ins.left)):
                        if isinstance(side, ast.Constant) and isinstance(side.value, int) and isinstance(other, (ast.List, ast.Tuple)):
                            arity = side.value * len(other.elts)
                elif isinstance(ins, (ast.List, ast.Tuple)):
                    arity = len(ins.elts)
                key = f"{PASS}:{f.qualname}:declare:{name}"
                if name not in protos or arity is None:
                    chk.bad("C05.proto", key, f"{PASS}:{n.lineno}", f"external declaration of {name}: arity not understood or no prototype")
                    continue
                chk.result(arity == len(protos[name]), "C05.proto", key, f"{PASS}:{n.lineno}", f"external declaration of {name} has {arity} index inputs",
                           f"external declaration of {name} has {arity} inputs, the C prototype {len(protos[name])}")
                # the declaration is only inserted when a call of exactly that name exists
    called = {c.args[0].value for f in _funcs(repo) for c in _dma_calls(f)}  # type: ignore[attr-defined]
    missing = sorted(set(protos) - called)
    if n_calls < 2 or missing:
        raise AnalysisError(f"only {n_calls} DMA call sites found; no call site for {missing} (every runtime DMA entry point has one, confirmed by reading)")


# --------------------------------------------------------------------------- roles
def _plain_defs(defs: list[ast.expr]) -> int:
    n = 0
    for d in defs:
        while isinstance(d, ast.Call) and isinstance(d.func, ast.Name) and d.func.id == "__ctl__" and d.args:
            d = d.args[0]
        if isinstance(d, ast.Call) and isinstance(d.func, ast.Name) and d.func.id.startswith(("__mut_", "__store__", "__del__")):
            continue
        n += 1
    return n


def _multi_def_neutral(fl: Flow) -> set[str]:
    """role-neutral locals that are bound more than once (re-used on the source and on the destination side)"""
    return {n for n, d in fl.alldefs.items() if _plain_defs(d) >= 2 and role_of_ident(n) is None}


def _alt_values(fl: Flow, site: Site, value: ast.expr, names: set[str]) -> list[ast.expr]:
    """the value with re-used neutral locals replaced by their reaching definition, once per path alternative"""
    outs: dict[str, ast.expr] = {}
    for a in site.state.alts or []:
        # re-used neutral locals, and neutral temporaries whose (already expanded) value belongs to ONE side only
        env = {k: v for k, v in a.env.items() if k in names and k not in site.shadow}
        x = expand(value, env)
        outs.setdefault(ast.unparse(x), x)
    if not outs:
        outs[ast.unparse(value)] = value
    return list(outs.values())


def _through_helpers(fl: Flow, x: ast.expr) -> ast.expr:
    """calls to resolvable repo helpers replaced by what they return, expressed over the arguments"""
    y = fl._inline_returns(x, 2)

    class Strip(ast.NodeTransformer):
        def visit_Call(self, node: ast.Call) -> ast.AST:
            self.generic_visit(node)
            if isinstance(node.func, ast.Name) and node.func.id == "__inl__" and node.args and isinstance(node.args[0], ast.Call):
                name = callee_name(node.args[0]) or "?"
                return ast.Call(ast.Name("__inl__", ast.Load()), [ast.Constant(name), *node.args[1:]], [])
            return node

    return ast.fix_missing_locations(Strip().visit(y))


def roles(repo: Repo, chk: Check) -> None:
    chk.rule(
        "C05.roles",
        "a variable, keyword or runtime parameter whose name carries a source (destination) token never receives a value whose "
        "role-bearing identifiers are all of the opposite role",
        floor=30,
    )
    protos = c_prototypes(chk.repo_root)
    n = 0
    for f in _funcs(repo):
        fl = Flow(f, repo)
        neutral = _multi_def_neutral(fl)
        bindings: list[tuple[str, str, ast.expr, Site, int]] = []
        for s in fl.sites:
            nd = s.node
            if isinstance(nd, (ast.Assign, ast.AnnAssign)) and nd is s.stmt and nd.value is not None:
                tgts = nd.targets if isinstance(nd, ast.Assign) else [nd.target]
                for t in tgts:
                    if isinstance(t, ast.Name) and role_of_ident(t.id):
                        bindings.append((t.id, role_of_ident(t.id), nd.value, s, nd.lineno))  # type: ignore[arg-type]
                    if isinstance(t, (ast.Tuple, ast.List)):
                        for x in t.elts:
                            if isinstance(x, ast.Name) and role_of_ident(x.id):
                                bindings.append((x.id, role_of_ident(x.id), nd.value, s, nd.lineno))  # type: ignore[arg-type]
            if isinstance(nd, ast.Call):
                for k in nd.keywords:
                    if k.arg and role_of_ident(k.arg):
                        bindings.append((f"{callee_name(nd)}({k.arg}=)", role_of_ident(k.arg), k.value, s, k.value.lineno))  # type: ignore[arg-type]
                if callee_name(nd) == "CallOp" and nd.args and isinstance(nd.args[0], ast.Constant) and nd.args[0].value in protos:
                    args = kwarg(nd, "arguments", 1)
                    if isinstance(args, (ast.List, ast.Tuple)):
                        for p, a in zip(protos[nd.args[0].value], args.elts):
                            if role_of_ident(p):
                                bindings.append((f"{nd.args[0].value}({p})", role_of_ident(p), a, s, a.lineno))  # type: ignore[arg-type]
        if bindings:
            chk.analysed(f.key)
        seen: dict[str, int] = {}
        for name, role, value, s, line in bindings:
            n += 1
            seen[name] = seen.get(name, 0) + 1
            key = f"{PASS}:{f.qualname}:{name}#{seen[name]}"
            opposite = "B" if role == "A" else "A"
            bad_vals = []
            for v in _alt_values(fl, s, value, neutral | {x for x in fl.alldefs if role_of_ident(x) is None}):
                rs = roles_in(v)
                if rs == {opposite}:
                    bad_vals.append(ast.unparse(v)[:160])
            word = {"A": "source", "B": "destination"}
            chk.result(not bad_vals, "C05.roles", key, f"{PASS}:{line}",
                       f"{name} ({word[role]}) is bound to a value that is not purely {word[opposite]}-derived",
                       f"{name} is a {word[role]} quantity but is bound to a purely {word[opposite]}-derived value: {bad_vals[0] if bad_vals else ''}")
    if n < 30:
        raise AnalysisError(f"only {n} role-typed bindings found (38 confirmed by reading)")


# --------------------------------------------------------------------------- mirror
# equalities established by guards that make two spellings interchangeable; (fact template, rewrite from, rewrite to, reason)
SHAPE_EQ = ["$d.type.get_shape() == $s.type.get_shape()", "$s.type.get_shape() == $d.type.get_shape()"]


def _shape_normaliser(site: Site):
    """under the fact `dst.type.get_shape() == src.type.get_shape()` the attribute paths `<dst>.type.shape` and
    `<src>.type.shape` denote equal values (MemRefType.get_shape() is the tuple of .shape): both are spelled as
    the role-A one before comparing"""
    f = has_fact(site, SHAPE_EQ)
    if f is None:
        return lambda s: s
    return lambda s: re.sub(r"\.ROLEB\.type\.(shape|get_shape\(\))", r".ROLEA.type.\1", s)


def mirror(repo: Repo, chk: Check) -> None:
    chk.rule(
        "C05.mirror",
        "for every pair of variables whose names differ only in the role token, the definitions of the destination-side variable "
        "are the role-swapped images of the definitions of the source-side variable (re-used neutral locals expanded per path "
        "alternative; shape spellings identified under the established shape equality)",
        floor=4,
    )
    n_pairs = 0
    for f in _funcs(repo):
        fl = Flow(f, repo)
        neutral = _multi_def_neutral(fl)
        defs: dict[str, list[tuple[Site, ast.expr]]] = {}
        for s in fl.sites:
            nd = s.node
            if isinstance(nd, (ast.Assign, ast.AnnAssign)) and nd is s.stmt and nd.value is not None:
                tgts = nd.targets if isinstance(nd, ast.Assign) else [nd.target]
                for t in tgts:
                    if isinstance(t, ast.Name) and role_of_ident(t.id):
                        defs.setdefault(t.id, []).append((s, nd.value))
                    if isinstance(t, (ast.Tuple, ast.List)):
                        for i, x in enumerate(t.elts):
                            if isinstance(x, ast.Name) and role_of_ident(x.id):
                                defs.setdefault(x.id, []).append((s, ast.Subscript(nd.value, ast.Constant(i), ast.Load())))
        names_a = [x for x in defs if role_of_ident(x) == "A"]
        for a in sorted(names_a):
            partners = [b for b in defs if role_of_ident(b) == "B" and _norm_name(b) == _swap_name(a)]
            if not partners:
                continue
            b = partners[0]
            n_pairs += 1
            chk.analysed(f.key)

            def texts(name: str, swap: bool, extra: set[str] = frozenset(), through_helpers: bool = False) -> dict[str, int]:  # type: ignore[assignment]
                out: dict[str, int] = {}
                for s, v in defs[name]:
                    nz = _shape_normaliser(s)
                    for x in _alt_values(fl, s, v, neutral | set(extra)):
                        if through_helpers:
                            x = _through_helpers(fl, x)
                        out.setdefault(nz(role_text(x, swap)), s.line)
                return out

            ta, tb = texts(a, True), texts(b, False)
            if set(ta) != set(tb):
                # neutral temporaries that only one side mentions (`_h1 = f(src..)` / `_h2 = f(dst..)`) stand for side-specific values: look through them
                def names_of(name: str) -> set[str]:
                    return {n.id for _, v in defs[name] for n in ast.walk(v) if isinstance(n, ast.Name) and role_of_ident(n.id) is None}

                only_one = names_of(a) ^ names_of(b)
                if only_one:
                    ta, tb = texts(a, True, only_one), texts(b, False, only_one)
            if set(ta) != set(tb):
                # a helper that receives values of both sides: what matters is how each argument is used inside it
                ta2, tb2 = texts(a, True, through_helpers=True), texts(b, False, through_helpers=True)
                if set(ta2) == set(tb2):
                    ta, tb = ta2, tb2
            only_a = sorted(set(ta) - set(tb))
            only_b = sorted(set(tb) - set(ta))
            key = f"{PASS}:{f.qualname}:{a}|{b}"
            line = min([s.line for s, _ in defs[b]])
            chk.result(not only_a and not only_b, "C05.mirror", key, f"{PASS}:{line}",
                       f"{len(tb)} definition(s) of {b} mirror the definition(s) of {a}",
                       f"{b} is not the mirror image of {a}: expected (from {a}, roles swapped) {only_a[:2]}; found {only_b[:2]}",
                       facts=[f"{a} (swapped): {sorted(ta)}"[:600], f"{b}: {sorted(tb)}"[:600]])
    if n_pairs < 4:
        raise AnalysisError(f"only {n_pairs} mirrored variable pairs found (7 confirmed by reading; the two layouts, pointers, steps and increments are the minimum)")


# --------------------------------------------------------------------------- byte units
BYTES = ["$t.element_type.size", "$t.get_element_type().size", "$e.size"]


def _has_bytes(cone: ast.AST) -> bool:
    if any(norm.contains(cone, T(t)) for t in BYTES[:2]):
        return True
    for n in ast.walk(cone):
        if isinstance(n, ast.Call) and callee_name(n) == "get_step_ops":
            ib = kwarg(n, "in_bytes", 2)
            if isinstance(ib, ast.Constant) and ib.value is True:
                return True
    return False


def units(repo: Repo, chk: Check) -> None:
    chk.rule(
        "C05.units",
        "everything added to a source/destination pointer, the DMA transfer size and the DMA strides depend on the element byte "
        "size (an `element_type.size` factor, or step ops requested with in_bytes=True)",
        floor=8,
    )
    tsl_steps = repo.func("snaxc/dialects/tsl.py", "TiledStridedLayoutAttr.get_step_ops")
    n = 0
    flows = [(f, Flow(f, repo)) for f in _funcs(repo)]
    # a helper walked as part of its caller is judged there, with the caller's values for its parameters
    judged_in_caller = {k_ for _, fl_ in flows for k_ in fl_.inlined} | set(repo.inlined_oneliner_keys)
    for f, fl in flows:
        from_params = lambda cone, f=f: f.key in judged_in_caller and bool(norm.free_names(cone) & set(f.params))  # noqa: E731
        # pointer increments
        k = 0
        for s in fl.calls("AddiOp"):
            c = s.node
            assert isinstance(c, ast.Call)
            if len(c.args) < 2:
                continue
            lhs_roles = {role_of_ident(x.id) for x in ast.walk(c.args[0]) if isinstance(x, ast.Name)} - {None}
            if not lhs_roles or "pointer" not in ast.unparse(c.args[0]).lower() and "ptr" not in ast.unparse(c.args[0]).lower():
                continue
            k += 1
            n += 1
            chk.analysed(f.key)
            cone = fl.cone(c.args[1], s, inline=0)
            if not _has_bytes(cone) and from_params(cone):
                continue
            chk.result(_has_bytes(cone), "C05.units", f"{PASS}:{f.qualname}:increment#{k}", s.where(),
                       f"the increment of {ast.unparse(c.args[0])} is scaled by the element byte size",
                       f"{ast.unparse(c.args[0])} is advanced by a quantity that does not depend on the element byte size: {ast.unparse(cone)[:200]}")
        # DMA call operands
        protos = c_prototypes(chk.repo_root)
        j = 0
        for s in fl.calls("CallOp"):
            c = s.node
            assert isinstance(c, ast.Call)
            if not (c.args and isinstance(c.args[0], ast.Constant) and c.args[0].value in protos):
                continue
            args = kwarg(c, "arguments", 1)
            if not isinstance(args, (ast.List, ast.Tuple)):
                continue
            j += 1
            for p, a in zip(protos[c.args[0].value], args.elts):
                if p in ("size", "src_stride", "dst_stride"):
                    n += 1
                    cone = fl.cone(a, s, inline=2)
                    if not _has_bytes(cone) and from_params(cone):
                        continue
                    chk.result(_has_bytes(cone), "C05.units", f"{PASS}:{f.qualname}:{c.args[0].value}#{j}:{p}", s.where(),
                               f"{c.args[0].value}({p}) is a byte quantity", f"{c.args[0].value}({p}) does not depend on the element byte size: {ast.unparse(cone)[:200]}")
    # get_step_ops honours in_bytes
    chk.analysed(tsl_steps.key)
    fl = Flow(tsl_steps, repo)
    consts = [s for s in fl.calls("from_int_and_width") if s.node.args and norm.contains(s.node.args[0], T("$s.step"))]  # type: ignore[attr-defined]
    ok = bool(consts)
    for s in consts:
        cone = fl.cone(s.node.args[0], s, inline=0)  # type: ignore[attr-defined]
        if not norm.contains(cone, T("$t.element_type.size")):
            ok = False
    n += 1
    chk.result(ok, "C05.units", "snaxc/dialects/tsl.py:get_step_ops:static-steps", tsl_steps.where,
               "static steps are multiplied by the element size selected by in_bytes", "a static step constant in get_step_ops is not scaled by the in_bytes element size")
    if n < 8:
        raise AnalysisError(f"only {n} byte-unit obligations found")


# --------------------------------------------------------------------------- guards
def guards(repo: Repo, chk: Check) -> None:
    chk.rule(
        "C05.guards",
        "the strided lowering rewrites only copies whose shapes and element types are equal (bounds are generated from the source "
        "alone); the 1-D lowering only copies between two plain (no layout attribute) memrefs",
        floor=4,
    )
    f = repo.func(PASS, "TransformDMA.match_and_rewrite")
    chk.analysed(f.key)
    fl = Flow(f, repo)
    rw = rewriter_param(f)
    for s, lab in mutation_sites(fl, rw):
        shp = has_fact(s, SHAPE_EQ) is not None
        elt = has_fact(s, ["$d.type.get_element_type() == $s.type.get_element_type()", "$d.type.element_type == $s.type.element_type"]) is not None
        chk.result(shp and elt, "C05.guards", f"{PASS}:TransformDMA:{lab}", s.where(),
                   "reached only with equal shapes and equal element types", f"rewrite reachable without the guard: equal shapes={shp}, equal element types={elt}", facts=s.fact_texts)
    f = repo.func(PASS, "MatchSimpleCopy.match_and_rewrite")
    chk.analysed(f.key)
    fl = Flow(f, repo)
    rw = rewriter_param(f)
    for s, lab in mutation_sites(fl, rw):
        a = has_fact(s, ["isinstance($o.source.type.layout, NoneAttr)"]) is not None
        b = has_fact(s, ["isinstance($o.destination.type.layout, NoneAttr)"]) is not None
        chk.result(a and b, "C05.guards", f"{PASS}:MatchSimpleCopy:{lab}", s.where(),
                   "reached only when neither memref has a layout attribute", f"1-D lowering reachable with a layout: source plain={a}, destination plain={b}", facts=s.fact_texts)


# --------------------------------------------------------------------------- loop nest (bounded abstract evaluation)
def _val(name: str) -> Obj:
    o = Obj("Val", {"__name__": name})
    return o


def _models():
    def block(ops=None, arg_types=()):
        b = Obj("Block", {"ops": list(ops or [])})
        b.f["args"] = [Obj("BlockArg", {"owner": b, "__name__": "iv"}) for _ in (arg_types if isinstance(arg_types, (list, tuple)) else [arg_types])]
        return b

    models = {
        "Block": block,
        "Region": lambda blk: Obj("Region", {"block": blk if isinstance(blk, Obj) else blk[0]}),
        "ForOp": lambda lb, ub, step, iter_args, body: Obj("ForOp", {"lb": lb, "ub": ub, "step": step, "iter_args": iter_args, "body": body}),
        "YieldOp": lambda *a: Obj("YieldOp", {}),
        "MuliOp": lambda a, b, *t: Obj("MuliOp", {"a": a, "b": b}),
        "AddiOp": lambda a, b, *t: Obj("AddiOp", {"a": a, "b": b}),
        "CallOp": lambda name, args, res=None: Obj("CallOp", {"name": name, "args": list(args)}),
        "from_int_and_width": lambda v, t=None: Obj("ConstantOp", {"value": v}),
        "get_total_size_op": lambda src: ([], Obj("TotalSize", {"of": src})),
    }
    attrs = {}
    for cls in ("Val", "MuliOp", "AddiOp", "ConstantOp", "TotalSize"):
        attrs[(cls, "result")] = lambda o: o
        attrs[(cls, "results")] = lambda o: [o]
    attrs[("Block", "first_op")] = lambda b: b.f["ops"][0] if b.f["ops"] else None
    attrs[("Block", "last_op")] = lambda b: b.f["ops"][-1] if b.f["ops"] else None

    def insert_ops_before(b, ops, anchor):
        i = next(i for i, x in enumerate(b.f["ops"]) if x is anchor)
        b.f["ops"][i:i] = list(ops)

    methods = {
        ("Block", "insert_ops_before"): insert_ops_before,
        ("Block", "insert_op_before"): lambda b, op, anchor: insert_ops_before(b, [op], anchor),
        ("Block", "add_op"): lambda b, op: b.f["ops"].append(op),
        ("Block", "add_ops"): lambda b, ops: b.f["ops"].extend(ops),
    }
    return models, attrs, methods


def _unvalue(v):
    """strip the value/op distinction: the models use the op object as its own result"""
    return v


def _flatten_sum(v, terms: list, base: list) -> None:
    if isinstance(v, Obj) and v.cls == "AddiOp":
        _flatten_sum(v.f["a"], terms, base)
        _flatten_sum(v.f["b"], terms, base)
    elif isinstance(v, Obj) and v.cls == "MuliOp":
        terms.append(v)
    else:
        base.append(v)


def _field_kind(name: str) -> str | None:
    ts = {t.lower() for t in _tokens(name)}
    if "bound" in ts:
        return "bound"
    if "step" in ts and ts & A_TOK:
        return "step_a"
    if "step" in ts and ts & B_TOK:
        return "step_b"
    return None


def nest(repo: Repo, chk: Check) -> None:
    chk.rule(
        "C05.nest",
        "loop-nest builder, evaluated abstractly for 0..5 remaining strides: the copy is replaced by a 1-D call (none remaining), a 2-D call, or "
        "a loop nest around a 2-D call in which every remaining stride is realised exactly once — as the 2-D repeat dimension or as one loop — "
        "with its own bound, its own source step and its own destination step; pointer increments are placed before their use",
        floor=6,
    )
    f = repo.func(PASS, "TransformDMA.match_and_rewrite")
    chk.analysed(f.key)
    body = f.node.body
    # anchor: the top-level statement that sorts the remaining strides
    idx = [i for i, st in enumerate(body) if isinstance(st, (ast.Assign, ast.AnnAssign)) and st.value is not None and isinstance(st.value, ast.Call) and callee_name(st.value) == "sorted"]
    rec = [st for st in body if isinstance(st, ast.ClassDef)]
    if not rec:
        # the record class may live at module level: the one whose fields are a bound and a step per side
        for c in repo.module(PASS).classes.values():
            fs = [s_.target.id for s_ in c.node.body if isinstance(s_, ast.AnnAssign) and isinstance(s_.target, ast.Name)]
            if sorted(k for k in map(_field_kind, fs) if k) == ["bound", "step_a", "step_b"]:
                rec.append(c.node)
    if len(idx) != 1 or len(rec) != 1:
        raise AnalysisError(f"{f.where}: anchor of the loop-nest builder not found (sorted remaining strides: {len(idx)}, record class: {len(rec)})")
    st = body[idx[0]]
    tgt = st.targets[0] if isinstance(st, ast.Assign) else st.target
    if not isinstance(tgt, ast.Name):
        raise AnalysisError(f"{f.where}: remaining-strides list is not a plain variable")
    list_name = tgt.id
    fields = [s.target.id for s in rec[0].body if isinstance(s, ast.AnnAssign) and isinstance(s.target, ast.Name)]
    kinds = {fl: _field_kind(fl) for fl in fields}
    if sorted(k for k in kinds.values() if k) != ["bound", "step_a", "step_b"]:
        raise AnalysisError(f"{f.where}: fields of {rec[0].name} cannot be classified into bound / source step / destination step: {fields}")
    region = body[idx[0] + 1:]
    op_p = f.params[1]
    rw = f.params[2]
    for L in range(0, 6):
        models, attrs, methods = _models()
        ex = AbsExec(models, methods=methods, attrs=attrs, where=PASS)
        strides = []
        for k in range(L):
            strides.append(Obj(rec[0].name, {fl: _val(f"{fl}#{k}") for fl in fields}))
        env = {
            list_name: list(strides),
            "self": Obj("Self", {"test_ignore_transform": False}),
            "pointer_src": _val("base_a"),
            "pointer_dst": _val("base_b"),
            "ops_to_insert": [],
            "lcb": [Obj("Stride", {"bound": Tok("lcb.bound"), "step": Tok("lcb.step")})],
            op_p: Tok(op_p),
            rw: Tok(rw),
        }
        # helpers of the pass module that the reference tree does not have are evaluated from their source
        from sa.flow import _KNOWN_FUNCS
        for hname, h in repo.module(PASS).funcs.items():
            if h.key not in _KNOWN_FUNCS and hname not in env and hname not in models:
                env[hname] = Closure(h.node, env)
        # names the region reads but does not define and that are role-named pointers under another spelling
        free = set()
        for stx in region:
            free |= norm.free_names(stx)
        for nm in sorted(free):
            if nm not in env and role_of_ident(nm) and ("pointer" in nm or "ptr" in nm):
                env[nm] = _val("base_a" if role_of_ident(nm) == "A" else "base_b")
        key = f"{PASS}:TransformDMA:nest:L={L}"
        try:
            ex.run(region, env)
        except Undecided as e:
            raise AnalysisError(f"loop-nest builder not analysable for {L} remaining stride(s): {e}") from None
        reps = [(args, kw) for name, args, kw in ex.calls if name == f"{rw}.replace_op"]
        if len(reps) != 1 or len(reps[0][0]) < 2:
            chk.bad("C05.nest", key, f.where, f"{L} remaining stride(s): {len(reps)} replace_op call(s) recorded")
            continue
        new = reps[0][0][1]
        inserted = [x for name, args, kw in ex.calls if name == f"{rw}.insert_op" for x in (args[0] if isinstance(args[0], list) else [args[0]])]
        problems = _check_nest(new, L, kinds, inserted)
        chk.result(not problems, "C05.nest", key, f.where,
                   f"{L} remaining stride(s): " + ("1-D transfer of the whole buffer" if L == 0 else f"{L - 1} loop(s) around a 2-D transfer; every stride realised once with its own bound and steps"),
                   f"{L} remaining stride(s): " + "; ".join(problems[:4]))


def _name(v) -> str:
    if isinstance(v, Obj):
        return str(v.f.get("__name__", v.cls))
    if isinstance(v, Tok):
        return v.text
    return repr(v)


def _check_nest(new, L: int, kinds: dict[str, str | None], inserted: list) -> list[str]:
    probs: list[str] = []
    fld = {v: k for k, v in kinds.items() if v}

    def idx_of(v, kind: str) -> int | None:
        nm = _name(v)
        m = re.match(rf"^{re.escape(fld[kind])}#(\d+)$", nm)
        return int(m.group(1)) if m else None

    if L == 0:
        if not (isinstance(new, Obj) and new.cls == "CallOp" and str(new.f["name"]).endswith("1d_transfer")):
            return [f"expected a 1-D transfer, got {_name(new)}"]
        a = new.f["args"]
        if len(a) != 3 or _name(a[0]) != "base_a" or _name(a[1]) != "base_b" or not (isinstance(a[2], Obj) and a[2].cls == "TotalSize"):
            probs.append(f"1-D transfer operands are ({', '.join(_name(x) for x in a)}), expected (source pointer, destination pointer, total size)")
        return probs
    # descend through the loops
    loops: list[Obj] = []
    cur = new
    call = None
    enclosing_blocks: list[Obj] = []
    while True:
        if isinstance(cur, Obj) and cur.cls == "ForOp":
            loops.append(cur)
            blk = cur.f["body"].f["block"]
            enclosing_blocks.append(blk)
            inner = [o for o in blk.f["ops"] if isinstance(o, Obj) and o.cls in ("ForOp", "CallOp")]
            if len(inner) != 1:
                return [f"loop {len(loops)} contains {len(inner)} nested loop/call operation(s), expected exactly one"]
            if not (blk.f["ops"] and isinstance(blk.f["ops"][-1], Obj) and blk.f["ops"][-1].cls == "YieldOp"):
                probs.append(f"the body of loop {len(loops)} does not end in a yield")
            cur = inner[0]
        elif isinstance(cur, Obj) and cur.cls == "CallOp":
            call = cur
            break
        else:
            return [f"the copy is replaced by {_name(cur)}, neither a loop nor a DMA call"]
    if not str(call.f["name"]).endswith("2d_transfer"):
        return [f"with {L} remaining stride(s) a 2-D transfer is expected, got {call.f['name']}"]
    if len(loops) != L - 1:
        probs.append(f"{len(loops)} loop(s) for {L} remaining strides (one stride is the 2-D repeat dimension, so {L - 1} expected)")
    a = call.f["args"]
    if len(a) != 6:
        return probs + [f"2-D transfer with {len(a)} operands"]
    used: list[int] = []
    # 2-D dimension
    d_a, d_b, d_n = idx_of(a[3], "step_a"), idx_of(a[4], "step_b"), idx_of(a[5], "bound")
    if d_a is None or d_b is None or d_n is None or not (d_a == d_b == d_n):
        probs.append(f"2-D transfer: source stride {_name(a[3])}, destination stride {_name(a[4])} and repeat {_name(a[5])} do not belong to one stride")
    else:
        used.append(d_n)
    # loops: bound index per loop
    loop_idx: dict[int, int | None] = {}
    for li, lp in enumerate(loops):
        loop_idx[id(lp.f["body"].f["block"].f["args"][0])] = idx_of(lp.f["ub"], "bound")
        if loop_idx[id(lp.f["body"].f["block"].f["args"][0])] is None:
            probs.append(f"loop {li + 1}: upper bound {_name(lp.f['ub'])} is not the bound of a remaining stride")
        lb = lp.f["lb"]
        if not (isinstance(lb, Obj) and lb.cls == "ConstantOp" and lb.f["value"] == 0) or not (isinstance(lp.f["step"], Obj) and lp.f["step"].cls == "ConstantOp" and lp.f["step"].f["value"] == 1):
            probs.append(f"loop {li + 1} does not run from 0 in steps of 1")
    for side, arg, base, kind in (("source", a[0], "base_a", "step_a"), ("destination", a[1], "base_b", "step_b")):
        terms: list = []
        bases: list = []
        _flatten_sum(arg, terms, bases)
        if [_name(b) for b in bases] != [base]:
            probs.append(f"{side} pointer of the transfer starts from {[_name(b) for b in bases]}, expected the {side} base pointer")
        seen_iv: list[int] = []
        for t in terms:
            x, y = t.f["a"], t.f["b"]
            iv, stp = (x, y) if isinstance(x, Obj) and x.cls == "BlockArg" else (y, x)
            if not (isinstance(iv, Obj) and iv.cls == "BlockArg") or id(iv) not in loop_idx:
                probs.append(f"{side} pointer: term {_name(x)} * {_name(y)} does not use the induction variable of an enclosing loop")
                continue
            k = idx_of(stp, kind)
            want = loop_idx[id(iv)]
            li = [i for i, lp in enumerate(loops) if lp.f["body"].f["block"].f["args"][0] is iv][0] + 1
            if k is None or k != want:
                probs.append(f"{side} pointer: loop {li} counts to {fld['bound']}#{want} but advances by {_name(stp)}")
            seen_iv.append(id(iv))
            # placement: the increment must sit in the block of its own loop or an enclosing one, before the nested op
        if sorted(seen_iv) != sorted(loop_idx):
            probs.append(f"{side} pointer is advanced {len(seen_iv)} time(s) for {len(loops)} loop(s): each loop must contribute exactly once")
    used += [k for k in loop_idx.values() if k is not None]
    if sorted(used) != list(range(L)) and not probs:
        probs.append(f"strides realised: {sorted(used)}, expected each of 0..{L - 1} exactly once")
    # dominance of the pointer arithmetic
    placed: dict[int, tuple[int, int]] = {}
    for depth, blk in enumerate(enclosing_blocks):
        for pos, o in enumerate(blk.f["ops"]):
            placed[id(o)] = (depth, pos)
    for o in inserted:
        placed.setdefault(id(o), (-1, 0))

    # position, in each enclosing block, of the nested loop (or of the call) through which deeper uses are reached
    child_pos: dict[int, int] = {}
    for depth, blk in enumerate(enclosing_blocks):
        for pos, o in enumerate(blk.f["ops"]):
            if isinstance(o, Obj) and o.cls in ("ForOp", "CallOp"):
                child_pos[depth] = pos

    def check_use(user_depth: int, user_pos: int, v, what: str) -> None:
        if isinstance(v, Obj) and v.cls in ("MuliOp", "AddiOp"):
            if id(v) not in placed:
                probs.append(f"{what}: {v.cls} feeding it is never inserted into the IR")
                return
            d, p = placed[id(v)]
            limit = user_pos if d == user_depth else child_pos.get(d, 10**6)
            if d > user_depth or (d >= 0 and p >= limit):
                probs.append(f"{what}: a {v.cls} of loop {d + 1} is placed behind the operation that uses it")
            check_use(d, p, v.f["a"], what)
            check_use(d, p, v.f["b"], what)

    if enclosing_blocks:
        cd, cp = placed.get(id(call), (len(enclosing_blocks) - 1, 10**6))
        check_use(cd, cp, a[0], "source pointer")
        check_use(cd, cp, a[1], "destination pointer")
    return probs


# --------------------------------------------------------------------------- contiguity seed of dynamic steps
def seed_extent(repo: Repo, chk: Check) -> None:
    chk.rule(
        "C05.seed-extent",
        "get_step_ops: the stride whose bound op seeds the dynamic steps is chosen from the strides' static steps *and* bounds: strides may "
        "share a step (unit bounds), and their extents step*bound differ, so a choice that reads only the steps cannot be right for "
        "every layout",
        floor=1,
    )
    f = repo.func("snaxc/dialects/tsl.py", "TiledStridedLayoutAttr.get_step_ops")
    chk.analysed(f.key)
    fl = Flow(f, repo)
    bp = [p for p in f.params if p not in ("self", "cls")][0]
    n = 0
    seen: set[int] = set()
    subs: list[tuple[Site, ast.Subscript]] = []
    for s in fl.sites:
        for nd in ast.walk(s.node):
            if isinstance(nd, ast.Subscript) and isinstance(nd.value, ast.Name) and nd.value.id == bp and isinstance(nd.slice, ast.Name) and id(nd) not in seen:
                seen.add(id(nd))
                subs.append((s, nd))
    for s, nd in subs:
        assert isinstance(nd.slice, ast.Name)
        cone = fl.cone(nd.slice, s, inline=0)
        # a key that is simply the loop position (dim, depth) of the stride being assigned is not a selection
        if not norm.contains(cone, T("$s.step")):
            continue
        n += 1
        dep = norm.contains(cone, T("$s.bound"))
        chk.result(dep, "C05.seed-extent", f"snaxc/dialects/tsl.py:get_step_ops:{bp}[{nd.slice.id}]", s.where(),
                   f"the selected stride {nd.slice.id} depends on the strides' steps and bounds",
                   f"the selected stride {nd.slice.id} is chosen from the steps alone; with equal steps (e.g. [1, 4] -> (16, 16)) the seed extent is step*1 instead of step*4",
                   facts=[ast.unparse(cone)[:400]])
    if n == 0:
        raise AnalysisError(f"{f.where}: no selected-stride lookup `{bp}[<key>]` found")


# --------------------------------------------------------------------------- run-time strides belong to the innermost tile level
def metadata_stride(repo: Repo, chk: Check) -> None:
    chk.rule(
        "C05.metadata-stride",
        "get_step_ops: the run-time stride of dimension d read from extract_strided_metadata is the step of the INNERMOST tile level of "
        "d only (key (d, depth(d) - 1)); outer levels of a reconstructed layout have step = stride * inner bounds and must not receive it",
        floor=1,
    )
    f = repo.func("snaxc/dialects/tsl.py", "TiledStridedLayoutAttr.get_step_ops")
    chk.analysed(f.key)
    fl = Flow(f, repo)
    n = 0
    for s in fl.stmts(ast.Assign):
        t = s.node.targets[0]
        if not (s.reachable and isinstance(t, ast.Subscript)):
            continue
        # direct data flow only (locals expanded per path alternative): a value looked up again from the mapping is not a metadata read
        hits = [h for x_ in expand_per_alt(s, s.node.value) for h in norm.find(T("$m.strides[$d]"), x_)]
        if not hits:
            continue
        n += 1
        key = expand_with_loops(s, t.slice)
        key = norm.primary(key)
        ok = False
        detail = f"key {ast.unparse(key)[:80]}"
        if isinstance(key, ast.Tuple) and len(key.elts) == 2:
            d, k = key.elts
            same_dim = any(ast.unparse(norm.primary(s.expand(h[1]["d"]))) == ast.unparse(norm.primary(s.expand(t.slice.elts[0]))) if isinstance(t.slice, ast.Tuple) else False
                           for h in hits)
            d_txt = ast.unparse(t.slice.elts[0]) if isinstance(t.slice, ast.Tuple) else ast.unparse(d)
            k_raw = t.slice.elts[1] if isinstance(t.slice, ast.Tuple) else k
            last = norm.any_match(["$t.tstrides[$d].depth() - 1", "len($t.tstrides[$d].strides) - 1", "$t.tstrides[$d].depth() + -1"], s.expand(k_raw), {"d": d_txt}) is not None
            by_fact = bool(has_fact(s, ["$k == $t.tstrides[$d].depth() - 1", "$k + 1 == $t.tstrides[$d].depth()", "$k == len($t.tstrides[$d].strides) - 1"],
                                    {"k": k_raw, "d": d_txt}))
            ok = same_dim and (last or by_fact)
            detail = f"key ({d_txt}, {ast.unparse(s.expand(k_raw))[:60]}); same dimension as the metadata stride: {same_dim}; innermost level: {last or by_fact}"
        chk.result(ok, "C05.metadata-stride", f"snaxc/dialects/tsl.py:get_step_ops:metadata#{n}", s.where(),
                   "the run-time stride of dimension d becomes the step of (d, innermost level)",
                   f"the run-time stride read from the strided metadata is stored under {detail}: an outer tile level then steps by the element pitch instead of "
                   "pitch * inner bounds (a strided<[?, 1]> source copied into 4x4 tiles lands rows in the wrong tiles)")
    if n == 0:
        raise AnalysisError(f"{f.where}: no store of a metadata stride into the step mapping found")


# --------------------------------------------------------------------------- the common contiguous block ends at a dynamic stride
def lccb_static(repo: Repo, chk: Check) -> None:
    chk.rule(
        "C05.lccb-static",
        "largest_common_contiguous_block: once a stride with a dynamic step or bound has joined the block the search ends (its own docstring: "
        "'stops searching when it hits a dynamic Stride'); setting the running extent to None and searching on makes every further "
        "dynamic-step stride count as contiguous, whatever its run-time value",
        floor=1,
    )
    f = repo.func("snaxc/ir/tsl/tiled_strided_layout.py", "TiledStridedLayout.largest_common_contiguous_block")
    chk.analysed(f.key)
    cur = None
    for n in ast.walk(f.node):
        m = norm.any_match(["$x.step == $c", "$c == $x.step"], n) if isinstance(n, ast.Compare) else None
        if m is not None and isinstance(m["c"], ast.Name):
            cur = m["c"].id
    if cur is None:
        raise AnalysisError(f"{f.where}: comparison of a stride's step with the running extent not found")
    loops = [n for n in ast.walk(f.node) if isinstance(n, (ast.While, ast.For))]

    def blocks(node):
        for fld in ("body", "orelse", "finalbody"):
            b = getattr(node, fld, None)
            if isinstance(b, list) and b and isinstance(b[0], ast.stmt):
                yield b
                for st in b:
                    yield from blocks(st)

    n_sites = 0
    bad = []
    for lp in loops:
        for b in blocks(lp):
            for i, st in enumerate(b):
                if isinstance(st, ast.Assign) and any(isinstance(t, ast.Name) and t.id == cur for t in st.targets) and isinstance(st.value, ast.Constant) and st.value.value is None:
                    n_sites += 1
                    rest = b[i + 1:]
                    if not any(isinstance(x, (ast.Return, ast.Break, ast.Raise)) for x in rest):
                        bad.append(st.lineno)
    key = "snaxc/ir/tsl/tiled_strided_layout.py:largest_common_contiguous_block:dynamic-extent"
    chk.result(not bad, "C05.lccb-static", key, f"{f.module.relpath}:{bad[0] if bad else f.node.lineno}",
               f"the running extent `{cur}` never becomes None while the search continues ({n_sites} site(s))",
               f"`{cur} = None` at line(s) {bad} and the search continues: strides with dynamic steps then compare equal to the running extent and join the "
               "'contiguous' block (memref<?x?xi32, strided<[?, 1]>> on both sides is lowered to one 1-D transfer although the run-time row pitches may differ)")


# --------------------------------------------------------------------------- reconstructed layouts keep the memref's offset
def layout_offset(repo: Repo, chk: Check) -> None:
    chk.rule(
        "C05.layout-offset",
        "every tiled-strided layout reconstructed from a strided / plain memref type (TiledStridedLayout.from_strides) is given the offset of "
        "that same memref type (from_strides defaults to offset 0: an omitted offset silently drops the operand's offset from the copy)",
        floor=2,
    )
    n = 0
    for f in _funcs(repo):
        fl = Flow(f, repo)
        for s in fl.calls("from_strides"):
            if not s.reachable:
                continue
            c = s.node
            assert isinstance(c, ast.Call)
            n += 1
            chk.analysed(f.key)
            strides = kwarg(c, "strides", 0)
            off = kwarg(c, "offset", 2)
            key = f"{PASS}:{f.qualname}:from_strides#{n}"
            if strides is None:
                chk.bad("C05.layout-offset", key, s.where(), "from_strides without a strides argument")
                continue
            sc = fl.cone(strides, s, inline=0)
            types = [ast.unparse(norm.primary(m["t"])) for _, m in norm.find(T("extract_strides($t)"), sc)]
            if off is None:
                chk.bad("C05.layout-offset", key, s.where(),
                        f"the layout is rebuilt from the strides of {types or '?'} without its offset: a strided operand with a non-zero (or dynamic) offset is "
                        "copied from/to the unshifted base pointer")
                continue
            oc = fl.cone(off, s, inline=0)
            otypes = [ast.unparse(norm.primary(m["t"])) for _, m in norm.find(T("extract_offset($t)"), oc)]
            same = bool(types) and bool(otypes) and set(otypes) <= set(types) | set(otypes) and any(t in types for t in otypes)
            chk.result(same, "C05.layout-offset", key, s.where(), f"strides and offset both come from {sorted(set(types))}",
                       f"the layout takes its strides from {types} but its offset from {otypes or ast.unparse(off)}")
    if n < 2:
        raise AnalysisError(f"only {n} from_strides call(s) found in {PASS}")

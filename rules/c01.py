"""C01 — config deduplication never changes what a launch observes (DESIGN.md section 5, C01)."""

from __future__ import annotations

import ast

from sa import norm
from sa.errors import AnalysisError
from sa.flow import Flow, Site
from sa.model import Repo
from sa.norm import T
from sa.report import Check

from . import c07
from .common import (
    callee_name,
    depends_on,
    flow_of,
    g,
    has_fact,
    has_forall,
    mutation_sites,
    op_param,
    require_guards,
    rewriter_param,
    subexprs,
)

DEDUP = "snaxc/transforms/accfg_dedup.py"
ACCFG = "snaxc/dialects/accfg.py"


def run(repo: Repo, chk: Check) -> None:
    chk.explanation = (
        "Guard dominance (F2), effect discipline (F7) and dependency obligations (F3) on the five rewrite patterns of "
        "accfg-dedup: a field is dropped only under equality with the state inferred from this op's own in_state; "
        "setups are merged only across side-effect-free ops up to a setup of the same accelerator, later values "
        "winning; a setup is hoisted out of a loop only for fields that every setup in the loop writes with one and "
        "the same loop-invariant value; a setup is sunk into a preceding scf.if only if no launch of the if's state "
        "lies in between; accfg ops carry no purity traits. The soundness of the consumed state inference is shared "
        "with C07 (its rules are re-run here). Decides these necessary conditions for every execution of the pass "
        "code, not register contents at run time nor confluence of the greedy driver."
    )
    simplify(repo, chk)
    merge(repo, chk)
    elide(repo, chk)
    pull(repo, chk)
    hoist_if(repo, chk)
    all_setups(repo, chk)
    op_traits(repo, chk)
    pass_wiring(repo, chk)
    # C01.state-soundness: the inference consumed by the patterns (same rule instances as C07)
    sub = Check("C07", chk.tier, chk.repo_root)
    c07.infer_state(repo, sub)
    c07.intersection(repo, sub)
    c07.effects(repo, sub)
    chk.rule("C01.state-soundness", "the state inference consumed by the dedup patterns is sound (C07 rules on infer_state_of / state_intersection / has_accfg_effects)", floor=8)
    for i in sub.instances:
        i.rule = "C01.state-soundness"
        chk.instances.append(i)
    chk.functions |= sub.functions


# --------------------------------------------------------------------------- SimplifyRedundantSetupCalls
def simplify(repo: Repo, chk: Check) -> None:
    f, fl = flow_of(repo, chk, DEDUP, "SimplifyRedundantSetupCalls.match_and_rewrite")
    op = op_param(f)
    rw = rewriter_param(f)
    chk.rule(
        "C01.simplify",
        "a parameter is omitted from the replacement only under equality with infer_state_of(this op's in_state) "
        "({} when there is none); the replacement keeps accelerator and in_state",
        floor=4,
    )
    sites = [s for s in fl.calls("SetupOp") if s.reachable]
    if not sites:
        raise AnalysisError(f"{f.where}: construction of the replacement SetupOp not found")
    for s in sites:
        call = s.node
        assert isinstance(call, ast.Call)
        if len(call.args) < 4:
            raise AnalysisError(f"{s.where()}: SetupOp(...) with fewer than 4 positional arguments")
        vals, names, acc, ins = (s.expand(a) for a in call.args[:4])
        key = f"{f.key}:replacement"
        chk.result(norm.match(T("$op.accelerator"), acc, {"op": op}) is not None, "C01.simplify", key + ":accelerator", s.where(),
                   "replacement keeps op.accelerator", f"replacement accelerator is {ast.unparse(acc)}")
        chk.result(norm.match(T("$op.in_state"), ins, {"op": op}) is not None, "C01.simplify", key + ":in_state", s.where(),
                   "replacement keeps op.in_state", f"replacement in_state is {ast.unparse(ins)}")
        # the filter: comprehension(s) over op.iter_params() in the cone of values and names
        comps = []
        for e in (vals, names):
            for sub in ast.walk(e):
                if isinstance(sub, (ast.ListComp, ast.GeneratorExp)) and any(
                    norm.match(T("$op.iter_params()"), gen.iter, {"op": op}) is not None for gen in sub.generators
                ):
                    comps.append(sub)
        filters: list[tuple[str, str, list[ast.expr]]] = []  # (name variable, value variable, conditions under which the pair is kept)
        for comp in comps:
            gen = next(gen for gen in comp.generators if norm.match(T("$op.iter_params()"), gen.iter, {"op": op}) is not None)
            if not (isinstance(gen.target, ast.Tuple) and len(gen.target.elts) == 2 and all(isinstance(e, ast.Name) for e in gen.target.elts)):
                raise AnalysisError(f"{s.where()}: comprehension target over iter_params() is not (name, value)")
            nm, vl = (e.id for e in gen.target.elts)  # type: ignore[union-attr]
            filters.append((nm, vl, [a for c in gen.ifs for a in norm.atoms(c, True)]))
        if not comps:
            # the same filter as a loop over op.iter_params() appending the kept names / values to the lists handed to the replacement
            lists = {a.id for a in call.args[:2] if isinstance(a, ast.Name)}
            for a_ in [x for x in fl.calls("append") if x.reachable and isinstance(x.node.func.value, ast.Name) and x.node.func.value.id in lists]:
                lp = [l for l in a_.loops if isinstance(l, ast.For) and norm.match(T("$op.iter_params()"), l.iter, {"op": op}) is not None]
                if not lp or not (isinstance(lp[-1].target, ast.Tuple) and len(lp[-1].target.elts) == 2 and all(isinstance(e, ast.Name) for e in lp[-1].target.elts)):
                    continue
                nm, vl = (e.id for e in lp[-1].target.elts)  # type: ignore[union-attr]
                head = next((x for x in fl.stmts(ast.For) if x.node is lp[-1]), None)
                base = set(head.fact_texts) if head is not None else set()
                filters.append((nm, vl, [fa.expr for fa in a_.facts if fa.kind == "atom" and fa.text not in base]))
            if len(filters) < len(lists) or not lists:
                raise AnalysisError(f"{s.where()}: no comprehension over op.iter_params() feeds the replacement")
        for nm, vl, conds in filters:
            good = False
            prev_ok = False
            for c in conds:
                m = norm.any_match(["$p.get($n) != $v", "$p.get($n, $_) != $v", "$p.get($n) is not $v", "$n not in $p or $p[$n] != $v"], c,
                                   {"n": ast.Name(nm, ast.Load()), "v": ast.Name(vl, ast.Load())})
                if m is not None:
                    good = True
                    p = m["p"]
                    mm = norm.match(T("infer_state_of($op.in_state) if $c else $e"), p, {"op": op})
                    if mm is not None and c07._is_empty_dict(mm["e"]) and norm.any_match(["$op.in_state", "$op.in_state is not None"], mm["c"], {"op": op}) is not None:
                        prev_ok = True
                    if norm.match(T("infer_state_of($op.in_state)"), p, {"op": op}) is not None and has_fact(s, ["$op.in_state is not None", "$op.in_state"], {"op": op}):
                        prev_ok = True
            chk.result(good, "C01.simplify", f"{f.key}:filter", s.where(),
                       "a (name, value) pair is dropped only if the previous state holds exactly that value for that name",
                       f"parameters are filtered by {[ast.unparse(c) for c in conds]}; expected `prev_state.get(name) != val`")
            chk.result(prev_ok, "C01.simplify", f"{f.key}:prev-state", s.where(),
                       "the previous state is infer_state_of(op.in_state), or {} without in_state",
                       "the state the filter compares against is not infer_state_of of this op's own in_state (with {} when absent)")
    for site, label in mutation_sites(fl, rw):
        call = site.node
        if isinstance(call, ast.Call) and call.args:
            chk.result(norm.match(T(op), site.expand(call.args[0])) is not None, "C01.simplify", f"{f.key}:replaces-op@{label}", site.where(),
                       "the matched op itself is replaced", f"{label} acts on {ast.unparse(call.args[0])}, not on the matched op")


# --------------------------------------------------------------------------- MergeSetupOps
def merge(repo: Repo, chk: Check) -> None:
    f, fl = flow_of(repo, chk, DEDUP, "MergeSetupOps.match_and_rewrite")
    op = op_param(f)
    rw = rewriter_param(f)
    chk.rule(
        "C01.merge",
        "MergeSetupOps steps backwards only over side-effect-free ops, stops only at a setup of the same accelerator, "
        "merges *earlier updated by later* and keeps the earlier op's in_state",
        floor=6,
    )
    # the backwards scan: every re-assignment `x = x.prev_op` inside a loop
    steps = [
        s for s in fl.stmts(ast.Assign)
        if s.loops and isinstance(s.node.value, ast.Attribute) and s.node.value.attr == "prev_op"
        and isinstance(s.node.targets[0], ast.Name) and isinstance(s.node.value.value, ast.Name)
        and s.node.value.value.id == s.node.targets[0].id
    ]
    if not steps:
        raise AnalysisError(f"{f.where}: backwards scan `x = x.prev_op` not found")
    for s in steps:
        var = s.node.targets[0].id
        chk.result(
            bool(has_fact(s, ["is_side_effect_free($v)"], {"v": var})),
            "C01.merge", f"{f.key}:scan-step", s.where(),
            "the scan steps over an op only after is_side_effect_free(op) succeeded",
            "the backwards scan steps over an op without a purity test: a setup can be merged across a launch or a clobbering call",
            s.fact_texts,
        )
    sites = mutation_sites(fl, rw)
    # the scanned variable: the one that is erased
    erase = [s for s, lab in sites if lab.startswith(f"{rw}.erase_op")]
    if not erase:
        raise AnalysisError(f"{f.where}: erase of the earlier setup not found")
    prev = ast.unparse(erase[0].node.args[0])  # type: ignore[attr-defined]
    require_guards(
        chk, "C01.merge", f, sites,
        [
            ("earlier-is-setup", g("isinstance($p, accfg.SetupOp)", "isinstance($p, SetupOp)", p=prev)),
            ("same-accelerator", g("$p.accelerator == $op.accelerator", "$op.accelerator == $p.accelerator",
                                   "$p.accelerator.data == $op.accelerator.data", p=prev, op=op)),
        ],
    )
    # start of the scan
    init = [s for s in fl.stmts(ast.Assign) if not s.loops and isinstance(s.node.targets[0], ast.Name) and s.node.targets[0].id == prev]
    chk.result(
        any(norm.match(T("$op.prev_op"), s.node.value, {"op": op}) is not None for s in init),
        "C01.merge", f"{f.key}:scan-start", init[0].where() if init else f.where,
        "the scan starts at the op directly before the matched setup",
        "the backwards scan does not start at op.prev_op",
    )
    for s in [x for x in fl.calls("SetupOp") if x.reachable]:
        call = s.node
        assert isinstance(call, ast.Call)
        if len(call.args) < 4:
            raise AnalysisError(f"{s.where()}: SetupOp(...) with fewer than 4 positional arguments")
        vals, names, acc, ins = (s.expand(a) for a in call.args[:4])
        ok_order = False
        for e in (vals, names):
            for _, m in subexprs(e, "__mut_update__($a, $b)"):
                a_prev = depends_on(m["a"], "$p.iter_params()", binds={"p": prev}) and not depends_on(m["a"], "$op.iter_params()", binds={"op": op})
                b_op = depends_on(m["b"], "$op.iter_params()", binds={"op": op}) and not depends_on(m["b"], "$p.iter_params()", binds={"p": prev})
                ok_order = ok_order or (a_prev and b_op)
            for _, m in subexprs(e, "$a | $b"):
                ok_order = ok_order or (depends_on(m["a"], "$p.iter_params()", binds={"p": prev}) and depends_on(m["b"], "$op.iter_params()", binds={"op": op}))
        same_map = ast.unparse(vals).replace(".values()", "") == ast.unparse(names).replace(".keys()", "")
        chk.result(ok_order, "C01.merge", f"{f.key}:merge-order", s.where(),
                   "merged parameters = earlier setup's parameters updated by the later setup's",
                   f"merged parameter map is {ast.unparse(vals)[:160]}: expected the earlier setup's parameters *updated by* the later ones")
        chk.result(same_map, "C01.merge", f"{f.key}:values-names-same-map", s.where(),
                   "values and names are taken from the same map (same order)",
                   "values and parameter names of the merged setup come from different maps")
        chk.result(norm.match(T("$p.in_state"), ins, {"p": prev}) is not None, "C01.merge", f"{f.key}:in_state", s.where(),
                   "merged setup takes the earlier setup's in_state",
                   f"merged setup takes in_state {ast.unparse(ins)}; expected the earlier setup's in_state")
        chk.result(norm.match(T("$op.accelerator"), acc, {"op": op}) is not None, "C01.merge", f"{f.key}:accelerator", s.where(),
                   "merged setup keeps the accelerator")


# --------------------------------------------------------------------------- ElideEmptySetupOps
def elide(repo: Repo, chk: Check) -> None:
    f, fl = flow_of(repo, chk, DEDUP, "ElideEmptySetupOps.match_and_rewrite")
    op = op_param(f)
    rw = rewriter_param(f)
    chk.rule("C01.elide", "a setup is erased only under `no values and in_state present`; its uses go to in_state", floor=4)
    sites = mutation_sites(fl, rw)
    require_guards(
        chk, "C01.elide", f, sites,
        [
            ("no-values", g("len($op.values) == 0", "not $op.values", "len($op.param_names) == 0", "not $op.param_names", op=op)),
            ("has-in-state", g("$op.in_state is not None", "$op.in_state", op=op)),
        ],
    )
    repl = [s for s in fl.calls("replace_all_uses_with", "replace_by") if s.reachable]
    ok = any(
        norm.match(T("$op.out_state.replace_all_uses_with($op.in_state)"), s.expand(s.node), {"op": op}) is not None
        or norm.match(T("$op.out_state.replace_by($op.in_state)"), s.expand(s.node), {"op": op}) is not None
        for s in repl
    ) or any(
        norm.match(T("$rw.replace_op($op, [], [$op.in_state])"), s.expand(s.node), {"op": op, "rw": rw or "rewriter"}) is not None
        for s in fl.calls("replace_op", "replace_matched_op")
    )
    chk.result(ok, "C01.elide", f"{f.key}:redirect", repl[0].where() if repl else f.where,
               "uses of the erased setup's out_state are redirected to its in_state",
               "uses of the erased setup's state are not redirected to its in_state")


# --------------------------------------------------------------------------- PullSetupOpsOutOfLoops
def pull(repo: Repo, chk: Check) -> None:
    f, fl = flow_of(repo, chk, DEDUP, "PullSetupOpsOutOfLoops.match_and_rewrite")
    op = op_param(f)
    rw = rewriter_param(f)
    chk.rule(
        "C01.pull",
        "PullSetupOpsOutOfLoops acts only on the first setup of an scf.for body (in_state is the loop's block "
        "argument); hoisted fields = candidates minus every field whose value is defined in the loop or that is "
        "seen with two different values, over all setups of this accelerator in the loop; the hoisted setup is "
        "inserted before the loop and takes over the matching iter operand",
        floor=10,
    )
    sites = mutation_sites(fl, rw)
    loop = f"{op}.parent_op()"
    require_guards(
        chk, "C01.pull", f, sites,
        [
            ("parent-is-for", g("isinstance($op.parent_op(), scf.ForOp)", "isinstance($op.parent_op(), ForOp)", op=op)),
            ("has-in-state", g("$op.in_state is not None", "$op.in_state", op=op)),
            ("no-unknown-effects-in-loop", g("not has_accfg_effects($op.parent_op())", "not has_accfg_effects($op.parent_op().body)", op=op)),
            ("in-state-is-loop-arg", g("$op.in_state.owner == $op.parent_op().body.block", "$op.in_state.owner is $op.parent_op().body.block",
                                       "$op.in_state in $op.parent_op().body.block.args", op=op)),
        ],
    )
    setups = [s for s in fl.calls("SetupOp") if s.reachable]
    if not setups:
        raise AnalysisError(f"{f.where}: construction of the hoisted SetupOp not found")
    for s in setups:
        call = s.node
        assert isinstance(call, ast.Call)
        names = fl.cone(call.args[1], s)
        vals = fl.cone(call.args[0], s)
        diffs = subexprs(names, "$a - $b") + subexprs(names, "$a.difference($b)")
        if not diffs:
            # the same exclusion spelled as a filter: `.. for k in candidates if k not in unsafe`
            for comp in [c for c in ast.walk(names) if isinstance(c, (ast.ListComp, ast.SetComp, ast.GeneratorExp, ast.DictComp))]:
                for gen in comp.generators:
                    for cnd in gen.ifs:
                        for at in norm.atoms(cnd, True):
                            m_ = norm.match(T("$k not in $b"), at)
                            if m_ is not None and isinstance(norm.primary(m_["b"]), ast.Name) and norm.free_names(m_["k"]) <= {
                                    n.id for n in ast.walk(gen.target) if isinstance(n, ast.Name)}:
                                diffs.append((at, m_))
        if not diffs:
            chk.bad("C01.pull", f"{f.key}:difference", s.where(),
                    f"hoisted field names {ast.unparse(norm.primary(names))[:120]} are not a set difference `candidates - unsafe`")
            continue
        _, m = diffs[0]
        unsafe = norm.primary(m["b"])
        if not isinstance(unsafe, ast.Name):
            raise AnalysisError(f"{s.where()}: subtrahend of the hoisting difference is not a local set")
        uname = unsafe.id
        adds = [x for x in fl.calls("add") if x.reachable and norm.match(T("$u.add($_)"), x.node, {"u": uname}) is not None]
        arm_defined = arm_changed = False
        dom_ok = True
        for a in adds:
            # the conditions under which this add is reached: a must-fact, or one operand of an `or` must-fact
            reached_when: list[ast.expr] = []
            for fact in a.facts:
                if fact.kind != "atom":
                    continue
                e_ = norm.primary(fact.expr)
                # an operand that is a conjunction contributes each of its conjuncts (`a or (b and c)`: reached under a, or under b and c)
                for o_ in (e_.values if isinstance(e_, ast.BoolOp) and isinstance(e_.op, ast.Or) else [e_]):
                    o_ = norm.primary(o_)
                    reached_when.extend(o_.values if isinstance(o_, ast.BoolOp) and isinstance(o_.op, ast.And) else [o_])
            for e_ in reached_when:
                if norm.any_match(["val_is_defined_in_block($v, $op.parent_op().body.block)", "val_is_defined_in_block($v, $op.parent_op().body.blocks[0])"],
                                  e_, {"op": op}) is not None:
                    arm_defined = True
                if norm.any_match(["$d[$k] != $v", "$d.get($k) != $v", "$v != $d[$k]", "$d.get($k, $v) != $v", "$v != $d.get($k, $v)"], e_) is not None:
                    arm_changed = True
            # iteration domain: all setups of this accelerator in the loop body
            outer = [l for l in a.loops if isinstance(l, ast.For)]
            if not outer:
                dom_ok = False
            else:
                site_for = next((x for x in fl.stmts(ast.For) if x.node is outer[0]), None)
                it = site_for.expand(outer[0].iter) if site_for else outer[0].iter
                dom_ok = dom_ok and norm.any_match(
                    ["all_setup_ops_in_region($op.parent_op().body, $op.accelerator.data)"], it, {"op": op}
                ) is not None
        chk.result(arm_defined, "C01.pull", f"{f.key}:unsafe-if-defined-in-loop", s.where(),
                   "a field whose value is defined inside the loop is excluded from hoisting",
                   "fields whose value is defined inside the loop are no longer excluded from hoisting")
        chk.result(arm_changed, "C01.pull", f"{f.key}:unsafe-if-two-values", s.where(),
                   "a field seen with two different values is excluded from hoisting",
                   "fields that are set to two different values inside the loop are no longer excluded from hoisting")
        chk.result(dom_ok and bool(adds), "C01.pull", f"{f.key}:scan-domain", s.where(),
                   "the scan covers all setups of this accelerator in the loop body (nested ones included)",
                   "the scan for unsafe fields does not iterate all_setup_ops_in_region(loop.body, op.accelerator.data)")
        # values: the recorded ones
        chk.result(depends_on(vals, "$d[$k]") and not depends_on(vals, "$op.values", binds={"op": op}), "C01.pull", f"{f.key}:values", s.where(),
                   "hoisted values are the recorded per-field values")
        ins = None
        for kw in call.keywords:
            if kw.arg == "in_state":
                ins = kw.value
        if ins is None and len(call.args) > 3:
            ins = call.args[3]
        chk.result(
            ins is not None and norm.match(T("get_initial_value_for_scf_for_lcv($op.parent_op(), $op.in_state)"), s.expand(ins), {"op": op}) is not None,
            "C01.pull", f"{f.key}:in_state", s.where(),
            "the hoisted setup takes the loop's initial value of this state as in_state",
            "the hoisted setup does not take the loop's initial state operand as its in_state",
        )
    for s in fl.calls("insert_op"):
        call = s.node
        assert isinstance(call, ast.Call)
        if len(call.args) >= 2:
            chk.result(norm.match(T("InsertPoint.before($op.parent_op())"), s.expand(call.args[1]), {"op": op}) is not None,
                       "C01.pull", f"{f.key}:before-loop", s.where(), "the hoisted setup is inserted directly before the loop",
                       f"the hoisted setup is inserted at {ast.unparse(s.expand(call.args[1]))[:80]}")
    stores = [s for s in fl.stmts(ast.Assign) if s.reachable and isinstance(s.node.targets[0], ast.Attribute) and s.node.targets[0].attr == "operands"]
    ok = False
    for s in stores:
        v = s.expand(s.node.value)
        for sub in ast.walk(v):
            if isinstance(sub, ast.IfExp):
                m = norm.any_match(["$v if $v != $n.in_state else $n.out_state", "$n.out_state if $v == $n.in_state else $v",
                                    "$n.out_state if $v is $n.in_state else $v"], sub)
                ok = ok or m is not None
    if not ok:
        # the same replacement spelled as a loop appending to a list that becomes the operands
        for s in stores:
            root = norm.primary(s.node.value)
            while isinstance(root, ast.Call) and isinstance(root.func, ast.Name) and root.func.id in ("tuple", "list") and len(root.args) == 1:
                root = root.args[0]
            if not isinstance(root, ast.Name):
                continue
            apps = [x for x in fl.calls("append") if x.reachable and norm.match(T("$l.append($_)"), x.node, {"l": root.id}) is not None]
            took = kept = False
            for x in apps:
                lp = [l for l in x.loops if isinstance(l, ast.For) and isinstance(l.target, ast.Name)]
                if not lp or norm.any_match(["$l.operands"], x.expand(lp[-1].iter), {"l": loop}) is None:
                    continue
                var = lp[-1].target.id
                val = x.expand(x.node.args[0])
                setup_in = [kw.value for c_ in ast.walk(val) if isinstance(c_, ast.Call) and callee_name(c_) == "SetupOp" for kw in c_.keywords if kw.arg == "in_state"]
                if isinstance(val, ast.Attribute) and val.attr == "out_state" and setup_in:
                    if has_fact(x, ["$v == $i", "$v is $i", "$i == $v"], {"v": var, "i": x.expand(setup_in[0])}):
                        took = True
                elif isinstance(val, ast.Name) and val.id == var:
                    if any(fa.kind == "atom" and norm.any_match(["$v != $i", "$v is not $i", "$i != $v"], fa.expr, {"v": var}) is not None for fa in x.facts):
                        kept = True
            ok = ok or (took and kept)
    chk.result(ok, "C01.pull", f"{f.key}:iter-operand", stores[0].where() if stores else f.where,
               "exactly the loop operand equal to the hoisted setup's in_state is replaced by its out_state",
               "the loop's iter operand is not redirected to the hoisted setup's out_state")


# --------------------------------------------------------------------------- HoistSetupCallsIntoConditionals
def hoist_if(repo: Repo, chk: Check) -> None:
    f, fl = flow_of(repo, chk, DEDUP, "HoistSetupCallsIntoConditionals.match_and_rewrite")
    op = op_param(f)
    rw = rewriter_param(f)
    chk.rule(
        "C01.hoist-if",
        "every mutation is dominated by: in_state is the result of an scf.if, and for every LaunchOp user of in_state: "
        "same block as the setup and not positioned before it; the clone goes before each region's yield and the yield "
        "operand at the in_state's result index is replaced",
        floor=6,
    )
    sites = mutation_sites(fl, rw)

    def dom_ok(d: ast.expr) -> bool:
        return depends_on(d, "$op.in_state.uses", binds={"op": op}) and depends_on(d, "isinstance($_, accfg.LaunchOp)", "isinstance($_, LaunchOp)")

    def same_block(site: Site):
        return has_forall(site, ["$v.operation.parent_block() is $op.parent_block()", "$v.operation.parent_block() == $op.parent_block()",
                                 "$v.operation.parent is $op.parent"], dom_ok) if True else None

    def not_before(site: Site):
        return has_forall(site, ["$b.get_operation_index($v.operation) >= $b.get_operation_index($op)",
                                 "$b.get_operation_index($op) <= $b.get_operation_index($v.operation)",
                                 "not $v.operation.is_before_in_block($op)"], dom_ok)

    def _bind_op(test):
        def run_(site: Site):
            # has_forall pre-binds $v; $op must be bound too
            return test(site)
        return run_

    # templates need $op bound: instantiate them textually
    def inst(ts: list[str]) -> list[str]:
        return [t.replace("$op", op) for t in ts]

    def same_block2(site: Site):
        # the loop may run over the uses or over the launch ops themselves (`use.operation for use in ..`)
        return has_forall(site, inst(["$v.operation.parent_block() is $op.parent_block()", "$v.operation.parent_block() == $op.parent_block()",
                                      "$v.operation.parent is $op.parent", "$v.parent_block() is $op.parent_block()", "$v.parent_block() == $op.parent_block()",
                                      "$v.parent is $op.parent"]), dom_ok)

    def not_before2(site: Site):
        return has_forall(site, inst(["$b.get_operation_index($v.operation) >= $c.get_operation_index($op)",
                                      "$b.get_operation_index($op) <= $c.get_operation_index($v.operation)",
                                      "not $v.operation.is_before_in_block($op)",
                                      "$b.get_operation_index($v) >= $c.get_operation_index($op)", "$b.get_operation_index($op) <= $c.get_operation_index($v)",
                                      "not $v.is_before_in_block($op)"]), dom_ok)

    require_guards(
        chk, "C01.hoist-if", f, sites,
        [
            ("in-state-from-if", g("isinstance($op.in_state.owner, scf.IfOp)", "isinstance($op.in_state.owner, IfOp)", op=op)),
            ("setup-in-block-of-the-if", g("$op.parent_block() is $op.in_state.owner.parent_block()", "$op.parent_block() == $op.in_state.owner.parent_block()",
                                           "$op.in_state.owner.parent_block() is $op.parent_block()", "$op.parent is $op.in_state.owner.parent", op=op)),
            ("launch-users-same-block", same_block2),
            ("no-launch-in-between", not_before2),
        ],
    )
    # operands must be available inside the if: the pattern must look at where the setup's values are defined
    first = next((s_ for s_, _ in sites if s_.reachable), None)
    avail = None
    if first is not None:
        for fact in first.facts:
            dom_, txt = None, fact.text
            if fact.kind == "forall":
                dom_ = fact.domain
            elif fact.kind == "atom":
                q = norm.qnf(fact.expr)  # `not any(.. for val in op.values)` and friends
                if q is not None and q[0] == "all":
                    dom_ = q[2]
            if dom_ is not None and norm.any_match(["$op.values", "$op.operands"], dom_, {"op": op}) is not None:
                if "get_operation_index" in txt or "is_before_in_block" in txt or "val_is_defined" in txt or "dominat" in txt:
                    avail = fact
    # ... strictly before it: a value that is a result of the scf.if itself (same position) does not exist inside its branches either
    if avail is not None:
        bodies = [b.expr for b in avail.body] if avail.kind == "forall" else [avail.expr]
        strict = None
        for b_ in bodies:
            for c_ in ast.walk(b_):
                if not (isinstance(c_, ast.Compare) and len(c_.ops) == 1 and "get_operation_index" in ast.unparse(c_)):
                    continue
                l_, r_ = c_.left, c_.comparators[0]
                l_if = norm.contains(l_, T("$op.in_state.owner"), {"op": op})
                r_if = norm.contains(r_, T("$op.in_state.owner"), {"op": op})
                if l_if == r_if:
                    continue
                # polarity of the comparison inside the (positive) fact
                neg = 0
                def _depth(root: ast.AST, tgt: ast.AST, d: int = 0) -> int | None:
                    if root is tgt:
                        return d
                    for ch in ast.iter_child_nodes(root):
                        got = _depth(ch, tgt, d + (1 if isinstance(root, ast.UnaryOp) and isinstance(root.op, ast.Not) else 0))
                        if got is not None:
                            return got
                    return None
                neg = _depth(b_, c_) or 0
                o_ = type(c_.ops[0])
                if neg % 2:
                    o_ = {ast.Lt: ast.GtE, ast.LtE: ast.Gt, ast.Gt: ast.LtE, ast.GtE: ast.Lt}.get(o_, o_)
                # normalise to `value position <op> if position`
                if l_if:
                    o_ = {ast.Lt: ast.Gt, ast.LtE: ast.GtE, ast.Gt: ast.Lt, ast.GtE: ast.LtE}.get(o_, o_)
                strict = o_ is ast.Lt if strict is None else strict and o_ is ast.Lt
        if strict is False:
            chk.bad("C01.hoist-if", f"{f.key}:values-available-in-if", first.where() if first else f.where,
                    "a value defined AT the position of the scf.if passes the availability test (`<=`): a result of the scf.if itself is used inside its own branches after "
                    "sinking (use before definition)", first.fact_texts if first else [])
            avail = False  # type: ignore[assignment]
        elif strict is None and ("get_operation_index" in avail.text):
            raise AnalysisError(f"{f.where}: the position test over the setup's values is not recognised: {avail.text[:160]}")
    if avail is not False:
        chk.result(avail is not None, "C01.hoist-if", f"{f.key}:values-available-in-if", first.where() if first else f.where,
                   "every value of the setup is known to be defined before the scf.if (position test over op.values)",
                   "no guard relates the definitions of the setup's values to the position of the scf.if: a value computed between the scf.if and the "
                   "setup is used before its definition after sinking", first.fact_texts if first else [])
    # clone placement and yield rewrite
    ins = [s for s in fl.calls("insert_op") if s.reachable]
    ok_place = False
    for s in ins:
        call = s.node
        assert isinstance(call, ast.Call)
        if len(call.args) >= 2:
            ip = s.expand(call.args[1])
            m = norm.match(T("InsertPoint.before($y)"), ip)
            if m is not None and depends_on(m["y"], "$_.block.last_op", "$_.blocks[0].last_op", "$_.block.ops.last"):
                in_regions = any(isinstance(l, ast.For) for l in s.loops)
                ok_place = ok_place or in_regions
    chk.result(ok_place, "C01.hoist-if", f"{f.key}:clone-before-yield", ins[0].where() if ins else f.where,
               "the setup is cloned before the yield of each region of the scf.if",
               "the cloned setup is not inserted before the yield of every region")
    reg_loops = [s for s in fl.stmts(ast.For) if s.reachable and norm.match(T("$op.in_state.owner.regions"), s.expand(s.node.iter), {"op": op}) is not None]
    chk.result(bool(reg_loops), "C01.hoist-if", f"{f.key}:all-regions", reg_loops[0].where() if reg_loops else f.where,
               "both regions of the scf.if are handled", "the cloning loop does not iterate over all regions of the scf.if")
    ok_idx = False
    for s in fl.sites:
        if isinstance(s.node, ast.Subscript) or True:
            pass
    for s in fl.stmts(ast.Assign):
        if not s.reachable:
            continue
        v = s.expand(s.node.value)
        if norm.any_match(["$y.operands[$op.in_state.index]", "$y.arguments[$op.in_state.index]"], v, {"op": op}) is not None:
            ok_idx = True
    chk.result(ok_idx, "C01.hoist-if", f"{f.key}:yield-index", f.where,
               "the yielded state at the if-result's own index is the clone's in_state",
               "the region's yielded state is not taken at the index of the scf.if result that is the setup's in_state")
    erase = [s for s in fl.calls("replace_all_uses_with") if s.reachable]
    chk.result(
        any(norm.match(T("$op.out_state.replace_all_uses_with($op.in_state)"), s.expand(s.node), {"op": op}) is not None for s in erase),
        "C01.hoist-if", f"{f.key}:redirect", erase[0].where() if erase else f.where,
        "uses of the sunk setup's out_state are redirected to the scf.if result")


def all_setups(repo: Repo, chk: Check) -> None:
    """all_setup_ops_in_region feeds both the loop-head inference and the hoisting scan: it must see nested setups"""
    f, fl = flow_of(repo, chk, "snaxc/inference/trace_acc_state.py", "all_setup_ops_in_region")
    region, accel = f.param(0), f.param(1)
    chk.rule(
        "C01.all-setups",
        "all_setup_ops_in_region walks every nested op of the region and yields all parameters of every setup of the "
        "given accelerator",
        floor=2,
    )
    ys = [s for s in fl.sites if isinstance(s.node, (ast.Yield, ast.YieldFrom)) and s.reachable]
    rets = [s for s in fl.stmts(ast.Return) if s.reachable and s.node.value is not None]
    outs = ys + rets
    if not outs:
        raise AnalysisError(f"{f.where}: no yield/return")
    for s in outs:
        loops = [l for l in s.loops if isinstance(l, (ast.For, ast.comprehension))]
        walks = any(norm.any_match(["$r.walk()", "$r.walk(reverse=$_)"], (l.iter), {"r": region}) is not None for l in loops) or depends_on(
            s.node.value, "$r.walk()", binds={"r": region})
        chk.result(walks, "C01.all-setups", f"{f.key}:walk", s.where(),
                   "setups nested in scf.if / scf.for inside the region are included (region.walk())",
                   "only part of the region is scanned for setups (not region.walk()): a setup nested in control flow inside a loop body "
                   "is invisible to the loop-head inference and to the hoisting scan")
        okf = bool(has_fact(s, ["isinstance($o, accfg.SetupOp)", "isinstance($o, SetupOp)"])) and bool(
            has_fact(s, ["$o.accelerator.data == $a", "$a == $o.accelerator.data"], {"a": accel}))
        chk.result(okf, "C01.all-setups", f"{f.key}:filter", s.where(),
                   "exactly the setups of the requested accelerator are reported", "the setup filter (SetupOp of this accelerator) changed", s.fact_texts)
        v = s.expand(s.node.value) if s.node.value is not None else None
        chk.result(v is not None and depends_on(v, "$o.iter_params()") , "C01.all-setups", f"{f.key}:all-params", s.where(),
                   "all parameters of the setup are reported")


# --------------------------------------------------------------------------- accfg op traits
def op_traits(repo: Repo, chk: Check) -> None:
    chk.rule(
        "C01.effects",
        "accfg.launch / await / setup / reset declare no Pure / NoMemoryEffect trait (otherwise MergeSetupOps and the "
        "overlap closure treat them as side-effect free and move setups across launches)",
        floor=4,
    )
    bad_traits = ("Pure", "NoMemoryEffect", "NoSideEffect", "RecursivelySpeculatable", "AlwaysSpeculatable", "ConstantLike")
    for name in ("LaunchOp", "AwaitOp", "SetupOp", "ResetOp"):
        c = repo.cls(ACCFG, name)
        found = []
        for k in repo.mro(c):
            tr = k.consts.get("traits")
            if tr is not None:
                txt = ast.unparse(tr)
                found += [b for b in bad_traits if b in txt]
        chk.result(not found, "C01.effects", f"{c.key}:traits", c.where,
                   f"accfg.{name} declares no purity trait",
                   f"accfg op {name} declares trait(s) {found}: is_side_effect_free() now accepts it")


def pass_wiring(repo: Repo, chk: Check) -> None:
    chk.rule("C01.pass", "the pass registers the patterns analysed here and no unanalysed rewrite pattern", floor=1)
    c = repo.cls(DEDUP, "AccfgDeduplicate")
    apply = c.methods.get("apply")
    if apply is None:
        raise AnalysisError(f"{c.where}: apply not found")
    m = repo.module(DEDUP)
    analysed = {"SimplifyRedundantSetupCalls", "PullSetupOpsOutOfLoops", "MergeSetupOps", "ElideEmptySetupOps", "HoistSetupCallsIntoConditionals"}
    used = set()
    for n in ast.walk(apply.node):
        if isinstance(n, ast.Call) and isinstance(n.func, ast.Name) and n.func.id in m.classes:
            k = m.classes[n.func.id]
            if any(isinstance(b, str) and b.endswith("RewritePattern") for b in repo.bases(k)):
                used.add(n.func.id)
    extra = used - analysed
    chk.result(not extra and bool(used), "C01.pass", f"{c.key}:patterns", c.where,
               f"patterns applied: {sorted(used)}", f"the pass applies rewrite patterns that no rule covers: {sorted(extra)}")

"""C02 — streamer address streams equal the scheduled element stream (DESIGN.md section 5, C02).

The statement quantifies over every byte address of every temporal step; the stride arithmetic behind it
(bank-width packing, spatial fill-up, dimension merging) is integer arithmetic on run-time values and is
NOT decided here.  Claimed are the clauses whose truth is visible in the shape of the code and without
which no address stream can be right:

* offset      — the access-to-memory map is affine: strides are taken relative to the response at the
                origin, that response reaches the operand's base pointer, and the tiled-strided layout map
                includes the layout offset (F-26, F-27, fixed);
* operand     — per-operand sequences (operands, schedule patterns, access patterns, template patterns,
                streamers) are indexed by the loop's own operand index, (stride, bound, relevance) by the
                same dimension index;
* relevance   — which spatial dimensions are relevant is decided from the accelerator template of that
                operand (a relevant dimension may legitimately have stride 0);
* routing     — by bounded abstract evaluation: after the accelerator's set_stride_patterns every operand's
                pattern and base pointer sit at the position of the hardware streamer that get_streamers
                scheduled the operand for (gemmx: 5 cases; xDMA add extension; identity defaults);
* tsl-affine  — by abstract evaluation with symbolic bounds and steps over the repo's own TSL classes:
                the layout map is sum(step * ((d mod prod(bounds[depth:])) div prod(bounds[depth+1:])))
                for every tiling profile up to 2 dimensions x 4 levels.
"""

from __future__ import annotations

import ast
import itertools
from collections import Counter

from sa import norm
from sa.absexec import AbsExec, AbsRaise, Obj, Tok, Undecided
from sa.errors import AnalysisError
from sa.flow import Flow
from sa.model import Cls, Func, Repo
from sa.norm import T
from sa.report import Check

from .common import callee_name, kwarg

LAYRES = "snaxc/transforms/dart/dart_layout_resolution.py"
CONV = "snaxc/transforms/convert_dart_to_snax_stream.py"
TSLD = "snaxc/dialects/tsl.py"
GEMMX = "snaxc/accelerators/snax_gemmx.py"
SNAX = "snaxc/accelerators/snax.py"
ADDEXT = "snaxc/accelerators/streamers/extensions/add_extension.py"
EXT = "snaxc/accelerators/streamers/extensions/streamer_extension.py"


def run(repo: Repo, chk: Check) -> None:
    chk.explanation = (
        "F3 dependency cones (origin response / offset, template-based relevance), F5 index agreement of per-operand "
        "sequences, and bounded abstract evaluation (sa/absexec.py) of the accelerator routing hooks over opaque pattern and "
        "pointer tokens and of the TSL layout map over symbolic bounds and steps, compared with a closed-form oracle. The stride "
        "arithmetic of convert-dart-to-snax-stream is not decided."
    )
    offset(repo, chk)
    dedupe_key(repo, chk)
    operand_index(repo, chk)
    relevance(repo, chk)
    routing(repo, chk)
    tsl_affine(repo, chk)
    from .c19 import stride_canon

    stride_canon(repo, chk, rule="C02.stride-canon")  # the emitted patterns are canonicalised before they reach the streamers


# --------------------------------------------------------------------------- offset
def _is_zero_list(e: ast.AST) -> bool:
    e = norm.primary(e)
    if norm.any_match(["[0] * $n", "$n * [0]", "(0,) * $n", "$n * (0,)"], e) is not None:
        return True
    if isinstance(e, (ast.ListComp, ast.GeneratorExp)) and isinstance(e.elt, ast.Constant) and e.elt.value == 0:
        return True
    if isinstance(e, ast.Call) and callee_name(e) in ("zeros", "zeros_like"):
        return True
    if isinstance(e, (ast.List, ast.Tuple)) and e.elts and all(isinstance(x, ast.Constant) and x.value == 0 for x in e.elts):
        return True
    return False


def _origin_evals(cone: ast.AST) -> list[ast.Call]:
    out = []
    for n in ast.walk(cone):
        if isinstance(n, ast.Call) and isinstance(n.func, ast.Attribute) and n.func.attr == "eval" and n.args and _is_zero_list(n.args[0]):
            out.append(n)
    return out


def dedupe_key(repo: Repo, chk: Check) -> None:
    """layout resolution works per USE of a buffer: strides, pointer shift and pattern belong to (operand position, buffer). A table that hands an
    earlier result to a later use has to be keyed by everything that result was computed from"""
    from .common import loop_dedupe_audit

    chk.rule("C02.dedupe-key", "a table that LayoutResolution fills in a loop and consults to skip work is keyed by every loop variable the stored value depends on "
             "(a buffer used by two operands has its own offset and pattern per use)", floor=0)
    f = repo.func(LAYRES, "LayoutResolution.match_and_rewrite")
    fl = Flow(f, repo)
    for d, st, deps, key_vars in loop_dedupe_audit(fl, f):
        missing = deps - key_vars
        chk.result(not missing, "C02.dedupe-key", f"{f.key}:{d}", st.where(), f"`{d}` is keyed by {sorted(key_vars)}, which determine the stored value",
                   f"`{d}` remembers a value computed from {sorted(deps)} under a key that only determines {sorted(key_vars)}: a later use with the same key and another "
                   f"{sorted(missing)} gets the first use's value (the same buffer streamed through two operands with different offsets starts at the first operand's address)")


def offset(repo: Repo, chk: Check) -> None:
    chk.rule(
        "C02.offset",
        "layout resolution: every stride is a response of the composed map minus its response at the origin; the response at the origin "
        "reaches the operand pointers handed to dart.access_pattern; the tiled-strided layout map depends on the layout's offset",
        floor=3,
    )
    f = repo.func(LAYRES, "LayoutResolution.match_and_rewrite")
    chk.analysed(f.key)
    fl = Flow(f, repo)
    k = 0
    for s in fl.calls("append"):
        c = s.node
        assert isinstance(c, ast.Call)
        if not (isinstance(c.func, ast.Attribute) and isinstance(c.func.value, ast.Name) and c.args):
            continue
        cone = fl.cone(c.args[0], s, inline=0)
        # a stride extraction evaluates the map away from the origin
        if not any(isinstance(n, ast.Call) and isinstance(n.func, ast.Attribute) and n.func.attr == "eval" and n.args and not _is_zero_list(n.args[0]) for n in ast.walk(cone)):
            continue
        k += 1
        rel = False
        for n in ast.walk(cone):
            if isinstance(n, ast.BinOp) and isinstance(n.op, ast.Sub) and _origin_evals(n.right):
                rel = True
        chk.result(rel, "C02.offset", f"{LAYRES}:LayoutResolution:stride#{k}", s.where(),
                   "the stride is the unit response minus the response at the origin",
                   f"the stride is a raw response of an affine map: a layout offset is added to every stride ({ast.unparse(c.args[0])[:100]})")
    if k == 0:
        raise AnalysisError(f"{f.where}: no stride extraction (`.eval(...)` appended to a list) found")
    # the map whose responses are taken: text of the callee object of the unit-response evaluations
    maps_used: set[str] = set()
    for s in fl.calls("append"):
        c = s.node
        if isinstance(c, ast.Call) and c.args:
            cone = fl.cone(c.args[0], s, inline=0)
            for n in ast.walk(cone):
                if isinstance(n, ast.Call) and isinstance(n.func, ast.Attribute) and n.func.attr == "eval" and n.args and not _is_zero_list(n.args[0]):
                    maps_used.add(ast.unparse(norm.canon(norm.primary(fl.cone(n.func.value, s, inline=0)))))
    for n in ast.walk(f.node):
        if isinstance(n, ast.Call) and isinstance(n.func, ast.Attribute) and n.func.attr == "eval" and n.args and not _is_zero_list(n.args[0]):
            maps_used.add(ast.unparse(n.func.value))
    # ... and the same evaluations reached through a helper the walker went into
    for s in fl.calls("eval"):
        n = s.node
        if s.reachable and isinstance(n, ast.Call) and isinstance(n.func, ast.Attribute) and n.args and not _is_zero_list(n.args[0]):
            maps_used.add(ast.unparse(norm.canon(norm.primary(fl.cone(n.func.value, s, inline=0)))))
            maps_used.add(ast.unparse(norm.primary(s.expand(n.func.value))))
            maps_used.add(ast.unparse(n.func.value))
    # pointers
    ap = fl.calls("AccessPatternOp")
    if len(ap) != 1:
        raise AnalysisError(f"{f.where}: expected one dart.AccessPatternOp construction, found {len(ap)}")
    call = ap[0].node
    assert isinstance(call, ast.Call)
    ok = True
    detail = []
    for i, nm in ((0, "inputs"), (1, "outputs")):
        a = kwarg(call, nm, i)
        if a is None:
            ok = False
            continue
        cone = fl.cone(a, ap[0], inline=0)
        origins = _origin_evals(cone)
        # the origin response must be that of the composed access-to-memory map (the schedule's constant term included), not of the layout alone
        same_map = [o for o in origins if ast.unparse(norm.canon(norm.primary(fl.cone(o.func.value, ap[0], inline=0)))) in maps_used  # type: ignore[attr-defined]
                    or ast.unparse(norm.primary(o.func.value)) in maps_used]  # type: ignore[attr-defined]
        dep = bool(same_map)
        detail.append(f"{nm}: origin response found={bool(origins)}, of the composed map={dep}")
        ok = ok and dep
    chk.result(ok, "C02.offset", f"{LAYRES}:LayoutResolution:pointers", ap[0].where(),
               "the operand pointers of the access pattern depend on the response at the origin of the composed access-to-memory map (layout offset and the schedule's constant term)",
               f"the response at the origin of the composed map never reaches the base pointers ({', '.join(detail)}): operands with a layout offset, or whose access pattern starts inside the buffer, are streamed from the wrong position")
    # flow-sensitive: what is added to an extracted base pointer, judged where it is added
    adds = [s for s in fl.calls("AddiOp") if s.reachable and len(s.node.args) >= 2 and any(
        isinstance(n, ast.Call) and callee_name(n) in ("get", "ExtractAlignedPointerAsIndexOp") and "ExtractAlignedPointerAsIndexOp" in ast.unparse(n)
        for n in ast.walk(fl.cone(s.node.args[0], s, inline=0)))]  # type: ignore[attr-defined]
    for k_, s in enumerate(adds):
        cone = fl.cone(s.node.args[1], s, inline=0)  # type: ignore[attr-defined]
        origins = _origin_evals(cone)
        good = [o for o in origins if ast.unparse(norm.canon(norm.primary(fl.cone(o.func.value, s, inline=0)))) in maps_used  # type: ignore[attr-defined]
                or ast.unparse(norm.primary(o.func.value)) in maps_used]  # type: ignore[attr-defined]
        alien = [o for o in origins if o not in good]
        chk.result(bool(good) and not alien, "C02.offset", f"{LAYRES}:LayoutResolution:pointer-shift#{k_ + 1}", s.where(),
                   "the base pointer is moved by the response at the origin of the composed access-to-memory map",
                   "the base pointer is moved by " + (f"the origin response of `{ast.unparse(alien[0].func.value)[:80]}`" if alien else "a value that is not an origin response")  # type: ignore[attr-defined]
                   + ", not by that of the composed access-to-memory map: the constant term of the schedule's access pattern (an operand window that starts inside the buffer) is dropped")
    # units: the streamers and the pointer arithmetic work in bytes. A response of the byte map is in bytes; a response of the element map
    # is in elements and has to be scaled by the element size - strides AND the shift of the base pointer alike
    def _unit(cone: ast.expr) -> str | None:
        in_bytes = norm.contains(cone, T("$t.get_affine_map_in_bytes()"))
        in_elems = norm.contains(cone, T("$t.get_affine_map()"))
        if in_bytes == in_elems:
            return None
        scaled = any(isinstance(n, ast.BinOp) and isinstance(n.op, ast.Mult) and any(
            norm.contains(side, T("$t.element_type.size")) or norm.contains(side, T("$t.element_type.bitwidth // 8")) or norm.contains(side, T("$t.element_type.width.data // 8"))
            for side in (n.left, n.right)) for n in ast.walk(cone))
        return {(True, False): "bytes", (True, True): "bytes scaled by the element size again", (False, True): "bytes", (False, False): "elements"}[(in_bytes, scaled)]

    units: list[tuple[str, str, Site]] = []
    n_str = 0
    for s in fl.calls("append"):
        c = s.node
        if isinstance(c, ast.Call) and c.args and isinstance(c.func, ast.Attribute) and isinstance(c.func.value, ast.Name):
            cone = fl.cone(c.args[0], s, inline=0)
            if any(isinstance(n, ast.Call) and isinstance(n.func, ast.Attribute) and n.func.attr == "eval" and n.args and not _is_zero_list(n.args[0]) for n in ast.walk(cone)):
                n_str += 1
                u = _unit(cone)
                if u is None:
                    continue  # not computed from a map of the memref type here (e.g. a value taken over from another operand)
                units.append((f"stride#{n_str}", u, s))
    for k_, s in enumerate(adds):
        u = _unit(fl.cone(s.node.args[1], s, inline=0))  # type: ignore[attr-defined]
        if u is None:
            if chk.unlisted():
                continue
            raise AnalysisError(f"{s.where()}: whether the pointer shift is taken from the byte map or the element map of the memref type is not recognised")
        units.append((f"pointer-shift#{k_ + 1}", u, s))
    if not any(lab.startswith("stride") for lab, _, _ in units):
        raise AnalysisError(f"{f.where}: whether the strides are taken from the byte map or the element map of the memref type is not recognised")
    for lab, u, s in units:
        chk.result(u == "bytes", "C02.offset", f"{LAYRES}:LayoutResolution:unit:{lab}", s.where(), "the value is in bytes",
                   f"this value is in {u}, the streamers and the pointer arithmetic work in bytes: for an element type wider than one byte "
                   + ("the base pointer is moved by `offset` bytes instead of `offset * element size`" if lab.startswith("pointer") else "the stream steps by the wrong amount"))
    g = repo.func(TSLD, "TiledStridedLayoutAttr.get_affine_map")
    chk.analysed(g.key)
    gfl = Flow(g, repo)
    dep = False
    for s in gfl.stmts(ast.Return):
        if s.node.value is not None and norm.contains(gfl.cone(s.node.value, s, inline=0), T("self.data.offset")):  # type: ignore[attr-defined]
            dep = True
    chk.result(dep, "C02.offset", f"{TSLD}:get_affine_map:offset", g.where, "the tiled-strided layout map depends on the layout's offset",
               "the tiled-strided layout map ignores the layout's offset")


# --------------------------------------------------------------------------- per-operand indexing
PER_OPERAND = ["$o.operands", "$o.patterns", "$o.patterns.data", "schedule", "template", "streamers", "$a.get_template($o)", "$a.get_streamers($o)"]


def _operand_loops(fn: ast.AST) -> list[tuple[ast.For, str]]:
    """loops over the operands of the op with the name of the operand INDEX: `for k in range(len(op.operands))` or
    `for k, operand in enumerate(op.operands)`"""
    out: list[tuple[ast.For, str]] = []
    for n in ast.walk(fn):
        if not isinstance(n, ast.For):
            continue
        if norm.match(T("range(len($o.operands))"), n.iter) is not None and isinstance(n.target, ast.Name):
            out.append((n, n.target.id))
        elif norm.match(T("enumerate($o.operands)"), n.iter) is not None and isinstance(n.target, ast.Tuple) and len(n.target.elts) == 2 \
                and all(isinstance(e, ast.Name) for e in n.target.elts):
            out.append((n, n.target.elts[0].id))  # type: ignore[union-attr]
        elif isinstance(n.iter, ast.Call) and callee_name(n.iter) == "zip" and n.iter.args and norm.match(T("$o.operands"), n.iter.args[0]) is not None:
            out.append((n, ""))  # the per-operand sequences are walked in parallel: there is no index to get wrong
    indexed = [x for x in out if x[1]]
    if indexed:
        return indexed
    # several parallel walks (the resolution itself, the pointer arithmetic afterwards): the resolution is the one doing the work
    return sorted(out, key=lambda x: -sum(1 for _ in ast.walk(x[0])))[:1]


def operand_index(repo: Repo, chk: Check) -> None:
    chk.rule(
        "C02.operand",
        "inside `for operand in range(len(op.operands))` every per-operand sequence (operands, patterns, schedule, template, streamers) is "
        "indexed by the loop's own variable, the per-operand result is appended once per iteration, and stride, bound and relevance of a "
        "dimension are read with one index",
        floor=8,
    )
    for path, qual in ((LAYRES, "LayoutResolution.match_and_rewrite"), (CONV, "ConvertStreamToSnaxStreamPattern.match_and_rewrite")):
        f = repo.func(path, qual)
        chk.analysed(f.key)
        fl = Flow(f, repo)
        loops = _operand_loops(f.node)
        if len(loops) != 1:
            raise AnalysisError(f"{f.where}: expected one loop over the operands, found {len(loops)}")
        loop, var = loops[0]
        seen: Counter = Counter()
        for n in ast.walk(loop):
            if not isinstance(n, ast.Subscript) or isinstance(n.slice, ast.Slice):
                continue
            base = n.value
            site = next((s for s in fl.sites if any(x is n for x in ast.walk(s.node))), None)
            bexp = site.expand(base) if site is not None else base
            if norm.any_match(PER_OPERAND, base) is None and norm.any_match(PER_OPERAND, bexp) is None:
                continue
            btxt = ast.unparse(base)
            seen[btxt] += 1
            ok = isinstance(n.slice, ast.Name) and n.slice.id == var
            chk.result(ok, "C02.operand", f"{path}:{qual.split('.')[0]}:{btxt}#{seen[btxt]}", f"{path}:{n.lineno}",
                       f"{btxt}[{var}]: indexed by the loop's operand index", f"{btxt} is indexed by `{ast.unparse(n.slice)}` inside the loop over operand `{var}`")
        # exactly one append per iteration at the top level of the loop body, to a list that reaches the new op
        tops = [st for st in loop.body if isinstance(st, ast.Expr) and isinstance(st.value, ast.Call) and callee_name(st.value) == "append"]
        nested = [n for st in loop.body if not (isinstance(st, ast.Expr)) for n in ast.walk(st) if isinstance(n, ast.Call) and callee_name(n) == "append"]
        targets = {ast.unparse(st.value.func.value) for st in tops}  # type: ignore[attr-defined]
        res_lists = [t for t in targets if not any(isinstance(n, ast.Call) and callee_name(n) == "append" and ast.unparse(n.func.value) == t for n in nested)]  # type: ignore[attr-defined]
        if not res_lists and any(isinstance(st, ast.Assign) and isinstance(st.targets[0], ast.Subscript) for st in loop.body):
            # results kept in a table instead of a list: whether every operand position gets its own entry is the business of the key audits
            # (C02.dedupe-key / C02.cache-keys); this clause does not read tables
            chk.observe(f"C02.operand one-result-per-operand not evaluated for {qual}: per-operand results are stored in a table")
            continue
        chk.result(len(res_lists) >= 1, "C02.operand", f"{path}:{qual.split('.')[0]}:one-result-per-operand", f"{path}:{loop.lineno}",
                   f"one result per operand is appended, in operand order, to {sorted(res_lists)}",
                   "no list receives exactly one unconditional element per operand iteration")
    # (stride, bound) pairs and the relevance filter share one dimension index
    f = repo.func(CONV, "ConvertStreamToSnaxStreamPattern.match_and_rewrite")
    gens = [n for n in ast.walk(f.node) if isinstance(n, ast.GeneratorExp) and isinstance(n.elt, ast.Tuple) and len(n.elt.elts) == 2 and len(n.generators) == 1]
    gens = [g for g in gens if norm.contains(g.elt, T("$o.bounds.data[$i]"))]
    if len(gens) != 1:
        raise AnalysisError(f"{f.where}: (stride, bound) generator not found")
    g = gens[0]
    iv = g.generators[0].target
    if not isinstance(iv, ast.Name):
        raise AnalysisError(f"{f.where}: (stride, bound) generator has no simple index variable")
    s_idx = [n for n in ast.walk(g.elt.elts[0]) if isinstance(n, ast.Subscript)]
    b_idx = [m["i"] for _, m in norm.find(T("$o.bounds.data[$i]"), g.elt.elts[1])]
    f_idx = [n for c in g.generators[0].ifs for n in ast.walk(c) if isinstance(n, ast.Subscript)]
    same = (
        bool(s_idx) and all(iv.id in norm.free_names(n.slice) for n in s_idx)
        and bool(b_idx) and all(isinstance(x, ast.Name) and x.id == iv.id for x in b_idx)
        and bool(f_idx) and all(isinstance(n.slice, ast.Name) and n.slice.id == iv.id for n in f_idx)
    )
    chk.result(same, "C02.operand", f"{CONV}:stride-bound-relevance", f"{CONV}:{g.lineno}",
               f"stride, bound and relevance are all read at dimension `{iv.id}`",
               f"stride, bound and relevance of the access iterator are not read at the same dimension index: {ast.unparse(g)[:200]}")


# --------------------------------------------------------------------------- relevance
def relevance(repo: Repo, chk: Check) -> None:
    chk.rule(
        "C02.relevance",
        "which spatial dimensions of an operand are relevant is decided from the accelerator's template pattern of that very operand, "
        "and all temporal dimensions are relevant; a decision from resolved strides alone would drop broadcast (stride-0) dimensions",
        floor=2,
    )
    f = repo.func(CONV, "ConvertStreamToSnaxStreamPattern.match_and_rewrite")
    chk.analysed(f.key)
    fl = Flow(f, repo)
    gens = [n for n in ast.walk(f.node) if isinstance(n, ast.GeneratorExp) and len(n.generators) == 1 and n.generators[0].ifs and norm.contains(n.elt, T("$o.bounds.data[$i]"))]
    if len(gens) != 1:
        raise AnalysisError(f"{f.where}: access iterator not found")
    filt = gens[0].generators[0].ifs[0]
    subs = [n for n in ast.walk(filt) if isinstance(n, ast.Subscript) and isinstance(n.value, ast.Name)]
    if len(subs) != 1:
        raise AnalysisError(f"{f.where}: relevance filter not understood: {ast.unparse(filt)}")
    rel = subs[0].value.id  # type: ignore[union-attr]
    site = next((s for s in fl.sites if any(x is gens[0] for x in ast.walk(s.node))), None)
    if site is None:
        raise AnalysisError(f"{f.where}: access iterator not reached by the walker")
    cone = fl.cone(ast.Name(rel, ast.Load()), site, inline=0)
    oloops = _operand_loops(f.node)
    if not oloops:
        raise AnalysisError(f"{f.where}: loop over the operands not found")
    var = oloops[0][1]
    from_template = any(isinstance(m["k"], ast.Name) and m["k"].id == var for _, m in norm.find(T("$a.get_template($o)[$k]"), cone)) or any(
        isinstance(m["k"], ast.Name) and m["k"].id == var for _, m in norm.find(T("template[$k]"), cone))
    chk.result(from_template, "C02.relevance", f"{CONV}:spatial-from-template", site.where(),
               f"`{rel}` is computed from the template pattern of operand `{var}`",
               f"`{rel}` does not depend on the accelerator template of the operand: {ast.unparse(cone)[:240]}")
    temporal = norm.contains(cone, T("[True] * ($p.num_dims - $t.num_dims)")) or norm.contains(cone, T("[True] * $n"))
    chk.result(temporal, "C02.relevance", f"{CONV}:temporal-all", site.where(), "every temporal dimension is marked relevant", "temporal dimensions are not unconditionally relevant")


# --------------------------------------------------------------------------- routing (bounded abstract evaluation)
def _pattern(k: int, dims: int = 3) -> Obj:
    def attrs(tag: str, n: int):
        return [Obj("IntAttr", {"data": Tok(f"P{k}.{tag}{i}"), "__name__": f"P{k}.{tag}{i}"}) for i in range(n)]

    return Obj("StridePattern", {"upper_bounds": attrs("ub", dims), "temporal_strides": attrs("ts", dims), "spatial_strides": attrs("ss", 2), "__name__": f"P{k}"})


def _origins(q, pats: list[Obj]) -> set[int]:
    out: set[int] = set()
    if not isinstance(q, Obj) or q.cls != "StridePattern":
        return out
    for k, p in enumerate(pats):
        if q is p:
            out.add(k)
            continue
        for fld in ("upper_bounds", "temporal_strides"):
            v = q.f.get(fld)
            if v is p.f[fld]:
                out.add(k)
            elif isinstance(v, (list, tuple)):
                for x in v:
                    if any(x is y for y in p.f[fld]) or (isinstance(x, Tok) and x.text.startswith(f"P{k}.")):
                        out.add(k)
    return out


def _routing_models():
    def stride_pattern(*a, **kw):
        names = ["upper_bounds", "temporal_strides", "spatial_strides"]
        f = dict(zip(names, a))
        f.update(kw)
        return Obj("StridePattern", f)

    models = {
        "StridePattern": stride_pattern,
        "StreamType": lambda t: ("StreamType", t),
        "IntegerType": lambda w, *a: ("IntegerType", w),
        "from_int_and_width": lambda v, t=None: Obj("ConstantOp", {"value": v, "__name__": f"const{v}"}),
    }
    attrs = {("ConstantOp", "result"): lambda o: o, ("ConstantOp", "results"): lambda o: [o]}
    return models, attrs


def _check_route(chk: Check, key: str, where: str, case: str, sched: list[int], n_hw: int, res, pats: list[Obj], operands: list[Obj]) -> None:
    if not (isinstance(res, tuple) and len(res) == 4):
        chk.bad("C02.routing", key, where, f"{case}: set_stride_patterns does not return (inputs, outputs, patterns, ops)")
        return
    new_in, new_out, q, _ = res
    r = list(new_in) + list(new_out)
    q = list(q)
    probs = []
    if len(q) != n_hw or len(r) != n_hw:
        probs.append(f"{len(q)} pattern(s) and {len(r)} pointer(s) for {n_hw} hardware streamers")
    owner: dict[int, int] = {}
    for k, h in enumerate(sched):
        owner.setdefault(h, k)  # the first operand scheduled on a streamer owns it
    for h, k in sorted(owner.items()):
        if h >= len(q) or h >= len(r):
            continue
        if k not in _origins(q[h], pats):
            got = sorted(_origins(q[h], pats))
            probs.append(f"operand {k} is scheduled for streamer {h} but streamer {h} receives " + (f"the pattern of operand(s) {got}" if got else "a filler pattern"))
        if r[h] is not operands[k]:
            nm = r[h].f.get("__name__", r[h].cls) if isinstance(r[h], Obj) else repr(r[h])
            probs.append(f"operand {k} is scheduled for streamer {h} but streamer {h} receives the pointer {nm}")
    chk.result(not probs, "C02.routing", key, where, f"{case}: every operand's pattern and pointer sit at its scheduled streamer {dict(sorted(owner.items()))}",
               f"{case}: " + "; ".join(probs[:3]))


def routing(repo: Repo, chk: Check) -> None:
    chk.rule(
        "C02.routing",
        "after set_stride_patterns, position h of the pattern list and of inputs+outputs holds the pattern (or one derived from it) and the "
        "base pointer of the operand that get_streamers scheduled for hardware streamer h; evaluated abstractly for every case the hooks distinguish",
        floor=8,
    )
    # ---- gemmx
    c = repo.cls(GEMMX, "SNAXGEMMXAccelerator")
    gs = repo.find_method(c, "get_streamers")
    sp = repo.find_method(c, "set_stride_patterns")
    if gs is None or sp is None:
        raise AnalysisError(f"{c.where}: get_streamers / set_stride_patterns not found")
    chk.analysed(gs.key, sp.key)
    ds = c.module.consts.get("default_streamer")
    n_hw = len(ds.args[0].elts) if isinstance(ds, ast.Call) and ds.args and isinstance(ds.args[0], (ast.List, ast.Tuple)) else None
    if n_hw is None:
        raise AnalysisError(f"{c.where}: default streamer configuration literal not found")
    n_cases = 0
    for npat, width in itertools.product((2, 3, 4, 5), (8, 32, 16)):
        hw = [Obj("Streamer", {"spatial_dims": [Tok(f"S{i}.sd0"), Tok(f"S{i}.sd1")], "__name__": f"S{i}"}) for i in range(n_hw)]
        self_o = Obj("Self", {"streamer_config": Obj("Cfg", {"data": Obj("CfgData", {"streamers": hw})}), "serializer_ratio": Tok("ratio"), "n": Tok("n"), "m": Tok("m"), "k": Tok("k")})
        operands = [Obj("Val", {"__name__": f"operand{i}"}) for i in range(npat)]
        pats = [_pattern(k) for k in range(npat)]

        def mkop():
            return Obj("Op", {
                "patterns": [Tok(f"pat{i}") for i in range(npat)],
                "inputs": operands[:-1], "outputs": operands[-1:],
                "body": Obj("Region", {"block": Obj("Block", {"arg_types": [("StreamType", ("IntegerType", width))] * npat})}),
            })

        models, attrs = _routing_models()
        case = f"gemmx, {npat} operands, i{width} result"
        key = f"{GEMMX}:SNAXGEMMXAccelerator:route:{npat}:i{width}"
        try:
            ex = AbsExec(models, attrs=attrs, where=GEMMX)
            # the module-level default configuration is a DIFFERENT set of streamers than this instance's (from_config builds others)
            default_o = Obj("Cfg", {"streamers": [Obj("Streamer", {"spatial_dims": [Tok(f"D{i}.sd0"), Tok(f"D{i}.sd1")], "__name__": f"DEFAULT{i}"}) for i in range(n_hw)]})
            default_o.f["data"] = Obj("CfgData", {"streamers": default_o.f["streamers"]})
            sched_objs = ex.run(gs.node.body, {"self": self_o, gs.params[1]: mkop(), "default_streamer": default_o})
        except AbsRaise:
            continue  # the accelerator rejects this operation
        except Undecided as e:
            raise AnalysisError(f"get_streamers not analysable for {case}: {e}") from None
        if not isinstance(sched_objs, list) or len(sched_objs) != npat:
            if npat == 5:
                continue
            chk.bad("C02.routing", key, gs.where, f"{case}: get_streamers returns {len(sched_objs) if isinstance(sched_objs, list) else '?'} streamers for {npat} operands")
            continue
        foreign = [str(s_.f.get("__name__", "?")) if isinstance(s_, Obj) else repr(s_) for s_ in sched_objs if not any(h is s_ for h in hw)]
        if foreign:
            chk.bad("C02.routing", key, gs.where,
                    f"{case}: get_streamers returns streamers {foreign} that are not this accelerator's own (self.streamer_config): a configured gemmx is converted "
                    "with the port geometry of another configuration (the module default)")
            continue
        sched = [next(i for i, h in enumerate(hw) if h is s) for s in sched_objs]
        try:
            ex = AbsExec(models, attrs=attrs, where=GEMMX)
            res = ex.run(sp.node.body, {"self": self_o, sp.params[1]: mkop(), sp.params[2]: list(pats), "default_streamer": default_o})
        except AbsRaise as e:
            chk.bad("C02.routing", key, sp.where, f"{case}: get_streamers accepts the operation but set_stride_patterns raises ({e})")
            continue
        except Undecided as e:
            raise AnalysisError(f"set_stride_patterns not analysable for {case}: {e}") from None
        n_cases += 1
        _check_route(chk, key, sp.where, case, sched, n_hw, res, pats, operands)
    n_bad = sum(1 for i_ in chk.instances if i_.rule == "C02.routing" and not i_.ok)
    if n_cases + n_bad < 5:
        raise AnalysisError(f"only {n_cases} gemmx routing cases evaluated (5 confirmed by reading)")
    # ---- xDMA extensions
    base = repo.cls(EXT, "StreamerExtension")
    for ext in [base, *repo.subclasses(base)]:
        gs = ext.methods.get("get_streamers")
        sp = ext.methods.get("set_stride_patterns")
        if gs is None and sp is None:
            continue
        gs = gs or repo.find_method(ext, "get_streamers")
        sp = sp or repo.find_method(ext, "set_stride_patterns")
        assert gs is not None and sp is not None
        chk.analysed(gs.key, sp.key)
        hw = [Obj("Streamer", {"__name__": f"S{i}"}) for i in range(2)]
        cfg = Obj("CfgData", {"streamers": hw})
        models, attrs = _routing_models()
        key = f"{ext.module.relpath}:{ext.name}:route"
        try:
            ex = AbsExec(models, attrs=attrs, where=ext.module.relpath)
            sched_objs = ex.run(gs.node.body, {"self": Obj("Self", {}), gs.params[1]: cfg})
        except (Undecided, AbsRaise) as e:
            raise AnalysisError(f"{gs.where}: get_streamers not analysable: {e}") from None
        sched = [next(i for i, h in enumerate(hw) if h is s) for s in sched_objs]
        npat = len(sched)
        operands = [Obj("Val", {"__name__": f"operand{i}"}) for i in range(npat)]
        pats = [_pattern(k) for k in range(npat)]
        op = Obj("Op", {"inputs": operands[:-1], "outputs": operands[-1:]})
        try:
            ex = AbsExec(models, attrs=attrs, where=ext.module.relpath)
            res = ex.run(sp.node.body, {"self": Obj("Self", {}), sp.params[1]: op, sp.params[2]: Tok("kernel_op"), sp.params[3]: list(pats)})
        except (Undecided, AbsRaise) as e:
            raise AnalysisError(f"{sp.where}: set_stride_patterns not analysable: {e}") from None
        if isinstance(res, tuple) and len(res) == 4:
            res = (res[0], res[1], [x for x in res[2] if isinstance(x, Obj)], res[3])
        _check_route(chk, key, sp.where, f"{ext.name} ({npat} operands on 2 streamers)", sched, 2, res, pats, operands)
    # ---- defaults of SNAXStreamer
    sc = repo.cls(SNAX, "SNAXStreamer")
    gs, sp = sc.methods.get("get_streamers"), sc.methods.get("set_stride_patterns")
    if gs is None or sp is None:
        raise AnalysisError(f"{sc.where}: default routing hooks not found")
    chk.analysed(gs.key, sp.key)
    ident = any(isinstance(n, ast.Return) and n.value is not None and norm.match(T(f"({sp.params[1]}.inputs, {sp.params[1]}.outputs, {sp.params[2]}, [])"), n.value) is not None for n in ast.walk(sp.node))
    allst = any(isinstance(n, ast.Return) and n.value is not None and norm.match(T("self.streamer_config.data.streamers"), n.value) is not None for n in ast.walk(gs.node))
    chk.result(ident and allst, "C02.routing", f"{SNAX}:SNAXStreamer:default", sp.where, "default hooks: operand i keeps pattern i, pointer i and streamer i",
               f"default routing hooks are no longer the identity (patterns/pointers: {ident}, streamers: {allst})")
    # the pattern hands the hooks the per-operand list and uses what they return, in order
    f = repo.func(CONV, "ConvertStreamToSnaxStreamPattern.match_and_rewrite")
    fl = Flow(f, repo)
    sr = fl.calls("StreamingRegionOp")
    if len(sr) != 1:
        raise AnalysisError(f"{f.where}: StreamingRegionOp construction not found")
    call = sr[0].node
    assert isinstance(call, ast.Call)
    ok = True
    for nm, idx in (("inputs", 0), ("outputs", 1), ("stride_patterns", 2)):
        a = kwarg(call, nm)
        if a is None:
            ok = False
            continue
        cone = fl.cone(a, sr[0], inline=0)
        if not norm.contains(cone, T("$acc.set_stride_patterns($o, $p)")):
            ok = False
    chk.result(ok, "C02.routing", f"{CONV}:uses-hook-results", sr[0].where(), "inputs, outputs and stride patterns of the new op all come from one set_stride_patterns call",
               "the new streaming region does not take inputs, outputs and patterns from the accelerator's set_stride_patterns")


# --------------------------------------------------------------------------- TSL layout map
class _P:
    """monomial: integer coefficient times a multiset of symbols"""

    def __init__(self, coef: int = 1, syms: tuple = ()):
        self.coef, self.syms = coef, tuple(sorted(syms))

    def __mul__(self, o):
        if isinstance(o, int):
            return _P(self.coef * o, self.syms)
        return _P(self.coef * o.coef, self.syms + o.syms)

    def key(self):
        return (self.coef, self.syms)

    def __repr__(self) -> str:
        return "*".join([*([str(self.coef)] if self.coef != 1 or not self.syms else []), *self.syms])

    def __bool__(self) -> bool:
        return True


def _as_p(v):
    if isinstance(v, _P):
        return v
    if isinstance(v, int) and not isinstance(v, bool):
        return _P(v)
    return None


def _num_hook(op, a, b):
    aff = lambda x: isinstance(x, Obj) and x.cls in ("AffDim", "AffConst", "AffBin")  # noqa: E731
    if aff(a) or aff(b):
        sym = {ast.Add: "+", ast.Mult: "*", ast.Mod: "%", ast.FloorDiv: "//", ast.Sub: "-"}.get(type(op))
        if sym is None:
            return NotImplemented
        return Obj("AffBin", {"op": sym, "l": a, "r": b})
    pa, pb = _as_p(a), _as_p(b)
    if isinstance(a, _P) or isinstance(b, _P):
        if isinstance(op, ast.Mult) and pa is not None and pb is not None:
            return pa * pb
        return NotImplemented
    return NotImplemented


def _norm_aff(e) -> Counter:
    """sum of terms; a term is (coefficient monomial key, core) with core = ('d', dim, mod key | None, div key | None)"""
    out: Counter = Counter()

    def core(x):
        # returns (dim, mod, div) or None
        if isinstance(x, Obj) and x.cls == "AffDim":
            return (x.f["dim"], None, None)
        if isinstance(x, Obj) and x.cls == "AffBin" and x.f["op"] in ("%", "//"):
            inner = core(x.f["l"])
            p = _as_p(x.f["r"])
            if inner is None or p is None:
                return None
            dim, mod, div = inner
            if x.f["op"] == "%":
                if mod is None and div is not None:
                    # (d // F) % X is (d % (F * X)) // F for the non-negative indices of a layout
                    return (dim, (_P(div[0], tuple(div[1])) * p).key(), div)
                if mod is not None or div is not None:
                    return None
                return (dim, p.key(), None)
            if div is not None:
                return None
            return (dim, mod, None if p.key() == (1, ()) else p.key())
        return None

    def term(x, coef: _P):
        if isinstance(x, Obj) and x.cls == "AffBin" and x.f["op"] == "+":
            term(x.f["l"], coef)
            term(x.f["r"], coef)
            return
        if isinstance(x, Obj) and x.cls == "AffBin" and x.f["op"] == "*":
            l, r = x.f["l"], x.f["r"]
            pl, pr = _as_p(l), _as_p(r)
            if pl is not None:
                term(r, coef * pl)
                return
            if pr is not None:
                term(l, coef * pr)
                return
            out[("?", ast.dump(ast.Constant(repr(x))))] += 1
            return
        if isinstance(x, Obj) and x.cls == "AffConst":
            v = x.f["value"]
            p = _as_p(v)
            if p is not None and p.coef == 0:
                return
            out[("const", (coef * p).key() if p is not None else repr(v))] += 1
            return
        c = core(x)
        if c is None:
            out[("?", repr(x))] += 1
            return
        out[(coef.key(), c)] += 1

    term(e, _P())
    return out


def tsl_affine(repo: Repo, chk: Check, rule: str = "C02.tsl-affine") -> None:
    chk.rule(
        rule,
        "TiledStridedLayoutAttr.get_affine_map, evaluated with symbolic bounds and steps over the repo's own TSL classes for every tiling "
        "profile of 1-2 dimensions with 1-4 tile levels each, equals offset + sum over (dim, depth) of "
        "step * ((d_dim mod prod(bounds[depth:])) div prod(bounds[depth+1:]))",
        floor=20,
    )
    g = repo.func(TSLD, "TiledStridedLayoutAttr.get_affine_map")
    chk.analysed(g.key)
    classes: dict[str, Cls] = {
        "Stride": repo.cls("snaxc/ir/tsl/stride.py", "Stride"),
        "TiledStride": repo.cls("snaxc/ir/tsl/tiled_stride.py", "TiledStride"),
        "TiledStridedLayout": repo.cls("snaxc/ir/tsl/tiled_strided_layout.py", "TiledStridedLayout"),
    }
    for c in classes.values():
        chk.analysed(*[m.key for m in c.methods.values() if m.name in ("__iter__", "depth", "dimension", "get_stride", "is_dynamic", "__init__")])
    models = {
        "AffineDimExpr": lambda d: Obj("AffDim", {"dim": d}),
        "AffineConstantExpr": lambda v: Obj("AffConst", {"value": v}),
        "AffineMap": lambda n, s, results: Obj("AffineMap", {"num_dims": n, "num_symbols": s, "results": results}),
        "prod": lambda xs: _prod(xs),
    }
    profiles = [(d,) for d in range(1, 5)] + [(a, b) for a in range(1, 5) for b in range(1, 5)]
    for prof in profiles:
        ex = AbsExec(models, where=TSLD, repo=repo, classes=classes, num_hook=_num_hook)
        tstrides = []
        for dim, depth in enumerate(prof):
            strides = [Obj("Stride", {"step": _P(1, (f"s{dim}{e}",)), "bound": _P(1, (f"b{dim}{e}",))}) for e in range(depth)]
            tstrides.append(Obj("TiledStride", {"strides": strides}))
        layout = Obj("TiledStridedLayout", {"tstrides": tstrides, "offset": _P(1, ("off",))})
        self_o = Obj("Self", {"data": layout})
        key = f"{TSLD}:get_affine_map:profile={'x'.join(map(str, prof))}"
        try:
            res = ex.run(g.node.body, {"self": self_o})
        except AbsRaise as e:
            chk.bad(rule, key, g.where, f"tiling profile {prof}: the static layout is rejected ({e})")
            continue
        except Undecided as e:
            raise AnalysisError(f"get_affine_map not analysable for tiling profile {prof}: {e}") from None
        if not (isinstance(res, Obj) and res.cls == "AffineMap" and isinstance(res.f["results"], (tuple, list)) and len(res.f["results"]) == 1):
            chk.bad(rule, key, g.where, f"tiling profile {prof}: result is not a single-result affine map")
            continue
        got = _norm_aff(res.f["results"][0])
        want: Counter = Counter()
        want[("const", (1, ("off",)))] += 1
        alt_full: list[tuple] = []
        for dim, depth in enumerate(prof):
            for e in range(depth):
                mod = tuple(sorted(f"b{dim}{x}" for x in range(e, depth)))
                div = tuple(sorted(f"b{dim}{x}" for x in range(e + 1, depth)))
                c = (dim, None if e == 0 else (1, mod), None if not div else (1, div))
                want[((1, (f"s{dim}{e}",)), c)] += 1
                if e == 0:
                    alt_full.append((((1, (f"s{dim}{e}",)), c), ((1, (f"s{dim}{e}",)), (dim, (1, mod), None if not div else (1, div)))))
        # at depth 0 `d mod (product of all bounds)` is d itself for in-range indices: accept either spelling
        for plain, modded in alt_full:
            if got.get(modded) and not got.get(plain):
                got[plain] += got.pop(modded)
        ok = got == want
        ndim = res.f["num_dims"]
        if not ok and any(k[0] == "?" for k in got):
            # a term the normal form does not read is not evidence of a wrong map
            raise AnalysisError(f"{g.where}: tiling profile {prof}: the layout map contains a term the closed-form comparison does not interpret: {_show_terms(got - want)}")
        chk.result(ok and ndim == len(prof), rule, key, g.where,
                   f"tiling profile {prof}: {sum(prof)} terms with the expected modulus and divisor products",
                   f"tiling profile {prof}: layout map differs from the closed form; unexpected terms {_show_terms(got - want)}; missing terms {_show_terms(want - got)}")


def _prod(xs):
    r = _P()
    for x in xs:
        p = _as_p(x)
        if p is None:
            raise Undecided(f"prod over a non-numeric value {x!r}")
        r = r * p
    return r


def _show_terms(c: Counter) -> str:
    out = []
    for (coef, core), n in list(c.items())[:3]:
        if coef == "const":
            out.append(f"constant {core}")
        elif coef == "?":
            out.append(f"unrecognised {core[:60]}")
        else:
            dim, mod, div = core
            s = f"d{dim}"
            if mod is not None:
                s = f"({s} mod {'*'.join(mod[1])})"
            if div is not None:
                s = f"({s} div {'*'.join(div[1])})"
            out.append(f"{'*'.join(coef[1])} * {s}")
    return "[" + "; ".join(out) + "]"

"""C19 — canonical forms and alternative representations denote the same object (DESIGN.md section 5, C19).

Claimed for the attribute print/parse clauses, the registry of streamer options, the merge/drop conditions
of StridePattern.canonicalize, the fixpoint shape of canonicalize_expr and the pairing/or-reduction shape of
pack_bitlist.  Semantic equivalence of the affine rewrites on all inputs is algebra and not decided.
"""

from __future__ import annotations

import ast
import re

from sa import norm
from sa.errors import AnalysisError
from sa.flow import Flow, Site
from sa.model import Cls, Repo
from sa.norm import T
from sa.report import Check

from .common import callee_name, depends_on, every_alt_has, flow_of, has_fact, subexprs

STREAM = "snaxc/dialects/snax_stream.py"
SNAXD = "snaxc/dialects/snax.py"
STREAMERS = "snaxc/accelerators/streamers/streamers.py"
EXT_INIT = "snaxc/accelerators/streamers/extensions/__init__.py"
CANON = "snaxc/util/canonicalize_affine.py"
PACK = "snaxc/util/pack_bitlist.py"


def run(repo: Repo, chk: Check) -> None:
    chk.explanation = (
        "Sibling agreement (F5) between printers and parsers of the custom attributes (keywords, order, field "
        "positions, coverage of every constructor field), registry exhaustiveness and name uniqueness of streamer "
        "options, guard dominance (F2) on the merge/drop steps of StridePattern.canonicalize, the fixpoint test of "
        "canonicalize_expr, and the pairing / or-reduction shape of pack_bitlist. Decides these structural clauses, not "
        "the algebraic identities behind the affine rewrites."
    )
    stride_pattern_io(repo, chk)
    stride_canon(repo, chk)
    streamer_config_io(repo, chk)
    opt_registry(repo, chk)
    fixpoint(repo, chk)
    rewrite_identities(repo, chk)
    pack(repo, chk)
    transform_linear(repo, chk)
    compose(repo, chk)
    pattern_canon(repo, chk)


# --------------------------------------------------------------------------- AccessPattern.canonicalize / inner_dims
def pattern_canon(repo: Repo, chk: Check) -> None:
    from . import c03

    # the rule of C03 on the same function: bounds and columns selected by one predicate that rejects exactly bound == 1 (a dynamic bound
    # None is kept), nothing else about the map changes
    c03.drop_unit(repo, chk, rule="C19.pattern-canon", quals=("AccessPattern.canonicalize",), floor=3)
    chk.rule("C19.collection-canon", "PatternCollection.canonicalize canonicalises every pattern by its OWN bounds (pattern.canonicalize() per element), it does not apply one "
             "pattern's bounds to all of them", floor=1)
    fc, flc = flow_of(repo, chk, c03.AP, "PatternCollection.canonicalize")
    rets_c = [x for x in flc.stmts(ast.Return) if x.reachable and x.node.value is not None]
    if not rets_c:
        raise AnalysisError(f"{fc.where}: no return")
    for n_, s_ in enumerate(rets_c, 1):
        v = norm.primary(s_.expand(s_.node.value))
        per = [g_ for g_ in ast.walk(v) if isinstance(g_, (ast.GeneratorExp, ast.ListComp)) and len(g_.generators) == 1 and isinstance(g_.generators[0].target, ast.Name)
               and norm.match(T(f"{g_.generators[0].target.id}.canonicalize()"), g_.elt) is not None
               and norm.any_match(["self", "self._patterns", "iter(self)", "self.patterns"], g_.generators[0].iter) is not None and not g_.generators[0].ifs]
        shared = norm.contains(v, T("self.clear_unused_dims()")) or norm.contains(v, T("self.clear_unused_dims($b)"))
        if not per and not shared:
            raise AnalysisError(f"{s_.where()}: how the collection is canonicalised is not recognised: `{ast.unparse(v)[:100]}`")
        chk.result(bool(per) and not shared, "C19.collection-canon", f"{fc.key}:return#{n_}", s_.where(), "each pattern is canonicalised on its own",
                   "the collection is canonicalised with clear_unused_dims(), which drops the unit dimensions of ONE pattern's bounds from all patterns: patterns with their own bounds "
                   "(templates, per-operand schedules) lose non-unit dimensions or keep unit ones")
    chk.rule("C19.inner-dims", "AccessPattern.inner_dims keeps the same trailing slice of the bounds and of the matrix columns and the original bias", floor=1)
    f, fl = flow_of(repo, chk, c03.AP, "AccessPattern.inner_dims")
    rets = [x for x in fl.stmts(ast.Return) if x.reachable and x.node.value is not None]
    if not rets:
        raise AnalysisError(f"{f.where}: no return")
    for n_, s_ in enumerate(rets, 1):
        v = norm.primary(s_.expand(s_.node.value))
        mb = norm.find(T("self.bounds[$s]"), v)
        mc = norm.find(T("self.pattern.A[:, $s]"), v)
        if not mb or not mc:
            raise AnalysisError(f"{s_.where()}: the selection of bounds / columns is not recognised in `{ast.unparse(v)[:120]}`")
        sb, sc = ast.unparse(norm.canon(mb[0][1]["s"])), ast.unparse(norm.canon(mc[0][1]["s"]))
        bias = norm.contains(v, T("AffineTransform($_, self.pattern.b)"))
        chk.result(sb == sc and bias, "C19.inner-dims", f"{f.key}:return#{n_}", s_.where(), f"bounds and columns are both sliced by [{sb}], the bias is the original one",
                   f"bounds are sliced by [{sb}] but columns by [{sc}] (bias kept: {bias}): the remaining dimensions no longer pair with their columns")


# --------------------------------------------------------------------------- StridePattern print / parse
def stride_pattern_io(repo: Repo, chk: Check) -> None:
    c = repo.cls(STREAM, "StridePattern")
    chk.rule("C19.stride-pattern-io", "StridePattern prints `ub = [..], ts = [..], ss = [..]` from upper_bounds / temporal_strides / spatial_strides and parses the same keywords in the same order into the same parameter positions", floor=3)
    fields = list(c.annotations)
    pr = c.methods.get("print_parameters")
    pa = c.methods.get("parse_parameters")
    if pr is None or pa is None:
        raise AnalysisError(f"{c.where}: print_parameters / parse_parameters missing")
    chk.analysed(pr.key, pa.key)
    printed: list[tuple[str, str]] = []
    kw = None
    for n in ast.walk(pr.node):
        pass
    for st in ast.walk(pr.node):
        if isinstance(st, ast.Expr) and isinstance(st.value, ast.Call):
            cn = callee_name(st.value)
            if cn == "print_string" and st.value.args and isinstance(st.value.args[0], ast.Constant):
                m = re.search(r"(\w+)\s*=\s*\[$", st.value.args[0].value)
                kw = m.group(1) if m else None
            elif cn == "print_list" and st.value.args:
                a = st.value.args[0]
                if isinstance(a, ast.Attribute) and kw:
                    printed.append((kw, a.attr))
                    kw = None
    if not printed:
        # the same printed from a table: for [i,] (keyword, array) in [enumerate]((("ub", self.upper_bounds), ...)): print_string(f"..{keyword} = ["); print_list(array, ..)
        tables = {}
        for st in ast.walk(pr.node):
            if isinstance(st, ast.Assign) and len(st.targets) == 1 and isinstance(st.targets[0], ast.Name) and isinstance(st.value, (ast.Tuple, ast.List)):
                tables[st.targets[0].id] = st.value
        for lp in [x for x in ast.walk(pr.node) if isinstance(x, ast.For)]:
            it, tg = lp.iter, lp.target
            if isinstance(it, ast.Call) and callee_name(it) == "enumerate" and it.args and isinstance(tg, ast.Tuple) and len(tg.elts) == 2:
                it, tg = it.args[0], tg.elts[1]
            if isinstance(it, ast.Name) and it.id in tables:
                it = tables[it.id]
            if not (isinstance(it, (ast.Tuple, ast.List)) and isinstance(tg, ast.Tuple) and len(tg.elts) == 2 and all(isinstance(e, ast.Name) for e in tg.elts)):
                continue
            kv, av = tg.elts[0].id, tg.elts[1].id  # type: ignore[attr-defined]
            rows = [(e.elts[0].value, e.elts[1].attr) for e in it.elts if isinstance(e, (ast.Tuple, ast.List)) and len(e.elts) == 2 and isinstance(e.elts[0], ast.Constant)
                    and isinstance(e.elts[0].value, str) and isinstance(e.elts[1], ast.Attribute) and isinstance(e.elts[1].value, ast.Name) and e.elts[1].value.id == "self"]
            if len(rows) != len(it.elts):
                continue
            prints_kw = any(isinstance(c_, ast.Call) and callee_name(c_) == "print_string" and any(isinstance(j, ast.JoinedStr) and any(
                isinstance(v, ast.FormattedValue) and isinstance(v.value, ast.Name) and v.value.id == kv for v in j.values) and any(
                isinstance(v, ast.Constant) and re.search(r"=\s*\[$", str(v.value)) for v in j.values) for j in ast.walk(c_)) for x in lp.body for c_ in ast.walk(x))
            prints_list = any(isinstance(c_, ast.Call) and callee_name(c_) == "print_list" and c_.args and isinstance(c_.args[0], ast.Name) and c_.args[0].id == av
                              for x in lp.body for c_ in ast.walk(x))
            if prints_kw and prints_list:
                printed = rows
        if not printed:
            raise AnalysisError(f"{pr.where}: how the printer pairs keywords with fields is not recognised")
    want = list(zip(("ub", "ts", "ss"), fields))
    chk.result(printed == want and fields == ["upper_bounds", "temporal_strides", "spatial_strides"], "C19.stride-pattern-io", f"{pr.key}:keywords", pr.where,
               f"printer emits {printed}", f"printer emits {printed}; expected {want} (keyword order / field pairing)")
    parsed_kw = [n.args[0].value for n in ast.walk(pa.node) if isinstance(n, ast.Call) and callee_name(n) == "parse_identifier" and n.args and isinstance(n.args[0], ast.Constant)]
    # order in source
    idents = sorted(((n.lineno, n.col_offset, n.args[0].value) for n in ast.walk(pa.node) if isinstance(n, ast.Call) and callee_name(n) == "parse_identifier" and n.args and isinstance(n.args[0], ast.Constant)))
    parsed_kw = [x[2] for x in idents]
    assigns = {}
    last_kw = None
    for st in sorted((x for x in ast.walk(pa.node) if isinstance(x, (ast.Expr, ast.Assign, ast.Return))), key=lambda x: (x.lineno, x.col_offset)):
        if isinstance(st, ast.Expr) and isinstance(st.value, ast.Call) and callee_name(st.value) == "parse_identifier" and st.value.args:
            last_kw = st.value.args[0].value
        elif isinstance(st, ast.Assign) and isinstance(st.targets[0], ast.Name) and last_kw and "parse_comma_separated_list" in ast.unparse(st.value):
            assigns[st.targets[0].id] = last_kw
            last_kw = None
    ret = next((x for x in ast.walk(pa.node) if isinstance(x, ast.Return) and isinstance(x.value, ast.Tuple)), None)
    order = [assigns.get(ast.unparse(e)) for e in ret.value.elts] if ret is not None else []
    chk.result(parsed_kw == ["ub", "ts", "ss"] and order == ["ub", "ts", "ss"], "C19.stride-pattern-io", f"{pa.key}:keywords", pa.where,
               "parser reads ub, ts, ss in that order and returns them in parameter order",
               f"parser reads keywords {parsed_kw} and returns the lists parsed after {order}: a list ends up in another parameter than it was printed from")
    ints = [n for n in ast.walk(pa.node) if isinstance(n, ast.Attribute) and n.attr == "parse_integer"]
    chk.result(len(ints) == 3, "C19.stride-pattern-io", f"{pa.key}:elements", pa.where, "all three lists are parsed as (possibly negative) integers like they are printed")


def stride_canon(repo: Repo, chk: Check, rule: str = "C19.stride-canon") -> None:
    f, fl = flow_of(repo, chk, STREAM, "StridePattern.canonicalize")
    chk.rule(
        rule,
        "StridePattern.canonicalize folds a dimension into the last KEPT one only if last kept bound * last kept stride == this "
        "stride, drops a dimension only for bound 1, passes zero bounds through, keeps everything else, and leaves patterns with a zero "
        "spatial stride alone",
        floor=4,
    )
    loops = [s for s in fl.stmts(ast.For) if s.reachable]
    if not loops:
        raise AnalysisError(f"{f.where}: loop not found")
    lp = loops[0].node
    if not (isinstance(lp.target, ast.Tuple) and len(lp.target.elts) == 2 and all(isinstance(x, ast.Name) for x in lp.target.elts)):
        raise AnalysisError(f"{f.where}: loop target is not (ub, ts)")
    # which loop variable is the bound, which the stride: by the provenance of the zipped sequences, not by position or name
    it = loops[0].expand(lp.iter)
    if not (isinstance(it, ast.Call) and callee_name(it) == "zip" and len(it.args) == 2):
        raise AnalysisError(f"{f.where}: loop does not zip bounds and strides")
    kinds = ["ub" if "upper_bounds" in ast.unparse(fl.cone(a, loops[0], inline=0)) else "ts" if "temporal_strides" in ast.unparse(fl.cone(a, loops[0], inline=0)) else "?"
             for a in it.args]
    if sorted(kinds) != ["ts", "ub"]:
        raise AnalysisError(f"{f.where}: zipped sequences are not recognised as upper bounds and temporal strides")
    ub_t, ts_t = (lp.target.elts[kinds.index(k)].id for k in ("ub", "ts"))  # type: ignore[attr-defined]

    def is_var(e_: ast.expr, site: Site, var: str, other: str) -> bool:
        """e denotes this iteration's bound (resp. stride): the loop variable itself or its `.data`, through locals"""
        x = norm.primary(site.expand(e_))
        if isinstance(x, ast.Attribute) and x.attr == "data":
            x = x.value
        if isinstance(x, ast.Name) and x.id == var:
            return True
        if isinstance(x, ast.Name):
            # a local that is re-bound on some path (`ts = 0` for a disabled dimension): look at all its definitions
            class _Data(ast.NodeTransformer):
                def visit_Call(self, n_: ast.Call) -> ast.AST:
                    self.generic_visit(n_)
                    if isinstance(n_.func, ast.Name) and n_.func.id == "__ctl__" and n_.args:
                        return n_.args[0]  # the value, without the conditions it is control-dependent on
                    return n_

            import copy as _copy
            names = norm.free_names(_Data().visit(_copy.deepcopy(fl.cone(x, site, inline=0))))
            return var in names and other not in names
        return False

    def fact_is(site: Site, var: str, other: str, const: int) -> bool:
        for fact in site.facts:
            if fact.kind == "atom":
                m_ = norm.any_match([f"$e == {const}"], fact.expr)
                if m_ is not None and is_var(m_["e"], site, var, other):
                    return True
        return False

    merges = [s for s in fl.stmts(ast.AugAssign) if s.reachable and isinstance(s.node.op, ast.Mult) and isinstance(s.node.target, ast.Subscript)]
    if not merges:
        raise AnalysisError(f"{f.where}: fold `bounds[-1] *= ub` not found")
    for s in merges:
        tgt = s.node.target  # type: ignore[attr-defined]
        lst = ast.unparse(tgt.value)
        pair_form = isinstance(tgt.value, ast.Subscript) and ast.unparse(tgt.value.slice) == "-1" and isinstance(tgt.slice, ast.Constant)
        if pair_form:
            # the kept loops are one list of [bound, stride] pairs: `pairs[-1][i] *= ub` under `pairs[-1][i] * pairs[-1][j] == ts`
            pl = ast.unparse(tgt.value.value)  # type: ignore[union-attr]
            i_ = tgt.slice.value  # type: ignore[union-attr]
            okv = is_var(s.node.value, s, ub_t, ts_t)
            cond = None
            for fact in s.facts:
                if fact.kind == "atom":
                    m = norm.any_match([f"{pl}[-1][{i_}] * {pl}[-1][$j] == $t", f"{pl}[-1][$j] * {pl}[-1][{i_}] == $t", f"$t == {pl}[-1][{i_}] * {pl}[-1][$j]"], fact.expr)
                    if m is not None and is_var(m["t"], s, ts_t, ub_t) and isinstance(m["j"], ast.Constant) and m["j"].value != i_:
                        cond = (fact, pl, m["j"].value)
            chk.result(okv and cond is not None, rule, f"{f.key}:fold-condition", s.where(),
                       "a dimension is folded into the last kept one only if it continues it exactly (kept bound * kept stride == stride)",
                       "a dimension is folded into the previous one on a path where `last kept bound * last kept stride == stride` is not established "
                       "(e.g. the extent of a dropped unit dimension is compared instead): the folded pattern addresses other elements", s.fact_texts)
            if cond is not None:
                j_ = cond[2]
                apps = []
                for x in fl.calls("append"):
                    if x.reachable and ast.unparse(x.node.func.value) == pl and x.node.args:  # type: ignore[attr-defined]
                        el = norm.primary(x.node.args[0])
                        if isinstance(el, (ast.List, ast.Tuple)) and len(el.elts) > max(i_, j_) and is_var(el.elts[j_], x, ts_t, ub_t) and is_var(el.elts[i_], x, ub_t, ts_t):
                            apps.append(x)
                chk.result(bool(apps), rule, f"{f.key}:kept-lists", s.where(), "the comparison uses the kept [bound, stride] pairs")
            continue
        okv = ast.unparse(s.node.target.slice) == "-1" and is_var(s.node.value, s, ub_t, ts_t)  # type: ignore[attr-defined]
        cond = None
        for fact in s.facts:
            if fact.kind == "atom":
                m = norm.any_match([f"{lst}[-1] * $st[-1] == $t", f"$st[-1] * {lst}[-1] == $t", f"$t == {lst}[-1] * $st[-1]"], fact.expr)
                if m is not None and is_var(m["t"], s, ts_t, ub_t):
                    cond = (fact, ast.unparse(m["st"]))
        chk.result(okv and cond is not None, rule, f"{f.key}:fold-condition", s.where(),
                   "a dimension is folded into the last kept one only if it continues it exactly (kept bound * kept stride == stride)",
                   "a dimension is folded into the previous one on a path where `last kept bound * last kept stride == stride` is not established "
                   "(e.g. the extent of a dropped unit dimension is compared instead): the folded pattern addresses other elements", s.fact_texts)
        if cond is not None:
            # the stride list compared against is the one that is appended to together with the bounds
            apps = [x for x in fl.calls("append") if x.reachable and ast.unparse(x.node.func.value) == cond[1] and is_var(x.node.args[0], x, ts_t, ub_t)]  # type: ignore[attr-defined]
            chk.result(bool(apps), rule, f"{f.key}:kept-lists", s.where(), "the comparison uses the lists of kept bounds/strides")
    # a dimension disappears on an iteration that neither appends nor folds: that must be a unit dimension
    keeps = lambda st_: any(isinstance(n_, ast.Call) and callee_name(n_) == "append" for n_ in ast.walk(st_)) or (  # noqa: E731
        isinstance(st_, ast.AugAssign) and isinstance(st_.target, ast.Subscript))
    fl2 = Flow(f, repo, events={"kept": lambda st_: not isinstance(st_, (ast.If, ast.For, ast.While)) and keeps(st_)})
    drops = [s for s in fl2.stmts(ast.Pass, ast.Continue) if s.reachable and s.loops and not any(
        fa.kind == "atom" and fa.text == "__event__('kept')" for fa in s.facts)]
    if not drops:
        raise AnalysisError(f"{f.where}: the path on which a unit dimension is dropped was not found (neither `pass` nor `continue` without a kept element)")
    chk.result(all(fact_is(s, ub_t, ts_t, 1) for s in drops), rule, f"{f.key}:drop-unit", drops[0].where(),
               "a dimension is dropped only for bound 1", "a dimension is dropped under another condition than bound == 1")
    early = [s for s in fl.stmts(ast.Return) if s.reachable and ast.unparse(s.node.value) == "self"]
    chk.result(bool(early) and all(any("spatial_strides" in t and "IntAttr(0)" in t for t in s.fact_texts) for s in early), rule, f"{f.key}:zero-spatial", f.where,
               "patterns with a zero spatial stride are returned unchanged")
    final = [s for s in fl.stmts(ast.Return) if s.reachable and isinstance(s.node.value, ast.Call)]
    chk.result(any(len(s.node.value.args) == 3 and ast.unparse(s.node.value.args[2]) == "self.spatial_strides" for s in final), rule, f"{f.key}:spatial-kept", f.where,
               "spatial strides are kept as they are")


# --------------------------------------------------------------------------- StreamerConfigurationAttr
def streamer_config_io(repo: Repo, chk: Check) -> None:
    c = repo.cls(SNAXD, "StreamerConfigurationAttr")
    pr, pa = c.methods.get("print_parameter"), c.methods.get("parse_parameter")
    if pr is None or pa is None:
        raise AnalysisError(f"{c.where}: print/parse missing")
    chk.analysed(pr.key, pa.key)
    chk.rule("C19.streamer-config-io", "printer and parser of StreamerConfigurationAttr use the keywords opts, temp, spat in that order with `-` separators and cover every constructor field of Streamer and StreamerConfiguration", floor=4)
    psrc = ast.unparse(pr.node)
    order_p = [k for k in ("opts=", "temp=", "spat=") if k in psrc]
    pos = [psrc.index(k) for k in order_p]
    chk.result(order_p == ["opts=", "temp=", "spat="] and pos == sorted(pos), "C19.streamer-config-io", f"{pr.key}:keywords", pr.where, "printer emits opts, temp, spat in that order")
    kws = sorted(((n.lineno, n.col_offset, n.args[0].value) for n in ast.walk(pa.node)
                  if isinstance(n, ast.Call) and callee_name(n) in ("parse_keyword", "parse_optional_keyword") and n.args and isinstance(n.args[0], ast.Constant)))
    chk.result([k[2] for k in kws] == ["opts", "temp", "spat"], "C19.streamer-config-io", f"{pa.key}:keywords", pa.where, "parser reads opts, temp, spat in that order",
               f"parser reads keywords {[k[2] for k in kws]}")
    # field coverage
    streamer = repo.cls(STREAMERS, "Streamer")
    conf = repo.cls(STREAMERS, "StreamerConfiguration")
    for cls_, ctor_fields in ((streamer, list(streamer.annotations)), (conf, list(conf.annotations))):
        for fld in ctor_fields:
            printed = re.search(rf"\.{fld}\b", psrc) is not None or (fld == "type" and ".type.value" in psrc)
            parsed = False
            for n in ast.walk(pa.node):
                if isinstance(n, ast.Call) and callee_name(n) == cls_.name:
                    params = [a.arg for a in cls_.methods["__init__"].node.args.args[1:]]
                    supplied = params[: len(n.args)] + [k.arg for k in n.keywords]
                    # map constructor parameter -> field it initialises
                    init_src = ast.unparse(cls_.methods["__init__"].node)
                    for p_ in supplied:
                        if re.search(rf"self\.{fld}\s*=\s*.*\b{p_}\b", init_src):
                            parsed = True
            key = f"{cls_.key}:{fld}"
            chk.result(printed and parsed, "C19.streamer-config-io", key, cls_.where,
                       f"{cls_.name}.{fld} is printed and re-parsed",
                       f"{cls_.name}.{fld} is {'not printed' if not printed else 'printed'} and {'not supplied by the parser' if not parsed else 'parsed'}: "
                       "printing and re-parsing the attribute loses it")


def opt_registry(repo: Repo, chk: Check) -> None:
    chk.rule("C19.opt-registry", "every concrete StreamerOpts subclass in a module that other modules import is a value of STREAMER_OPT_MAP under its own name; names are pairwise distinct bare identifiers", floor=8)
    base = repo.cls(STREAMERS, "StreamerOpts")
    m = repo.module(EXT_INIT)
    mp = m.consts.get("STREAMER_OPT_MAP")
    if not isinstance(mp, ast.Dict):
        raise AnalysisError(f"{EXT_INIT}: STREAMER_OPT_MAP is not a dict display")
    reg: dict[str, str] = {}
    for k, v in zip(mp.keys, mp.values):
        mk = norm.match(T("$c().name"), k) if k is not None else None
        if mk is None or not isinstance(v, ast.Name) or ast.unparse(mk["c"]) != v.id:
            chk.bad("C19.opt-registry", f"{EXT_INIT}:entry:{ast.unparse(v)}", f"{EXT_INIT}:{getattr(k, 'lineno', 0)}", f"entry {ast.unparse(k) if k else None}: {ast.unparse(v)} is not `Class().name: Class`")
            continue
        reg[v.id] = v.id
    imported_modules = set()
    for mod in repo.modules.values():
        for tgt in mod.imports.values():
            imported_modules.add(tgt.rsplit(".", 1)[0])
            imported_modules.add(tgt)
    names: dict[str, str] = {}
    for c in repo.subclasses(base):
        if repo.is_abstract(c) or any("ABC" in ast.unparse(b) for b in c.node.bases):
            continue
        used = any(t == c.dotted or t.startswith(c.module.dotted) for mod in repo.modules.values() if mod is not c.module for t in mod.imports.values())
        if not used:
            chk.observe(f"{c.key}: StreamerOpts subclass in a module nothing imports (not required in the registry)")
            continue
        nm = repo.find_const(c, "name")
        nm_v = nm[1].value if nm and isinstance(nm[1], ast.Constant) else None
        chk.result(c.name in reg, "C19.opt-registry", f"{c.key}:registered", c.where, f"{c.name} ('{nm_v}') is registered",
                   f"{c.name} ('{nm_v}') is not in STREAMER_OPT_MAP: a configuration using it cannot be re-parsed")
        if nm_v is not None:
            ok = nm_v not in names and re.fullmatch(r"[A-Za-z_][A-Za-z0-9_$.]*", nm_v) is not None
            chk.result(ok, "C19.opt-registry", f"{c.key}:name", c.where, f"name '{nm_v}' is a distinct bare identifier",
                       f"name '{nm_v}' of {c.name} clashes with {names.get(nm_v)} or is not a bare identifier: parsing picks the wrong option")
            names.setdefault(nm_v, c.name)
    po = repo.func(SNAXD, "StreamerConfigurationAttr.parse_streamer_opt")
    chk.analysed(po.key)
    chk.result("STREAMER_OPT_MAP[" in ast.unparse(po.node), "C19.opt-registry", f"{po.key}:uses-map", po.where, "options are parsed through STREAMER_OPT_MAP")


def fixpoint(repo: Repo, chk: Check) -> None:
    f, fl = flow_of(repo, chk, CANON, "canonicalize_expr")
    e = f.param(0)
    chk.rule("C19.idempotence-shape", "canonicalize_expr returns only when a pass changed nothing compared to its *input* and otherwise recurses on the new expression", floor=2)
    rets = [s for s in fl.stmts(ast.Return) if s.reachable]
    base = [s for s in rets if not any(isinstance(x, ast.Call) and callee_name(x) == f.name for x in ast.walk(s.node))]
    rec = [s for s in rets if s not in base]
    def _is_fixpoint_return(s: Site) -> bool:
        if every_alt_has(s, [f"$n == {e}", f"{e} == $n"]):
            return True
        # the input itself, for an expression no rewrite applies to (only binary operations are rewritten)
        v_ = s.expand(s.node.value) if s.node.value is not None else None
        return isinstance(v_, ast.Name) and v_.id == e and every_alt_has(s, [f"not isinstance({e}, AffineBinaryOpExpr)"])

    okb = bool(base) and all(_is_fixpoint_return(s) for s in base)
    chk.result(okb, "C19.idempotence-shape", f"{f.key}:fixpoint-test", base[0].where() if base else f.where, "a result is returned only if it equals the input of this pass",
               "canonicalize_expr can return an expression that a further pass would still change (no fixpoint test against the input)", base[0].fact_texts if base else [])
    okr = bool(rec) and all(ast.unparse(s.node.value.args[0]) != e for s in rec if isinstance(s.node.value, ast.Call))
    chk.result(okr, "C19.idempotence-shape", f"{f.key}:recurse-on-new", rec[0].where() if rec else f.where, "otherwise it recurses on the new expression")
    b, bfl = flow_of(repo, chk, CANON, "canonicalize_binary_op")
    okc = "canonicalize_expr(expr.lhs)" in ast.unparse(b.node) and "canonicalize_expr(expr.rhs)" in ast.unparse(b.node)
    chk.result(okc, "C19.idempotence-shape", f"{b.key}:children-first", b.where, "both children are canonicalised before the node itself")
    mp = repo.func(CANON, "canonicalize_map")
    chk.analysed(mp.key)
    mpar = mp.param(0)
    okm = False
    for n in ast.walk(mp.node):
        if isinstance(n, ast.Call) and callee_name(n) == "AffineMap" and len(n.args) >= 3:
            gens = [g for g in ast.walk(n.args[2]) if isinstance(g, (ast.GeneratorExp, ast.ListComp))]
            okm = (norm.match(T(f"{mpar}.num_dims"), n.args[0]) is not None and norm.match(T(f"{mpar}.num_symbols"), n.args[1]) is not None and any(
                len(g.generators) == 1 and not g.generators[0].ifs and norm.match(T(f"{mpar}.results"), g.generators[0].iter) is not None
                and isinstance(g.elt, ast.Call) and callee_name(g.elt) == "canonicalize_expr" for g in gens))
    chk.result(okm, "C19.idempotence-shape", f"{mp.key}:all-results", mp.where,
               "canonicalize_map keeps dims/symbols and canonicalises every result")


def pack(repo: Repo, chk: Check) -> None:
    f, fl = flow_of(repo, chk, PACK, "pack_bitlist")
    v, o = f.param(0), f.param(1)
    chk.rule("C19.pack", "pack_bitlist pairs value i with offset i (strict zip), shifts each value left by its own offset, and or-reduces all shifted values without dropping one", floor=3)
    loops = [s for s in fl.stmts(ast.For) if s.reachable]
    okz = any(norm.match(T(f"zip({v}, {o}, strict=True)"), s.node.iter) is not None for s in loops)
    chk.result(okz, "C19.pack", f"{f.key}:strict-zip", loops[0].where() if loops else f.where, "values and offsets are zipped strictly",
               "values and offsets are no longer zipped strictly: a surplus value/offset is silently ignored")
    sh = [s for s in fl.calls("ShLIOp") if s.reachable]
    oks = False
    for s in sh:
        c0 = fl.cone(s.node.args[0], s, inline=0)
        c1 = fl.cone(s.node.args[1], s, inline=0)
        lp = [l for l in s.loops if isinstance(l, ast.For)]
        if lp and isinstance(lp[0].target, ast.Tuple):
            tv, to = (x.id for x in lp[0].target.elts)  # type: ignore[attr-defined]
            oks = depends_on(c0, tv) and not depends_on(c0, to) and depends_on(c1, to) and not depends_on(c1, tv)
    chk.result(oks, "C19.pack", f"{f.key}:shift-pairing", sh[0].where() if sh else f.where, "shift = shl(value_i, offset_i)", "a value is not shifted by its own offset (operands swapped or mixed)")
    wl = [n for n in ast.walk(f.node) if isinstance(n, ast.While)]
    okr = False
    for w in wl:
        mt = norm.match(T("len($L) > 1"), norm.canon(w.test))
        if mt is None or not isinstance(mt["L"], ast.Name):
            continue
        L = mt["L"].id
        alias: dict[str, str] = {}  # local -> the part of L it stands for
        or_names: set[str] = set()
        or_args: list[str] = []
        new_list: ast.expr | None = None
        for n in ast.walk(w):
            if isinstance(n, ast.Assign) and len(n.targets) == 1 and isinstance(n.targets[0], ast.Tuple) and isinstance(n.value, ast.Name) and n.value.id == L:
                elts = n.targets[0].elts
                for i_, t_ in enumerate(elts):
                    if isinstance(t_, ast.Name):
                        alias[t_.id] = f"{L}[{i_}]"
                    elif isinstance(t_, ast.Starred) and isinstance(t_.value, ast.Name) and i_ == len(elts) - 1:
                        alias[t_.value.id] = f"{L}[{i_}:]"
        res = lambda e_: alias.get(e_.id, e_.id) if isinstance(e_, ast.Name) else ast.unparse(e_)  # noqa: E731
        for n in ast.walk(w):
            if isinstance(n, ast.Call) and callee_name(n) == "OrIOp" and len(n.args) == 2:
                or_args = sorted(res(a_) for a_ in n.args)
            if isinstance(n, ast.NamedExpr) and isinstance(n.value, ast.Call) and callee_name(n.value) == "OrIOp":
                or_names.add(n.target.id)
            if isinstance(n, ast.Assign) and isinstance(n.value, ast.Call) and callee_name(n.value) == "OrIOp" and isinstance(n.targets[0], ast.Name):
                or_names.add(n.targets[0].id)
            if isinstance(n, ast.Assign) and len(n.targets) == 1 and isinstance(n.targets[0], ast.Name) and n.targets[0].id == L:
                new_list = n.value
        if or_args != [f"{L}[0]", f"{L}[1]"] or new_list is None:
            continue
        parts: list[str] = []
        def flat(e_: ast.expr) -> None:
            if isinstance(e_, (ast.List, ast.Tuple)):
                for x_ in e_.elts:
                    parts.append("*" + res(x_.value) if isinstance(x_, ast.Starred) else res(x_))
            elif isinstance(e_, ast.BinOp) and isinstance(e_.op, ast.Add):
                flat(e_.left)
                flat(e_.right)
            else:
                parts.append("*" + res(e_))
        flat(new_list)
        okr = sorted(parts) == sorted([f"*{L}[2:]"] + [f"{nm}.result" for nm in or_names][:1]) and len(or_names) == 1
    chk.result(okr, "C19.pack", f"{f.key}:or-reduction", f.where, "two values are replaced by their or until one is left; the rest is kept",
               "the or-reduction no longer keeps all remaining values")


# --------------------------------------------------------------------------- rewrite identities (bounded)
class _V:
    """a model affine expression: ('const', value) | ('leaf', value) | (kind, lhs, rhs)"""

    __slots__ = ("tag", "a", "b")

    def __init__(self, tag, a=None, b=None):
        self.tag, self.a, self.b = tag, a, b

    def __eq__(self, other) -> bool:  # structural, like xdsl's affine expressions
        return isinstance(other, _V) and (self.tag, self.a, self.b) == (other.tag, other.a, other.b)

    def __hash__(self) -> int:
        return hash((self.tag, self.a, self.b))

    def num(self) -> int:
        if self.tag in ("const", "leaf"):
            return self.a
        x, y = self.a.num(), self.b.num()
        if self.tag == "Add":
            return x + y
        if self.tag == "Mul":
            return x * y
        if y <= 0:
            raise ZeroDivisionError
        return x % y if self.tag == "Mod" else x // y

    def __repr__(self) -> str:
        if self.tag == "const":
            return str(self.a)
        if self.tag == "leaf":
            return f"<{self.a}>"
        return f"({self.a!r} {self.tag} {self.b!r})"


class _Unknown(Exception):
    pass


def _model_eval(e: ast.AST, expr: _V, pname: str):
    """value of a Python expression over the model; raises _Unknown for anything not interpretable"""
    if isinstance(e, ast.Name):
        if e.id == pname:
            return expr
        raise _Unknown(e.id)
    if isinstance(e, ast.Constant):
        return e.value
    if isinstance(e, ast.Attribute):
        txt = ast.unparse(e)
        if txt.startswith("AffineBinaryOpKind."):
            return e.attr
        v = _model_eval(e.value, expr, pname)
        if isinstance(v, _V):
            if e.attr == "lhs" and v.tag not in ("const", "leaf"):
                return v.a
            if e.attr == "rhs" and v.tag not in ("const", "leaf"):
                return v.b
            if e.attr == "kind" and v.tag not in ("const", "leaf"):
                return v.tag
            if e.attr == "value" and v.tag == "const":
                return v.a
        raise _Unknown(txt)
    if isinstance(e, ast.BinOp):
        l, r = _model_eval(e.left, expr, pname), _model_eval(e.right, expr, pname)
        if isinstance(l, _V) or isinstance(r, _V):
            l = l if isinstance(l, _V) else _V("const", l)
            r = r if isinstance(r, _V) else _V("const", r)
            tag = {ast.Add: "Add", ast.Mult: "Mul", ast.Mod: "Mod", ast.FloorDiv: "FloorDiv"}.get(type(e.op))
            if tag is None:
                raise _Unknown(ast.unparse(e))
            return _V(tag, l, r)
        import operator

        ops = {ast.Add: operator.add, ast.Sub: operator.sub, ast.Mult: operator.mul, ast.Mod: operator.mod, ast.FloorDiv: operator.floordiv}
        if type(e.op) not in ops:
            raise _Unknown(ast.unparse(e))
        return ops[type(e.op)](l, r)
    if isinstance(e, ast.UnaryOp) and isinstance(e.op, ast.USub):
        return -_model_eval(e.operand, expr, pname)
    if isinstance(e, ast.UnaryOp) and isinstance(e.op, ast.Not):
        return not _model_eval(e.operand, expr, pname)
    if isinstance(e, ast.Call):
        fn = ast.unparse(e.func)
        if fn == "AffineConstantExpr" and len(e.args) == 1:
            return _V("const", _model_eval(e.args[0], expr, pname))
        if fn == "AffineBinaryOpExpr" and len(e.args) == 3:
            k = _model_eval(e.args[0], expr, pname)
            return _V(k, _model_eval(e.args[1], expr, pname), _model_eval(e.args[2], expr, pname))
        if fn in ("min", "max", "abs", "math.gcd", "gcd", "math.lcm", "lcm") and e.args and not e.keywords:
            vals = [_model_eval(a, expr, pname) for a in e.args]
            if any(isinstance(v, _V) or not isinstance(v, int) for v in vals):
                raise _Unknown(ast.unparse(e))
            import math

            return {"min": min, "max": max, "abs": abs, "math.gcd": math.gcd, "gcd": math.gcd, "math.lcm": math.lcm, "lcm": math.lcm}[fn](*vals)
        if fn == "isinstance" and len(e.args) == 2:
            v = _model_eval(e.args[0], expr, pname)
            cls = ast.unparse(e.args[1])
            if isinstance(v, _V):
                if cls == "AffineConstantExpr":
                    return v.tag == "const"
                if cls == "AffineBinaryOpExpr":
                    return v.tag not in ("const", "leaf")
                if cls == "AffineDimExpr":
                    return v.tag == "leaf"
        raise _Unknown(ast.unparse(e))
    if isinstance(e, ast.Compare) and len(e.ops) == 1:
        l, r = _model_eval(e.left, expr, pname), _model_eval(e.comparators[0], expr, pname)
        op = e.ops[0]
        if isinstance(op, (ast.Is, ast.Eq)):
            return l == r
        if isinstance(op, (ast.IsNot, ast.NotEq)):
            return l != r
        if isinstance(l, _V) or isinstance(r, _V):
            raise _Unknown(ast.unparse(e))
        return {ast.Lt: l < r, ast.LtE: l <= r, ast.Gt: l > r, ast.GtE: l >= r}[type(op)]
    if isinstance(e, ast.BoolOp):
        vals = []
        unknown = False
        for v in e.values:
            try:
                vals.append(bool(_model_eval(v, expr, pname)))
            except _Unknown:
                unknown = True
        if isinstance(e.op, ast.And):
            if any(v is False for v in vals):
                return False
            if unknown:
                raise _Unknown("and")
            return True
        if any(vals):
            return True
        if unknown:
            raise _Unknown("or")
        return False
    raise _Unknown(type(e).__name__)


def _samples(kind: str):
    consts = [_V("const", c) for c in (-2, 0, 1, 3, 4, 6)]
    leaves = [_V("leaf", v) for v in (-3, 2, 6)]
    atoms_ = consts + leaves
    small = []
    for k in ("Add", "Mul", "Mod", "FloorDiv"):
        for x in (leaves[1], leaves[2], consts[3]):
            for y in (consts[2], consts[3], consts[4], leaves[0]):
                small.append(_V(k, x, y))
    # one level deeper on the left (nested remainders / sums)
    deep = [_V("Mod", _V("Mul", leaves[1], consts[4]), _V("const", 6)), _V("Mod", _V("Mul", leaves[1], consts[3]), _V("const", 5)),
            _V("Add", _V("Mul", leaves[2], consts[3]), leaves[0])]
    for l in atoms_ + small + deep:
        for r in atoms_ + small[:8]:
            yield _V(kind, l, r)
    # an index split into quotient and remainder and put together again, with matching and with non-matching multipliers / divisors / operands:
    # rules that recombine (a floordiv c) * k and a mod c' must be exact about all three
    for a in leaves + [_V("leaf", 7), _V("leaf", 13)]:
        for c in (3, 4):
            for k in (3, 4, 16):
                for c2 in (3, 4):
                    for b in (a, leaves[1]):
                        l = _V("Mul", _V("FloorDiv", a, _V("const", c)), _V("const", k))
                        r = _V("Mod", b, _V("const", c2))
                        yield _V(kind, l, r)
                        yield _V(kind, r, l)


def rewrite_identities(repo: Repo, chk: Check) -> None:
    from sa.flow import expand

    chk.rule(
        "C19.rewrite-identities",
        "every return of canonicalize_addition / multiplication / floordiv / mod, under the path conditions the checker can "
        "interpret (isinstance / kind / value tests on the input; helper predicates are not assumed), evaluates like the "
        "input on a grid of model expressions (bounded identity test of the extracted rewrite rule, not a proof)",
        floor=10,
    )
    kinds = {"canonicalize_addition": "Add", "canonicalize_multiplication": "Mul", "canonicalize_floordiv": "FloorDiv", "canonicalize_mod": "Mod"}
    for qual, kind in kinds.items():
        f, fl = flow_of(repo, chk, CANON, qual)
        pname = f.param(0)
        n_ret = 0
        for s in fl.stmts(ast.Return):
            if not s.reachable or s.node.value is None:
                continue
            n_ret += 1
            tested = 0
            bad = None
            opaque: set[str] = set()
            for alt in s.state.alts:
                ret = expand(s.node.value, alt.env)
                facts = [x.expr for x in alt.facts.values() if x.kind == "atom"]
                for sample in _samples(kind):
                    ok = True
                    for fact in facts:
                        try:
                            if not _model_eval(fact, sample, pname):
                                ok = False
                                break
                        except _Unknown as u:
                            opaque.add(ast.unparse(fact)[:60])
                        except (ZeroDivisionError, TypeError):
                            ok = False
                            break
                    if not ok:
                        continue
                    try:
                        want = sample.num()
                        got_v = _model_eval(ret, sample, pname)
                        got = got_v.num() if isinstance(got_v, _V) else got_v
                    except _Unknown as u:
                        raise AnalysisError(f"{s.where()}: returned expression `{ast.unparse(ret)[:80]}` is not interpretable ({u})")
                    except (ZeroDivisionError, TypeError):
                        continue
                    tested += 1
                    if got != want and bad is None:
                        bad = f"input {sample!r} = {want}, result `{ast.unparse(ret)[:70]}` = {got}"
            key = f"{f.key}:return#{n_ret}"
            if tested == 0:
                chk.ok("C19.rewrite-identities", key, s.where(), "no model input satisfies the path conditions (vacuous)", nontrivial=False)
                continue
            chk.result(bad is None, "C19.rewrite-identities", key, s.where(),
                       f"identity holds on {tested} model inputs" + (f" (conditions not interpreted: {sorted(opaque)[:2]})" if opaque else ""),
                       f"the rewrite is not an identity: {bad}" + (f"; conditions the checker cannot interpret and therefore does not assume: {sorted(opaque)[:3]}" if opaque else ""))
        if n_ret == 0:
            raise AnalysisError(f"{f.where}: no returns")
    b = repo.func(CANON, "canonicalize_binary_op")
    bfl = Flow(b, repo)
    found: dict[str, str] = {}  # canonicaliser -> kind it is called for
    for s_ in [x for x in bfl.stmts(ast.Return) if x.reachable and isinstance(x.node.value, ast.Call) and callee_name(x.node.value) in kinds]:
        q_ = callee_name(s_.node.value)
        for fa in s_.facts:
            if fa.kind == "atom":
                m_ = norm.any_match(["$e.kind is AffineBinaryOpKind.Add", "$e.kind == AffineBinaryOpKind.Add"], fa.expr)
                for k_ in ("Add", "Mul", "FloorDiv", "Mod", "CeilDiv"):
                    if norm.any_match([f"$e.kind is AffineBinaryOpKind.{k_}", f"$e.kind == AffineBinaryOpKind.{k_}"], fa.expr) is not None:
                        found[q_] = k_ if q_ not in found or found[q_] == k_ else "?"
    # the same dispatch as a table {kind: canonicaliser} consulted with the expression's kind
    for name, d in b.module.consts.items():
        if isinstance(d, ast.Dict) and d.keys and all(k is not None and ast.unparse(k).startswith("AffineBinaryOpKind.") for k in d.keys) and any(
                isinstance(n, ast.Name) and n.id == name for n in ast.walk(b.node)):
            used_by_kind = any(norm.any_match([f"{name}.get($e.kind)", f"{name}.get($e.kind, $_)", f"{name}[$e.kind]"], n) is not None for n in ast.walk(b.node))
            if used_by_kind:
                for k, v in zip(d.keys, d.values):
                    if isinstance(v, ast.Name) and v.id in kinds:
                        kk = ast.unparse(k).split(".")[-1]
                        found[v.id] = kk if v.id not in found or found[v.id] == kk else "?"
    okd = all(found.get(q) == k for q, k in kinds.items())
    chk.result(okd, "C19.rewrite-identities", f"{b.key}:dispatch", b.where, "each kind is dispatched to its own canonicaliser",
               "canonicalize_binary_op dispatches a kind to the canonicaliser of another kind")


# --------------------------------------------------------------------------- AffineTransform only represents linear maps
AT = "snaxc/ir/dart/affine_transform.py"
def compose(repo: Repo, chk: Check) -> None:
    """(f o g)(x) = A_f (A_g x + b_g) + b_f. A return that hands back one operand unchanged claims the other one is the identity FUNCTION, which is a
    statement about its matrix and its translation"""
    chk.rule("C19.compose", "AffineTransform.compose returns type(self)(self.A @ other.A, self.A @ other.b + self.b); a shortcut that returns one operand unchanged "
             "is taken only under a test that reads the translation `b` of the operand it drops (an identity matrix with b != 0 is a shift)", floor=1)
    f, fl = flow_of(repo, chk, AT, "AffineTransform.compose")
    me, other = f.param(0), f.param(1)
    cls_ = f.cls
    rets = [s for s in fl.stmts(ast.Return) if s.reachable and s.node.value is not None]
    if not rets:
        raise AnalysisError(f"{f.where}: compose has no return")

    def reads(fact_expr: ast.expr, who: str, depth: int = 0) -> set[str]:
        """attributes of `who` a condition reads, properties / methods of the class looked through"""
        out: set[str] = set()
        for n in ast.walk(fact_expr):
            if isinstance(n, ast.Attribute) and isinstance(n.value, ast.Name) and n.value.id == who:
                out.add(n.attr)
                m_ = cls_.methods.get(n.attr) if cls_ is not None else None
                if m_ is not None and depth < 3:
                    for r_ in ast.walk(m_.node):
                        if isinstance(r_, ast.Return) and r_.value is not None:
                            out |= reads(r_.value, "self", depth + 1)
        return out

    for n_, s in enumerate(rets, 1):
        v = norm.primary(s.expand(s.node.value))
        key = f"{f.key}:return#{n_}"
        m = norm.any_match(["type($s)($a, $b)", "$c($a, $b)"], v)
        if m is not None:
            a_ok = norm.match(T(f"{me}.A @ {other}.A"), norm.primary(m["a"])) is not None
            b_ok = norm.any_match([f"{me}.A @ {other}.b + {me}.b", f"{me}.b + {me}.A @ {other}.b"], norm.primary(m["b"])) is not None
            chk.result(a_ok and b_ok, "C19.compose", key, s.where(), "A = self.A @ other.A, b = self.A @ other.b + self.b",
                       f"the composition is built as ({ast.unparse(m['a'])[:50]}, {ast.unparse(m['b'])[:60]}); expected (self.A @ other.A, self.A @ other.b + self.b)")
            continue
        if isinstance(v, ast.Name) and v.id in (me, other):
            dropped = other if v.id == me else me
            seen: set[str] = set()
            for fa in s.facts:
                if fa.kind == "atom":
                    seen |= reads(fa.expr, dropped)
            chk.result("b" in seen and "A" in seen, "C19.compose", key, s.where(), f"`{v.id}` is returned unchanged only after the matrix and the translation of `{dropped}` were tested",
                       f"`{v.id}` is returned unchanged under a test that reads only {sorted(seen)} of `{dropped}`: a transform with identity matrix and b != 0 is a shift, "
                       "and composing with it must add A @ b (resp. b) to the translation", s.fact_texts)
            continue
        raise AnalysisError(f"{s.where()}: compose returns `{ast.unparse(v)[:80]}`, a form this rule does not read")


NONLIN = ("FloorDiv", "CeilDiv", "Mod")


def transform_linear(repo: Repo, chk: Check, rule: str = "C19.transform-linear") -> None:
    chk.rule(
        rule,
        "AffineTransform.from_affine_map (matrix form = unit responses) refuses every map that contains a floordiv / ceildiv / mod ANYWHERE in a "
        "result: the test visits all sub-expressions (dfs, or a recursion that descends into both operands of every binary node it accepts)",
        floor=1,
    )
    f = repo.func(AT, "AffineTransform.from_affine_map")
    chk.analysed(f.key)
    fl = Flow(f, repo)
    mp = f.param(1) if len(f.params) > 1 else "map"
    key = f.key
    # form (a): raise inside a loop over <result>.dfs() for result in map.results, under kind in the three non-linear kinds
    for s_ in fl.stmts(ast.Raise):
        if not s_.reachable:
            continue
        loops = [l for l in s_.loops if isinstance(l, ast.For)]
        over_results = any(norm.contains(l.iter, T(f"{mp}.results")) for l in loops)
        full = any(norm.match(T("$r.dfs()"), l.iter) is not None or norm.match(T("$r.walk()"), l.iter) is not None for l in loops)
        kinds_ok = all(any(k in t for t in s_.fact_texts) for k in NONLIN)
        if over_results and full and kinds_ok:
            chk.ok(rule, f"{key}:complete-traversal", s_.where(), "every sub-expression of every result is visited; FloorDiv, CeilDiv and Mod raise")
            return
        # the same as one condition: `if any(<non-linear kind>(e) for e in result.dfs()): raise`
        for fa in s_.facts:
            q = norm.qnf(fa.expr) if fa.kind == "atom" else None
            if q is None or q[0] != "any":
                continue
            dom_full = norm.match(T("$r.dfs()"), q[2]) is not None or norm.match(T("$r.walk()"), q[2]) is not None
            txt = ast.unparse(q[4]) + " ".join(ast.unparse(x) for x in q[3])
            if over_results and dom_full and all(k in txt for k in NONLIN) and not any(isinstance(n, ast.UnaryOp) and isinstance(n.op, ast.Not) for n in ast.walk(q[4])):
                chk.ok(rule, f"{key}:complete-traversal", s_.where(), "every sub-expression of every result is visited; FloorDiv, CeilDiv and Mod raise")
                return
    # form (b): a recursive predicate
    helpers = [n for n in f.node.body if isinstance(n, ast.FunctionDef)]
    rec = [h for h in helpers if any(isinstance(c, ast.Call) and isinstance(c.func, ast.Name) and c.func.id == h.name for c in ast.walk(h))]
    used = [h for h in rec if any(isinstance(c, ast.Call) and isinstance(c.func, ast.Name) and c.func.id == h.name for st in f.node.body if st is not h for c in ast.walk(st))]
    if not used:
        chk.bad(rule, f"{key}:complete-traversal", f.where,
                "no complete traversal of the result expressions guards the conversion: a floordiv/mod nested in a result is linearised silently")
        return
    h = used[0]
    hf = f.nested(h.name)
    hfl = Flow(hf, repo)
    ep = hf.param(0)
    problems = []
    for r in hfl.stmts(ast.Return):
        if not r.reachable or r.node.value is None:
            continue
        v = r.node.value
        if isinstance(v, ast.Constant) and v.value is False:
            continue
        base_case = any(x.kind == "atom" and norm.any_match([f"not isinstance({ep}, AffineBinaryOpExpr)", f"isinstance({ep}, (AffineDimExpr, AffineConstantExpr, AffineSymExpr))",
                                                             f"isinstance({ep}, AffineDimExpr | AffineConstantExpr)"], x.expr) is not None for x in r.facts)
        if base_case:
            continue
        calls = [c for c in ast.walk(v) if isinstance(c, ast.Call) and isinstance(c.func, ast.Name) and c.func.id == h.name and c.args]
        sides = {ast.unparse(c.args[0]) for c in calls}
        if not ({f"{ep}.lhs", f"{ep}.rhs"} <= sides):
            problems.append(f"line {r.node.lineno}: `return {ast.unparse(v)[:80]}` accepts a binary node without checking " + " and ".join(sorted({f"{ep}.lhs", f"{ep}.rhs"} - sides)))
    rejects = all(any(k in ast.unparse(hf.node) for k in ("Add", "Mul")) for _ in [0])
    chk.result(not problems, rule, f"{key}:complete-traversal", hf.where,
               f"{h.name} descends into both operands of every binary node it accepts",
               f"{h.name} does not visit every sub-expression ({'; '.join(problems[:2])}): a floordiv/mod below such a node is accepted and the map is linearised silently")

"""C17 — loop restructuring preserves the executed operation sequence (DESIGN.md section 5, C17)."""

from __future__ import annotations

import ast
import re

from sa import norm
from sa.errors import AnalysisError
from sa.flow import Flow, Site
from sa.model import Repo
from sa.norm import T
from sa.report import Check

from .common import (
    callee_name,
    depends_on,
    flow_of,
    g,
    has_fact,
    has_forall,
    mutation_sites,
    op_param,
    require_guards,
    rewriter_param,
    subexprs,
)

CANON = "snaxc/transforms/pipeline/pipeline_canonicalize_for.py"
REUSE = "snaxc/transforms/reuse_memref_allocs.py"


def _ge0_on(path_tmpl: str, **binds: str):
    """guard: a fact `<e> >= 0` (or `0 <= e`, `e > -1`) where e mentions the given access path"""
    t = T(path_tmpl)

    def test(site: Site):
        for f in site.facts:
            c = f.expr if f.kind == "atom" else None
            if not (isinstance(c, ast.Compare) and len(c.ops) == 1):
                continue
            l, o, r = c.left, c.ops[0], c.comparators[0]
            zero = lambda x: isinstance(x, ast.Constant) and x.value == 0 and type(x.value) is int
            m1 = lambda x: (isinstance(x, ast.Constant) and x.value == -1) or (isinstance(x, ast.UnaryOp) and isinstance(x.op, ast.USub) and isinstance(x.operand, ast.Constant) and x.operand.value == 1)
            if (isinstance(o, ast.GtE) and zero(r) and norm.find(t, l, binds)) or (isinstance(o, ast.LtE) and zero(l) and norm.find(t, r, binds)) \
                    or (isinstance(o, ast.Gt) and m1(r) and norm.find(t, l, binds)):
                return f
        return None

    return test


def _cmp_on(path_tmpl: str, rel: str, const: int, **binds: str):
    """guard: a fact `<e> <rel> <const>` where e mentions the given access path.  For `== 0` the
    spelling `not e` together with `e is not None` is accepted as well."""
    t = T(path_tmpl)

    def test(site: Site):
        facts = site.facts
        for f in facts:
            if f.kind != "atom":
                continue
            c = f.expr
            if isinstance(c, ast.Compare) and len(c.ops) == 1:
                if not (isinstance(c.comparators[0], ast.Constant) and c.comparators[0].value == const
                        and type(c.comparators[0].value) is type(const)):
                    continue
                opname = {ast.Eq: "==", ast.NotEq: "!="}.get(type(c.ops[0]))
                if opname != rel:
                    continue
                if norm.find(t, c.left, binds):
                    return f
            elif rel == "==" and const == 0 and norm.is_not(c) and norm.find(t, c.operand, binds):
                inner = ast.unparse(c.operand)
                if any(g.kind == "atom" and g.text == f"{inner} is not None" for g in facts):
                    return f
        return None

    return test


def _exclusion_predicates(chk: Check, rule: str, f: Func, fl: Flow) -> None:
    """`iv.replace_uses_with_if(new, lambda use: ..)`: every use of the old induction value is redirected, except those of the ops this
    very rewrite has just built from it (excluded by identity) - an exclusion by op KIND also spares ops of that kind that were there
    before (left behind by an earlier application of the pattern, or written by the user)"""
    for s in [x for x in fl.calls("replace_uses_with_if") if x.reachable]:
        call = s.node
        assert isinstance(call, ast.Call)
        if len(call.args) < 2 or not isinstance(call.args[1], ast.Lambda) or len(call.args[1].args.args) != 1:
            raise AnalysisError(f"{s.where()}: replace_uses_with_if without a one-argument lambda")
        lam = call.args[1]
        u = lam.args.args[0].arg
        atoms_ = norm.atoms(lam.body, True)
        bad = []
        for a in atoms_:
            m = norm.any_match([f"{u}.operation is not $x", f"{u}.operation != $x", f"{u}.operation.parent_op() is $x", f"{u}.operation is $x"], a)
            if m is None:
                bad.append(ast.unparse(a)[:80])
                continue
            # the excluded op is one created here from the old value
            if norm.any_match([f"{u}.operation is not $x", f"{u}.operation != $x"], a) is not None:
                x = fl.cone(m["x"], s, inline=0)
                tgt = ast.unparse(norm.primary(s.expand(call.func.value)))  # type: ignore[attr-defined]
                made_here = any(isinstance(c, ast.Call) and callee_name(c) in ("DivUIOp", "RemUIOp", "MuliOp", "AddiOp", "SubiOp")
                                and any(ast.unparse(norm.primary(s.expand(a_))) == tgt or tgt in ast.unparse(fl.cone(a_, s, inline=0)) for a_ in c.args) for c in ast.walk(x))
                if not made_here:
                    bad.append(ast.unparse(a)[:80] + " (not an op built here from the replaced value)")
        chk.result(not bad, rule, f"{f.key}:exclusion@{call.lineno}", s.where(),
                   "only the op(s) just built from the old induction value keep reading it (excluded by identity)",
                   f"uses are kept on the old induction value under `{bad}`: ops of that kind that already existed (e.g. the div/rem left by an earlier merge in a "
                   "depth-3 nest) keep reading the raw merged counter")


def _floor_divs_unsafe(e: ast.AST, site: Site) -> list[str]:
    """floor divisions in `e` that are neither in a ceiling form nor covered by a divisibility fact"""
    out = []
    parents: dict[int, ast.AST] = {}
    for n in ast.walk(e):
        for c in ast.iter_child_nodes(n):
            parents[id(c)] = n
    for n in ast.walk(e):
        if not (isinstance(n, ast.BinOp) and isinstance(n.op, ast.FloorDiv)):
            continue
        a, b = n.left, n.right
        p = parents.get(id(n))
        # -(-a // b)
        if isinstance(p, ast.UnaryOp) and isinstance(p.op, ast.USub) and isinstance(a, ast.UnaryOp) and isinstance(a.op, ast.USub):
            continue
        # (a + b - 1) // b   /  (a + (b - 1)) // b
        bt = ast.unparse(b)
        at = ast.unparse(a).replace(" ", "")
        btn = bt.replace(" ", "")
        if any(pat in at for pat in (f"+{btn}-1", f"+({btn}-1)", f"{btn}-1+", f"-1+{btn}")):
            continue
        # divisibility fact a % b == 0
        if has_fact(site, ["$a % $b == 0", "not $a % $b"], {"a": a, "b": b}):
            continue
        out.append(ast.unparse(n))
    return out


def run(repo: Repo, chk: Check) -> None:
    chk.explanation = (
        "Guard dominance (F2), floor-division classification (F4) and dependency obligations (F3) on the "
        "rewrite patterns ChangeForStep, MergeForLoops, LoopHoistPureOperations and MoveMemrefDims: every IR "
        "mutation of each pattern must be dominated by the preconditions under which the rewrite preserves "
        "the executed operation sequence, and the values it constructs (trip count, induction values, merged "
        "bound) must be computed from the right operands. Decides these structural clauses, not the "
        "operation sequence itself."
    )
    change_for_step(repo, chk)
    merge_for_loops(repo, chk)
    hoist(repo, chk)
    dims(repo, chk)
    dim_sources(repo, chk)
    dim_operand(repo, chk)
    subview_rank(repo, chk)
    block_arguments(repo, chk)
    helper_captures(repo, chk)


# --------------------------------------------------------------------------- ChangeForStep
def change_for_step(repo: Repo, chk: Check) -> None:
    f, fl = flow_of(repo, chk, CANON, "ChangeForStep.match_and_rewrite")
    op = op_param(f)
    rw = rewriter_param(f)
    sites = mutation_sites(fl, rw)
    chk.rule(
        "C17.step-guards",
        "ChangeForStep mutates only under: no iter_args (the new loop is built without any) and lb == 0 "
        "(the new induction value is step * new_iv, without lb)",
        floor=4,
    )
    require_guards(
        chk,
        "C17.step-guards",
        f,
        sites,
        [
            ("no-iter-args", g("len($op.iter_args) == 0", "not $op.iter_args", "$op.iter_args == ()", op=op)),
            ("lb==0", _cmp_on("$op.lb", "==", 0, op=op)),
        ],
    )
    # trip count: the upper bound handed to the new loop
    chk.rule(
        "C17.trip-count",
        "a floor division producing the new trip count must be a ceiling form or be dominated by the "
        "divisibility fact on the same operands",
        floor=1,
    )
    chk.rule(
        "C17.step-iv",
        "the old induction variable is replaced by MuliOp(step, new iv) of the new loop",
        floor=1,
    )
    for_calls = [s for s in fl.calls("ForOp") if s.reachable]
    if not for_calls:
        raise AnalysisError(f"{f.where}: no ForOp construction found")
    for s in for_calls:
        call = s.node
        assert isinstance(call, ast.Call)
        if len(call.args) < 3:
            raise AnalysisError(f"{s.where()}: ForOp(...) with fewer than 3 positional arguments")
        ub = fl.cone(call.args[1], s)
        unsafe = _floor_divs_unsafe(ub, s)
        divs = [n for n in ast.walk(ub) if isinstance(n, ast.BinOp) and isinstance(n.op, (ast.FloorDiv, ast.Div))]
        key = f"{f.key}:new-ub"
        if not divs and not depends_on(ub, "ceil($_)", "math.ceil($_)"):
            raise AnalysisError(f"{s.where()}: cannot find how the new upper bound is computed: {ast.unparse(ub)[:120]}")
        chk.result(
            not unsafe,
            "C17.trip-count",
            key,
            s.where(),
            f"new upper bound {ast.unparse(ub)[:100]} keeps a partial last iteration",
            f"new trip count uses an unguarded floor division {unsafe}: iterations are lost when ub is not a multiple of step",
            s.fact_texts,
        )
        # index values are 64-bit integers: `ub / step` is a float quotient, rounded to 53 bits before any ceil()
        true_divs = [ast.unparse(n)[:60] for n in ast.walk(ub) if isinstance(n, ast.BinOp) and isinstance(n.op, ast.Div)] + [
            ast.unparse(n)[:60] for n in ast.walk(ub) if isinstance(n, ast.Call) and callee_name(n) == "float"]
        chk.result(
            not true_divs,
            "C17.trip-count",
            f"{f.key}:new-ub-exact",
            s.where(),
            "the new trip count is computed in integer arithmetic",
            f"the new trip count goes through a floating-point quotient {true_divs}: for bounds from 2**53 on the quotient is rounded and the last iteration(s) "
            "are dropped (ub = 2**53 + 1, step 2)",
        )
        chk.result(
            depends_on(ub, "$op.ub", binds={"op": op}) and depends_on(ub, "$op.step", binds={"op": op}),
            "C17.trip-count",
            f"{f.key}:new-ub-operands",
            s.where(),
            "new upper bound is computed from op.ub and op.step",
        )
    # induction value
    repl = [s for s in fl.calls("replace_uses_with_if", "replace_all_uses_with", "replace_by", "replace_by_if") if s.reachable]
    found = False
    for s in repl:
        call = s.node
        assert isinstance(call, ast.Call) and isinstance(call.func, ast.Attribute)
        target = fl.cone(call.func.value, s)
        if not depends_on(target, "$_.body.block.args[0]"):
            continue
        found = True
        val = fl.cone(call.args[0], s)
        muls = subexprs(val, "MuliOp($a, $b)") + subexprs(val, "arith.MuliOp($a, $b)")
        good = False
        for _, m in muls:
            for p_, q_ in ((m["a"], m["b"]), (m["b"], m["a"])):
                is_step = norm.match(T("$op.step"), norm.primary(p_), {"op": op}) is not None or (
                    depends_on(p_, "$op.step", binds={"op": op}) and not depends_on(p_, "$_.body.block.args[0]")
                    and not depends_on(p_, "$op.ub", binds={"op": op}) and not depends_on(p_, "$op.lb", binds={"op": op})
                )
                is_iv = norm.match(T("$_.body.block.args[0]"), norm.primary(q_)) is not None
                good = good or (is_step and is_iv)
        chk.result(
            good,
            "C17.step-iv",
            f"{f.key}:iv",
            s.where(),
            "uses of the induction variable are redirected to MuliOp(op.step, new iv)",
            f"induction variable replaced by {ast.unparse(val)[:120]}, expected MuliOp of op.step and the new induction variable",
        )
    if not found:
        raise AnalysisError(f"{f.where}: replacement of the induction variable not found")
    _exclusion_predicates(chk, "C17.step-iv", f, fl)


# --------------------------------------------------------------------------- MergeForLoops
_PARENT_BODY = re.compile(
    r"\.parent_op\(\)\.(body|regions)\b|\b{op}\.(prev_op|next_op)\b|\.parent_block\(\)\.(ops|first_op|last_op)\b|\.parent\.(ops|first_op|last_op)\b|\.parent_op\(\)\.walk\("
)


def merge_for_loops(repo: Repo, chk: Check) -> None:
    f, fl = flow_of(repo, chk, CANON, "MergeForLoops.match_and_rewrite")
    op = op_param(f)
    rw = rewriter_param(f)
    sites = mutation_sites(fl, rw)
    chk.rule(
        "C17.merge-guards",
        "MergeForLoops mutates only under: parent is scf.ForOp; both lower bounds 0; both steps 1; both upper bounds non-negative",
        floor=8,
    )
    parent = "$op.parent_op()"
    require_guards(
        chk,
        "C17.merge-guards",
        f,
        sites,
        [
            ("parent-is-for", g("isinstance($op.parent_op(), ForOp)", "isinstance($op.parent_op(), scf.ForOp)",
                                "isinstance($op.parent, ForOp)", op=op)),
            ("lb==0", _cmp_on("$op.lb", "==", 0, op=op)),
            ("step==1", _cmp_on("$op.step", "==", 1, op=op)),
            ("parent-lb==0", _cmp_on(parent + ".lb", "==", 0, op=op)),
            ("parent-step==1", _cmp_on(parent + ".step", "==", 1, op=op)),
            # the merged trip count is the PRODUCT of the two upper bounds: a negative bound means no iteration, the product of two of them means some
            ("ub>=0", _ge0_on("$op.ub", op=op)),
            ("parent-ub>=0", _ge0_on(parent + ".ub", op=op)),
        ],
    )
    chk.rule("C17.merge-values", "new ub = ub * ub_parent; outer iv = k divui ub_inner; inner iv = k remui ub_inner (same constant)", floor=3)
    # merged upper bound
    for_calls = [s for s in fl.calls("ForOp") if s.reachable]
    if not for_calls:
        raise AnalysisError(f"{f.where}: no ForOp construction found")
    for s in for_calls:
        call = s.node
        assert isinstance(call, ast.Call)
        ub = fl.cone(call.args[1], s)
        ok = False
        for n, m in subexprs(ub, "$a * $b"):
            a, b = m["a"], m["b"]
            inner = lambda x: depends_on(x, "$op.ub", binds={"op": op}) and not depends_on(x, parent + ".ub", binds={"op": op})
            outer = lambda x: depends_on(x, parent + ".ub", binds={"op": op})
            if (inner(a) and outer(b)) or (inner(b) and outer(a)):
                ok = True
        chk.result(ok, "C17.merge-values", f"{f.key}:merged-ub", s.where(),
                   "merged loop runs ub * ub_parent iterations",
                   f"merged upper bound is {ast.unparse(ub)[:120]}, expected the product of both upper bounds")
    # induction values
    repl = [s for s in fl.calls("replace_uses_with_if", "replace_all_uses_with", "replace_by") if s.reachable]
    seen_outer = seen_inner = False
    for s in repl:
        call = s.node
        assert isinstance(call, ast.Call) and isinstance(call.func, ast.Attribute)
        target = fl.cone(call.func.value, s)
        val = fl.cone(call.args[0], s)
        is_inner_iv = bool(norm.match(T("$op.body.block.args[0]"), target, {"op": op}))
        is_outer_iv = (not is_inner_iv) and depends_on(target, "$_.body.block.args[0]")
        if not (is_inner_iv or is_outer_iv):
            continue

        def divisor_is_inner_ub(m: dict) -> bool:
            d = m["b"]
            return depends_on(d, "$op.ub", binds={"op": op}) and not depends_on(d, parent + ".ub", binds={"op": op})

        if is_outer_iv:
            seen_outer = True
            ms = [m for _, m in subexprs(val, "DivUIOp($a, $b)") + subexprs(val, "arith.DivUIOp($a, $b)")]
            rem = subexprs(val, "RemUIOp($a, $b)") + subexprs(val, "arith.RemUIOp($a, $b)")
            good = bool(ms) and all(divisor_is_inner_ub(m) for m in ms) and not rem
            chk.result(good, "C17.merge-values", f"{f.key}:outer-iv", s.where(),
                       "outer induction value = k divui ub_inner",
                       f"outer induction variable replaced by {ast.unparse(val)[:140]}; expected DivUIOp(k, const(ub of the inner loop))")
        else:
            seen_inner = True
            ms = [m for _, m in subexprs(val, "RemUIOp($a, $b)") + subexprs(val, "arith.RemUIOp($a, $b)")]
            div = subexprs(val, "DivUIOp($a, $b)") + subexprs(val, "arith.DivUIOp($a, $b)")
            good = bool(ms) and all(divisor_is_inner_ub(m) for m in ms) and not div
            chk.result(good, "C17.merge-values", f"{f.key}:inner-iv", s.where(),
                       "inner induction value = k remui ub_inner",
                       f"inner induction variable replaced by {ast.unparse(val)[:140]}; expected RemUIOp(k, const(ub of the inner loop))")
    if not (seen_outer and seen_inner):
        raise AnalysisError(f"{f.where}: replacement of the two induction variables not found")
    _exclusion_predicates(chk, "C17.merge-values", f, fl)
    # perfect nest
    chk.rule(
        "C17.perfect-nest",
        "merging is only sound when the inner loop is the only non-terminator op of the parent body: the pattern's "
        "decision must depend on the other ops of the parent body (prev_op/next_op of the loop, the parent's "
        "block ops, a walk of the parent)",
        floor=1,
    )
    rx = re.compile(_PARENT_BODY.pattern.replace("{op}", re.escape(op)))
    first = next((s for s, _ in sites if s.reachable), None)
    if first is None:
        raise AnalysisError(f"{f.where}: no reachable mutation site")
    reads = [t for t in first.fact_texts if rx.search(t)]
    chk.result(
        bool(reads),
        "C17.perfect-nest",
        f"{f.key}:perfect-nest",
        first.where(),
        f"decision depends on the parent body: {reads[:2]}",
        "no guard of the pattern reads the other operations of the parent loop body: an imperfect nest is merged and "
        "ops of the outer body execute ub_inner times too often",
        first.fact_texts,
    )


# --------------------------------------------------------------------------- hoisting
def hoist(repo: Repo, chk: Check) -> None:
    f, fl = flow_of(repo, chk, REUSE, "LoopHoistPureOperations.match_and_rewrite", inline_depth=2)
    op = op_param(f)
    rw = rewriter_param(f)
    sites = mutation_sites(fl, rw)
    chk.rule(
        "C17.hoist",
        "LoopHoistPureOperations moves an op only under: in a loop, all operands defined outside that loop, "
        "(Pure trait or whitelisted), not a yield; the target is before the enclosing for",
        floor=8,
    )
    require_guards(
        chk,
        "C17.hoist",
        f,
        sites,
        [
            ("in-loop", g("is_in_loop($op)", "find_parent_for_loop($op) is not None", op=op)),
            ("operands-outside", g("defined_outside_loop($op)", op=op)),
            ("pure-or-whitelisted", g("Pure() in $op.traits or $_", "$op.has_trait(Pure) or $_", "is_side_effect_free($op) or $_", op=op)),
            ("not-yield", g("not isinstance($op, scf.YieldOp)", "not isinstance($op, YieldOp)", op=op)),
        ],
    )
    for s in fl.calls("insert_op"):
        call = s.node
        assert isinstance(call, ast.Call)
        if len(call.args) < 2:
            continue
        ip = fl.cone(call.args[1], s)
        chk.result(
            depends_on(ip, "InsertPoint.before(find_parent_for_loop($op))", binds={"op": op})
            or any(depends_on(m["x"], "find_parent_for_loop($op)", binds={"op": op}) for _, m in subexprs(ip, "InsertPoint.before($x)")),
            "C17.hoist",
            f"{f.key}:target",
            s.where(),
            "the op is re-inserted before its enclosing for loop",
            f"hoisted op is inserted at {ast.unparse(ip)[:100]}, expected InsertPoint.before(enclosing for)",
        )
    # the helper predicates themselves
    d = repo.func(REUSE, "defined_outside_loop")
    chk.analysed(d.key)
    dfl = Flow(d, repo)
    p = d.param(0)
    rets = [s for s in dfl.stmts(ast.Return) if s.reachable and isinstance(s.node.value, ast.Constant) and s.node.value.value is True]
    if not rets:
        raise AnalysisError(f"{d.where}: no `return True`")
    for s in rets:
        q1 = has_forall(s, ["not isinstance($v.owner, Block)"], lambda dom: norm.contains(dom, T(f"{p}.operands")))
        q2 = has_forall(
            s,
            ["find_parent_for_loop($v.owner) is not find_parent_for_loop($p)", "find_parent_for_loop($v.owner) != find_parent_for_loop($p)"],
            lambda dom: norm.contains(dom, T(f"{p}.operands")),
        )
        # $p is matched as a free hole; make sure it is the parameter
        chk.result(bool(q1 and q2), "C17.hoist", f"{d.key}:all-operands", s.where(),
                   "defined_outside_loop returns True only if every operand is neither a block argument nor defined in the same loop",
                   "defined_outside_loop can return True although an operand is a block argument / defined inside the loop",
                   s.fact_texts)


def dims(repo: Repo, chk: Check) -> None:
    f, fl = flow_of(repo, chk, REUSE, "MoveMemrefDims.match_and_rewrite", inline_depth=2)
    op = op_param(f)
    rw = rewriter_param(f)
    sites = mutation_sites(fl, rw)
    chk.rule(
        "C17.dims",
        "MoveMemrefDims mutates only under can_move_dim: in a loop, constant index, users are alloc/subview only, "
        "dimension derivable outside the loop",
        floor=8,
    )
    require_guards(
        chk,
        "C17.dims",
        f,
        sites,
        [
            ("in-loop", g("is_in_loop($op)", op=op)),
            ("const-index", g("isinstance($op.index.owner, arith.ConstantOp)", "isinstance($op.index.owner, ConstantOp)", op=op)),
            ("users-alloc-or-subview", g("not used_by_neither_alloc_nor_subview($op)", op=op)),
            ("derivable-outside", g("dimension_outside_loop($op)", op=op)),
        ],
    )


def dim_sources(repo: Repo, chk: Check) -> None:
    chk.rule(
        "C17.dim-sources",
        "a dynamic subview size is accepted as derivable outside the loop only if it is a static integer, or produced by an arith.constant, an "
        "affine.min or a memref.dim that is itself derivable (single-result, effect-free producers whose result #0 is the size): the hoisting "
        "code re-uses `results[0]` of the producer and moves it, which is wrong for any other kind of op",
        floor=3,
    )
    outer = repo.func(REUSE, "MoveMemrefDims.match_and_rewrite")
    h = outer.nested("memref_op_outside_loop")
    chk.analysed(h.key)
    hfl = Flow(h, repo)
    allowed = ["isinstance($x, Block)", "isinstance($x, int)", "isinstance($x, arith.ConstantOp)", "isinstance($x, ConstantOp)", "isinstance($x, affine.MinOp)",
               "isinstance($x, MinOp)", "isinstance($x, memref.DimOp)", "isinstance($x, DimOp)",
               "isinstance($x, (affine.MinOp, arith.ConstantOp))", "isinstance($x, (arith.ConstantOp, affine.MinOp))"]

    def kind_fact(e: ast.expr) -> bool:
        e = norm.primary(e)
        if isinstance(e, ast.BoolOp) and isinstance(e.op, ast.Or):
            return all(kind_fact(v) for v in e.values)
        return norm.any_match(allowed, e) is not None

    rets = [s for s in hfl.stmts(ast.Return) if s.reachable and s.node.value is not None and not (isinstance(s.node.value, ast.Constant) and s.node.value.value is False)]
    if not rets:
        raise AnalysisError(f"{h.where}: no accepting return")
    for n_, s in enumerate(rets, 1):
        # `return <test>` accepts exactly when the test holds: its conjuncts are facts of the accepting outcome
        extra = []
        if not (isinstance(s.node.value, ast.Constant) and s.node.value.value is True):
            v_ = norm.canon(s.expand(s.node.value))
            conj = v_.values if isinstance(v_, ast.BoolOp) and isinstance(v_.op, ast.And) else [v_]
            extra = [c_ for c_ in conj if isinstance(c_, (ast.Call, ast.Compare, ast.BoolOp, ast.UnaryOp))]
        ok = all(any(fa.kind == "atom" and kind_fact(fa.expr) and "SubviewOp" not in fa.text for fa in alt.facts.values())
                 or any(kind_fact(c_) and "SubviewOp" not in ast.unparse(c_) for c_ in extra) for alt in s.state.alts) and bool(s.state.alts)
        chk.result(ok, "C17.dim-sources", f"{h.key}:accept#{n_}", s.where(),
                   "a size is accepted only for the producer kinds the hoisting code can reproduce",
                   f"`return {ast.unparse(s.node.value)[:70]}` accepts a size whose producer is of no particular kind: a multi-result op's result #1 is replaced by "
                   "its result #0 (alloc(%tm, %tm) instead of alloc(%tm, %tn)), and a side-effecting producer is moved past the ops that follow it", s.fact_texts)


_RANK_L = ["$s.result.type.get_num_dims()", "len($s.result.type.get_shape())", "len($s.result.type.shape)", "len($s.result.type.shape.data)"]
_RANK_R = ["len($s.static_sizes.get_values())", "len($s.static_sizes)", "len($s.static_sizes.data)", "$s.source.type.get_num_dims()", "len($s.source.type.get_shape())",
           "len($s.source.type.shape)", "len($s.static_offsets.get_values())", "len($s.static_strides.get_values())"]


def _rank_fact(site: Site, facts=None) -> bool:
    """the subview is known to keep its rank here: (rank of the result) == (number of size entries / rank of the source)"""
    for fa in (site.facts if facts is None else facts):
        if fa.kind != "atom" or not isinstance(fa.expr, ast.Compare) or len(fa.expr.ops) != 1:
            continue
        # a result never has more dimensions than there are sizes: rank >= #sizes says the same as rank == #sizes
        o_ = fa.expr.ops[0]
        pairs = [(fa.expr.left, fa.expr.comparators[0]), (fa.expr.comparators[0], fa.expr.left)] if isinstance(o_, ast.Eq) else \
            [(fa.expr.left, fa.expr.comparators[0])] if isinstance(o_, ast.GtE) else [(fa.expr.comparators[0], fa.expr.left)] if isinstance(o_, ast.LtE) else []
        for a_, b_ in pairs:
            ml = norm.any_match(_RANK_L, a_)
            mr = norm.any_match(_RANK_R, b_)
            if ml is not None and mr is not None and ast.unparse(ml["s"]) == ast.unparse(mr["s"]):
                return True
    return False


def subview_rank(repo: Repo, chk: Check) -> None:
    """dimension i of a subview's result is entry i of its sizes only when the subview keeps its rank: a rank-reducing subview
    drops unit entries, and which ones is not determined by the sizes alone"""
    outer = repo.func(REUSE, "MoveMemrefDims.match_and_rewrite")
    chk.rule(
        "C17.subview-rank",
        "the sizes of a subview are indexed with a dimension index of its result only for subviews known to keep their rank (a rank comparison "
        "dominates the lookup in the predicate that gates the rewrite), or through a mapping onto the kept entries that is guarded against kept "
        "unit dimensions; otherwise a memref.dim behind a dropped dimension is replaced by the size of another dimension",
        floor=1,
    )
    gs = outer.nested("get_subview_dim")
    gfl = Flow(gs, repo)
    chk.analysed(gs.key)
    idx = gs.param(1)
    reads: list[tuple[Site, ast.Subscript]] = []
    for s in gfl.sites:
        if not s.reachable or s.node is not s.stmt:
            continue
        own = [x for f_, x in ast.iter_fields(s.node) if f_ not in ("body", "orelse", "finalbody", "handlers")]
        for part in own:
            for x in (part if isinstance(part, list) else [part]):
                if not isinstance(x, ast.AST):
                    continue
                for sub in ast.walk(x):
                    if isinstance(sub, ast.Subscript) and isinstance(sub.ctx, ast.Load):
                        base = norm.primary(s.expand(sub.value))
                        if norm.any_match(["$s.static_sizes.get_values()", "$s.static_sizes", "list($s.static_sizes.get_values())"], base) is not None:
                            reads.append((s, sub))
    if not reads:
        raise AnalysisError(f"{gs.where}: no read of the subview's static sizes found")
    from sa.flow import expand as _expand

    direct, mapped_unguarded, inner_guard = [], [], True
    for s, sub in reads:
        for alt in s.state.alts:
            i = norm.primary(_expand(sub.slice, {k: v for k, v in alt.env.items() if k not in s.shadow}))
            facts = list(alt.facts.values())
            names = norm.free_names(i)
            if idx not in names:
                continue  # e.g. the loop that counts the dynamic entries in front of the dimension
            if isinstance(i, ast.Name) and i.id == idx:
                direct.append(s)
                inner_guard = inner_guard and _rank_fact(s, facts)
                continue
            # index -> position among the entries that are kept
            kept = [c for c in ast.walk(i) if isinstance(c, (ast.ListComp, ast.GeneratorExp)) and c.generators and c.generators[0].ifs]
            if not kept:
                raise AnalysisError(f"{s.where()}: the sizes are indexed with `{ast.unparse(i)[:80]}`, a mapping of the dimension index that is not recognised")
            # the mapping drops every entry its filter rejects; that is only the subview's behaviour if as many entries survive as the result has dimensions
            counted = any(fa.kind == "atom" and isinstance(fa.expr, ast.Compare) and any(norm.any_match(_RANK_L, x) is not None for x in [fa.expr.left, *fa.expr.comparators])
                          and any(isinstance(c, ast.Call) and callee_name(c) in ("len", "sum") and any(isinstance(y, (ast.ListComp, ast.GeneratorExp)) for y in ast.walk(c))
                                  for x in [fa.expr.left, *fa.expr.comparators] for c in ast.walk(x))
                          and isinstance(fa.expr.ops[0], ast.Eq) for fa in facts)
            if not counted:
                mapped_unguarded.append((s, i))
    if not direct and not mapped_unguarded and not any(idx in norm.free_names(norm.primary(s.expand(sub.slice))) for s, sub in reads):
        raise AnalysisError(f"{gs.where}: the static sizes are never indexed with the requested dimension")
    for s, i in mapped_unguarded:
        chk.bad("C17.subview-rank", f"{gs.key}:mapping", s.where(),
                f"the dimension index is mapped onto the entries selected by `{ast.unparse(i)[:100]}` without checking that as many entries "
                "survive as the result has dimensions: a rank-reducing subview may keep unit dimensions (sizes [1, 1, %n] -> memref<1x?>), and the dim is then resolved to another dimension's size")
    if direct and not inner_guard:
        # the lookup itself is unguarded: every path that reaches it must have established that the rank is kept
        gate = outer.nested("memref_op_outside_loop")
        tfl = Flow(gate, repo)
        chk.analysed(gate.key)
        calls = [s for s in tfl.calls(gs.name) if s.reachable]
        if not calls:
            raise AnalysisError(f"{gate.where}: {gs.name} is not consulted by the predicate that gates the rewrite")
        for n_, s in enumerate(calls, 1):
            chk.result(_rank_fact(s), "C17.subview-rank", f"{gate.key}:rank-kept#{n_}", s.where(),
                       "the size lookup by result dimension is only reached for subviews whose result has as many dimensions as there are sizes",
                       f"static_sizes[{idx}] is read with the dimension index of the subview's result for any subview: for a rank-reducing one (sizes [1, %n] -> memref<?>) "
                       "dim 0 resolves to the constant 1 instead of %n and the hoisted alloc gets the wrong shape", s.fact_texts)
    elif direct:
        chk.ok("C17.subview-rank", f"{gs.key}:rank-kept", direct[0].where(), "the size lookup is guarded by a rank comparison in place")
    elif not mapped_unguarded:
        chk.ok("C17.subview-rank", f"{gs.key}:mapping", reads[0][0].where(), "the dimension index is mapped onto the kept entries under a count check")


def block_arguments(repo: Repo, chk: Check) -> None:
    """a memref that is a block argument is available in front of the loop only if its block encloses the loop (a function argument); the loop's own
    arguments (induction variable, iter_args) and arguments of blocks inside the loop are defined by the loop"""
    outer = repo.func(REUSE, "MoveMemrefDims.match_and_rewrite")
    gate = outer.nested("memref_op_outside_loop")
    chk.analysed(gate.key)
    chk.rule("C17.block-args", "MoveMemrefDims accepts the dim of a block-argument memref only after relating the argument's block to the loop the dim sits in "
             "(an iter_arg of that loop changes per iteration and is not defined in front of it)", floor=1)
    tfl = Flow(gate, repo)
    m = gate.param(0)
    rets = [s for s in tfl.stmts(ast.Return) if s.reachable and s.node.value is not None and has_fact(s, ["isinstance($m, Block)"], {"m": m})]
    if not rets:
        raise AnalysisError(f"{gate.where}: the block-argument case of memref_op_outside_loop was not found")
    for n_, s in enumerate(rets, 1):
        v = tfl.cone(s.node.value, s, inline=0)
        related = norm.contains(v, T("find_parent_for_loop($d)")) or any(norm.contains(fa.expr, T("find_parent_for_loop($d)")) for fa in s.facts if fa.kind == "atom")
        accepts = not (isinstance(s.node.value, ast.Constant) and s.node.value.value is False)
        if not accepts:
            chk.ok("C17.block-args", f"{gate.key}:block#{n_}", s.where(), "block arguments are refused on this path")
            continue
        chk.result(related, "C17.block-args", f"{gate.key}:block#{n_}", s.where(), "the argument's block is related to the loop of the dim before it is accepted",
                   "every block-argument memref is taken for a function input: the dim of a loop iter_arg is re-created in front of the loop from the loop's own block "
                   "argument (use before definition, and the size of the first iteration for all)", s.fact_texts)


def dim_operand(repo: Repo, chk: Check) -> None:
    """`memref.subview` keeps only the *dynamic* sizes as operands: the operand holding the size of
    dimension i is found by counting the dynamic entries before i, never by i itself."""
    outer = repo.func(REUSE, "MoveMemrefDims.match_and_rewrite")
    f = outer.nested("get_subview_dim")
    chk.analysed(f.key)
    fl = Flow(f, repo)
    chk.rule(
        "C17.dim-operand",
        "the size operand of a subview dimension is selected by the number of dynamic static_sizes entries "
        "preceding the dimension (dependency on a DYNAMIC_INDEX test), not by the dimension index itself",
        floor=1,
    )
    idx_param = f.param(1)
    n = 0
    for s in fl.stmts(ast.Return):
        v = s.node.value
        if v is None:
            continue
        cone = fl.cone(v, s)
        for sub, m in subexprs(cone, "$s.sizes[$i]"):
            n += 1
            i = m["i"]
            counts_dynamic = depends_on(i, "$_ == DYNAMIC_INDEX", "$_ != DYNAMIC_INDEX", "$_.count(DYNAMIC_INDEX)",
                                        "$_ is DYNAMIC_INDEX", "$_ == memref.DYNAMIC_INDEX")
            chk.result(
                counts_dynamic,
                "C17.dim-operand",
                f"{f.key}:sizes-index",
                s.where(),
                "dynamic size operand selected by counting preceding dynamic entries",
                f"subview.sizes is indexed with {ast.unparse(m['i'])[:80]} which does not depend on which static sizes are dynamic "
                f"(the operand list only holds the dynamic sizes)",
            )
    if n == 0:
        raise AnalysisError(f"{f.where}: no `<subview>.sizes[...]` return found")


# --------------------------------------------------------------------------- per-op helpers work on their own argument
def helper_captures(repo: Repo, chk: Check) -> None:
    chk.rule(
        "C17.helper-argument",
        "a nested helper of MoveMemrefDims that takes an op of the matched op's type as its parameter (it is also called on other ops of that "
        "type, e.g. the dims that size a subview) derives its result from that parameter and never reads the enclosing pattern's matched op",
        floor=3,
    )
    outer = repo.func(REUSE, "MoveMemrefDims.match_and_rewrite")
    a = outer.node.args
    params = [*a.posonlyargs, *a.args]
    if len(params) < 2 or params[1].annotation is None:
        raise AnalysisError(f"{outer.where}: matched-op parameter without annotation")
    matched, ann = params[1].arg, ast.unparse(params[1].annotation)
    n = 0
    for node in outer.node.body:
        if not isinstance(node, ast.FunctionDef):
            continue
        own = [x for x in [*node.args.posonlyargs, *node.args.args] if x.annotation is not None and ast.unparse(x.annotation) == ann]
        if not own:
            continue
        n += 1
        shadow = any(x.arg == matched for x in [*node.args.posonlyargs, *node.args.args])
        # names re-bound inside the helper do not count as reads of the outer variable
        rebound = {t.id for t in ast.walk(node) if isinstance(t, ast.Name) and isinstance(t.ctx, ast.Store)}
        reads = [t for t in ast.walk(node) if isinstance(t, ast.Name) and isinstance(t.ctx, ast.Load) and t.id == matched]
        stale = [] if (shadow or matched in rebound) else reads
        chk.result(not stale, "C17.helper-argument", f"{outer.key}.<locals>.{node.name}", f"{outer.module.relpath}:{stale[0].lineno if stale else node.lineno}",
                   f"{node.name}({own[0].arg}) works on its own argument",
                   f"{node.name}({own[0].arg}: {ann}) reads the enclosing pattern's matched op `{matched}` (line {stale[0].lineno if stale else 0}): when the helper is called on another "
                   f"{ann} (recursively, for the dims that size a subview) it mixes that op with the matched one")
    if n == 0:
        raise AnalysisError(f"{outer.where}: no nested helper taking a {ann}")

"""C16 — returned schedules fit the accelerator template (DESIGN.md section 5, C16)."""

from __future__ import annotations

import ast

from sa import norm
from sa.errors import AnalysisError
from sa.flow import Flow, Site, expand
from sa.model import Repo
from sa.norm import T
from sa.report import Check

from .common import callee_name, depends_on, flow_of, has_fact, subexprs

AP = "snaxc/ir/dart/access_pattern.py"
SCHED = "snaxc/ir/dart/scheduler.py"
PASS = "snaxc/transforms/dart/dart_scheduler.py"


def run(repo: Repo, chk: Check) -> None:
    chk.explanation = (
        "Must-pass-through / guard-dominance rules on the backtracking scheduler: a candidate survives (is passed to "
        "the recursive call) only after template.matches and all extra checks succeeded on the current rotation, and "
        "only if the template dimension is unbounded, the schedule bound does not exceed the template bound, or the "
        "candidate was tiled by exactly the template bound; schedules are yielded only when all dimensions were "
        "handled; Template.matches rejects arity mismatches and requires every pair to match, TemplatePattern.matches "
        "compares like-shaped slices; the memory-granularity check requires one operand dimension that is both "
        "unrolled and bank-aligned; the pass passes both constraints. Decides these clauses, not the SVD arithmetic."
    )
    accept_path(repo, chk)
    template_arity(repo, chk)
    pattern_matches(repo, chk)
    template_rows(repo, chk)
    parallel_columns(repo, chk)
    flexibility(repo, chk)
    wiring(repo, chk)
    select(repo, chk)
    tile_inserts(repo, chk)
    no_stale_verdicts(repo, chk)


def tile_inserts(repo: Repo, chk: Check) -> None:
    """scheduler_backtrack counts dimensions: after `tile_dim(num_dims - k, bound)` the tiled loop sits at position -k with the template's bound and
    the recursion goes on with k + 1. A tile_dim that returns the pattern unchanged for some tile size leaves a loop larger than the template
    bound at a template position."""
    chk.rule("C16.tile-inserts", "SchedulePattern.tile_dim inserts a dimension on every path: no return hands back the pattern itself", floor=1)
    f, fl = flow_of(repo, chk, AP, "SchedulePattern.tile_dim")
    rets = [s for s in fl.stmts(ast.Return) if s.reachable and s.node.value is not None]
    if not rets:
        raise AnalysisError(f"{f.where}: no return")
    for n_, s in enumerate(rets, 1):
        v = norm.primary(s.expand(s.node.value))
        if isinstance(v, ast.Name) and v.id == "self":
            chk.bad("C16.tile-inserts", f"{f.key}:return#{n_}", s.where(),
                    f"tile_dim returns the pattern unchanged when {[t for t in s.fact_texts if t != 'True'][-2:]}: the scheduler goes on as if the tile loop had been inserted, "
                    "so a loop with a bound above the template's stays at a template position", s.fact_texts)
        elif isinstance(v, ast.Call) and len(v.args) >= 2:
            chk.ok("C16.tile-inserts", f"{f.key}:return#{n_}", s.where(), "a new pattern is constructed")
        else:
            raise AnalysisError(f"{s.where()}: what tile_dim returns is not recognised: `{ast.unparse(v)[:80]}`")


def no_stale_verdicts(repo: Repo, chk: Check) -> None:
    """the matcher and the scheduler are functions of their arguments: a verdict or schedule remembered from an earlier call may only be handed out
    for arguments that determine it"""
    from .common import memo_audit

    chk.rule("C16.no-stale-verdicts", "no function of the matcher / scheduler hands out a remembered result under a key that does not determine it "
             "(every argument the result depends on is in the key whole, arrays with their shape)", floor=1)
    n_f = 0
    for path in (AP, SCHED):
        m = repo.module(path)
        funcs = list(m.funcs.values()) + [fn for c in m.classes.values() for fn in c.methods.values()]
        for f in funcs:
            n_f += 1
            for cont, node, problems, unknown in memo_audit(f, repo):
                where = f"{m.relpath}:{getattr(node, 'lineno', 0)}"
                if problems:
                    chk.bad("C16.no-stale-verdicts", f"{f.key}:{cont}", where,
                            f"results remembered in `{cont}` are looked up by a key that does not determine them: {problems}; a later call with other arguments gets the earlier answer")
                elif unknown:
                    raise AnalysisError(f"{where}: cache `{cont}` of {f.qualname}: cannot tell whether the key determines the result ({unknown})")
                else:
                    chk.ok("C16.no-stale-verdicts", f"{f.key}:{cont}", where, f"`{cont}` is keyed by every argument the result depends on")
    chk.ok("C16.no-stale-verdicts", f"{AP}+{SCHED}:functions", AP, f"{n_f} functions inspected for remembered results", nontrivial=False)


def accept_path(repo: Repo, chk: Check) -> None:
    f, fl = flow_of(repo, chk, SCHED, "scheduler_backtrack")
    template, schedule, inner, checks = (f.param(i) for i in range(4))
    chk.rule(
        "C16.accept-path",
        "every path to the recursive `yield from` carries: template.inner_dims(k).matches(schedule.inner_dims(k)); all "
        "extra checks true on the same pair; and (template bound falsy | schedule bound <= template bound with the "
        "candidate untouched | candidate = tile_dim(.., template bound)); the recursion handles k+1 dims of the candidate",
        floor=5,
    )
    rec = [s for s in fl.sites if isinstance(s.node, ast.YieldFrom) and s.reachable]
    if not rec:
        raise AnalysisError(f"{f.where}: recursive `yield from` not found")
    for s in rec:
        call = s.node.value
        if not (isinstance(call, ast.Call) and callee_name(call) == f.name):
            continue
        key = f"{f.key}:recursion"
        sc = f"{schedule}.inner_dims({inner})"
        tc = f"{template}.inner_dims({inner})"
        m_ok = has_fact(s, ["$t.matches($s)"], {"t": tc, "s": sc})
        chk.result(bool(m_ok), "C16.accept-path", key + ":template-match", s.where(),
                   "candidate passed template.matches on the innermost dims of the current rotation",
                   "a candidate reaches the recursion without template.inner_dims(k).matches(schedule.inner_dims(k)) on the current rotation",
                   s.fact_texts)
        c_ok = None
        for fact in s.facts:
            if fact.kind != "atom":
                continue
            m = norm.match(T("all(($c($t, $s) for $c in $cs))"), fact.expr, {"t": tc, "s": sc, "cs": checks})
            if m is not None:
                c_ok = fact
        chk.result(c_ok is not None, "C16.accept-path", key + ":extra-checks", s.where(),
                   "all extra checks hold for the same (template, schedule) pair",
                   "a candidate reaches the recursion without `all(check(template_check, schedule_check) for check in extra_checks)`",
                   s.fact_texts)
        # bound handling, per path class
        if len(call.args) < 3:
            raise AnalysisError(f"{s.where()}: recursive call with fewer than 3 positional arguments")
        bad = None
        n_alt = 0
        for alt in s.state.alts:
            n_alt += 1
            cand = expand(call.args[1], alt.env)
            facts = [x for x in alt.facts.values() if x.kind == "atom"]
            tb_candidates = []
            # the template bound expression: the tile size in the tiled class, else from the facts
            ok = False
            mt = norm.match(T("$c.tile_dim($d, $tb)"), cand)
            if mt is not None:
                tb = mt["tb"]
                div = any(norm.any_match(["$b % $tb == 0"], x.expr, {"tb": tb}) is not None for x in facts)
                from_template = depends_on(tb, "$t[$_].bounds[$_]", binds={"t": template})
                ok = div and from_template and norm.match(T(schedule), mt["c"]) is not None
                if not ok:
                    bad = f"tiled candidate {ast.unparse(cand)[:100]}: tile size must be the template bound and divide the schedule bound"
            else:
                untouched = norm.match(T(schedule), cand) is not None
                le = any(
                    norm.any_match(["$sb <= $tb"], x.expr) is not None
                    and depends_on(norm.any_match(["$sb <= $tb"], x.expr)["tb"], "$t[$_].bounds[$_]", binds={"t": template})
                    and depends_on(norm.any_match(["$sb <= $tb"], x.expr)["sb"], "$s[$_].bounds[$_]", binds={"s": schedule})
                    for x in facts
                )
                unbounded = any(norm.is_not(x.expr) and depends_on(x.expr, "$t[$_].bounds[$_]", binds={"t": template}) for x in facts)

                def _is_le(e_: ast.expr) -> bool:
                    m_ = norm.any_match(["$sb <= $tb"], e_)
                    return m_ is not None and depends_on(m_["tb"], "$t[$_].bounds[$_]", binds={"t": template}) and depends_on(
                        m_["sb"], "$s[$_].bounds[$_]", binds={"s": schedule})

                def _is_unb(e_: ast.expr) -> bool:
                    return norm.is_not(e_) and depends_on(e_, "$t[$_].bounds[$_]", binds={"t": template})

                # one test for both classes: `not template_bound or schedule_bound <= template_bound`
                either = any(isinstance(norm.primary(x.expr), ast.BoolOp) and isinstance(norm.primary(x.expr).op, ast.Or) and all(
                    _is_le(d_) or _is_unb(d_) for d_ in norm.primary(x.expr).values) for x in facts)
                ok = untouched and (le or unbounded or either)
                if not ok:
                    bad = (f"untiled candidate {ast.unparse(cand)[:60]} reaches the recursion although neither `schedule bound <= template bound` "
                           "nor `template dimension unbounded` holds on that path")
        chk.result(bad is None and n_alt > 0, "C16.accept-path", key + ":bound-classes", s.where(),
                   f"all {n_alt} path classes are: unbounded template dim | bound <= template bound | tiled by the template bound",
                   bad or "no path class reaches the recursion")
        chk.result(norm.any_match(["$k + 1", "1 + $k"], call.args[2], {"k": inner}) is not None and ast.unparse(call.args[0]) == template,
                   "C16.accept-path", key + ":next-dim", s.where(), "the recursion continues with one more inner dimension and the same template")
        ec = next((k.value for k in call.keywords if k.arg == "extra_checks"), call.args[3] if len(call.args) > 3 else None)
        chk.result(ec is not None and ast.unparse(ec) == checks, "C16.accept-path", key + ":checks-propagated", s.where(),
                   "the extra checks are passed on to the recursion", "the recursive call drops the extra checks: deeper dimensions are unconstrained")
    # terminal yield
    term = [s for s in fl.sites if isinstance(s.node, ast.Yield) and s.reachable]
    if not term:
        raise AnalysisError(f"{f.where}: terminal `yield` not found")
    for s in term:
        chk.result(bool(has_fact(s, ["$k > $s.num_dims", "$s.num_dims < $k"], {"k": inner, "s": schedule})), "C16.accept-path",
                   f"{f.key}:terminal", s.where(), "a schedule is yielded only once all its dimensions were checked",
                   "a schedule is yielded before all its dimensions went through the template check", s.fact_texts)
    # the rotation: the schedule checked is the rotated one
    rots = [s for s in fl.stmts(ast.Assign) if s.reachable and isinstance(s.node.targets[0], ast.Name) and s.node.targets[0].id == schedule]
    chk.result(all(callee_name(s.node.value) == "rotate" for s in rots) and bool(rots), "C16.accept-path", f"{f.key}:only-rotations", f.where,
               "inside the search the schedule variable is only ever replaced by a rotation of itself")


def template_arity(repo: Repo, chk: Check) -> None:
    f, fl = flow_of(repo, chk, AP, "Template.matches")
    sched = f.param(1)
    chk.rule("C16.template-arity", "Template.matches rejects length mismatches and accepts only if every pattern pair matches", floor=2)
    rets = [s for s in fl.stmts(ast.Return) if s.reachable]
    trues = [s for s in rets if not (isinstance(s.node.value, ast.Constant) and s.node.value.value in (False, None))]
    if not trues:
        raise AnalysisError(f"{f.where}: no accepting return")
    for s in trues:
        arity = bool(has_fact(s, ["len($s) == len(self)", "len(self) == len($s)"], {"s": sched}))
        pairs = False
        for fact in s.facts:
            if fact.kind == "forall" and fact.domain is not None and norm.any_match(["zip($s, self)", "zip(self, $s)", "zip($s, self, strict=True)"], fact.domain, {"s": sched}) is not None:
                for b in fact.body:
                    if b.kind == "atom" and norm.match(T("$tp.matches($sp)"), b.expr) is not None:
                        pairs = True
        v = s.node.value
        if v is not None and not isinstance(v, ast.Constant):
            ev = s.expand(v)
            if norm.any_match(["all(($tp.matches($sp) for $a, $b in zip($s, self)))", "all(($tp.matches($sp) for $a, $b in zip(self, $s)))"], ev, {"s": sched}) is not None:
                pairs = True
        chk.result(arity, "C16.template-arity", f"{f.key}:length", s.where(), "accepts only schedules with as many patterns as the template",
                   "Template.matches can accept a schedule with a different number of operands (zip truncates silently)", s.fact_texts)
        chk.result(pairs, "C16.template-arity", f"{f.key}:every-pair", s.where(), "accepts only if every (schedule pattern, template pattern) pair matches",
                   "Template.matches can accept although some operand's pattern does not match its template pattern", s.fact_texts)


def pattern_matches(repo: Repo, chk: Check) -> None:
    f, fl = flow_of(repo, chk, AP, "TemplatePattern.matches")
    sp = f.param(1)
    chk.rule(
        "C16.pattern-match",
        "TemplatePattern.matches: a schedule pattern with fewer dims than the template is rejected; only rows of the "
        "*template* may be dropped for broadcasting (never result rows of the schedule operand); the verdict is the "
        "subspace comparison of the template slice and the schedule's matrix",
        floor=3,
    )
    rets = [s for s in fl.stmts(ast.Return) if s.reachable]
    rej = [s for s in rets if isinstance(s.node.value, ast.Constant) and s.node.value.value is False and has_fact(s, ["$p.num_dims < self.num_dims", "self.num_dims > $p.num_dims"], {"p": sp})]
    chk.result(bool(rej), "C16.pattern-match", f"{f.key}:fewer-dims", rej[0].where() if rej else f.where,
               "a schedule pattern with fewer dimensions than the template is rejected", "schedule patterns with fewer dims than the template are no longer rejected")
    acc = [s for s in rets if not isinstance(s.node.value, ast.Constant)]
    if not acc:
        raise AnalysisError(f"{f.where}: no non-constant return")
    for s in acc:
        cone = fl.cone(s.node.value, s, inline=0)
        calls = [m for _, m in subexprs(cone, "same_nonzero_singular_vectors($a, $b)")]
        ok = bool(calls)
        sliced_schedule = False
        for m in calls:
            a, b = m["a"], m["b"]
            # the schedule side: its matrix, possibly restricted to inner *columns* (inner_dims), never to a row subset
            for sub in ast.walk(b):
                if isinstance(sub, ast.Subscript) and depends_on(sub.value, "$_.pattern.A"):
                    sl = sub.slice
                    if isinstance(sl, ast.Tuple) and len(sl.elts) == 2:
                        row = sl.elts[0]
                        if not (isinstance(row, ast.Slice) and row.lower is None and row.upper is None):
                            sliced_schedule = True
                    else:
                        sliced_schedule = True
            ok = ok and depends_on(a, "self.pattern.A") and depends_on(b, "$_.pattern.A")
        chk.result(ok, "C16.pattern-match", f"{f.key}:subspace", s.where(), "verdict = same_nonzero_singular_vectors(template slice, schedule matrix)")
        chk.result(not sliced_schedule, "C16.pattern-match", f"{f.key}:no-schedule-rows-dropped", s.where(),
                   "result rows of the schedule operand are never dropped before the comparison",
                   "result rows of the *schedule* operand's matrix are dropped before the subspace comparison: an operand with more "
                   "result dimensions than the template addresses is accepted")


def parallel_columns(repo: Repo, chk: Check) -> None:
    """a temporal loop is a reduction for the output iff the output does not move in it: its column of the output's matrix is all zero. A column whose entries
    cancel (+1 on one index, -1 on another) moves the output"""
    f, fl = flow_of(repo, chk, SCHED, "is_pure_output_stationary")
    chk.rule("C16.parallel-columns", "is_pure_output_stationary classifies a loop by `any entry of its output column != 0`, never by the sum of the column", floor=1)
    hits = [n for n in ast.walk(f.node) if isinstance(n, ast.Call) and ((callee_name(n) == "any" and any(isinstance(k, ast.keyword) and k.arg == "axis" for k in n.keywords)))]
    sums = [n for n in ast.walk(f.node) if isinstance(n, ast.Call) and callee_name(n) in ("sum", "mean", "prod") and any(isinstance(k, ast.keyword) and k.arg == "axis" for k in n.keywords)]
    if not hits and not sums:
        raise AnalysisError(f"{f.where}: the column test of the output schedule was not found")
    ok = bool(hits) and not sums and all(any(isinstance(c_, ast.Compare) and isinstance(c_.ops[0], ast.NotEq) for c_ in ast.walk(h_)) for h_ in hits)
    where = f"{f.module.relpath}:{(sums or hits)[0].lineno}"
    chk.result(ok, "C16.parallel-columns", f"{f.key}:column-test", where, "a loop is parallel iff some entry of its output column is non-zero",
               f"the loop type is decided by `{ast.unparse((sums or hits)[0])[:70]}`: a parallel loop whose output strides cancel is taken for a reduction, and schedules with a true reduction "
               "loop outside of it pass the output-stationary constraint")


def template_rows(repo: Repo, chk: Check) -> None:
    """rows of the template are dropped from the front by a COUNT (template rows minus schedule rows). A negative count is not "drop nothing": as a slice start it
    counts from the end and keeps only the last rows of the template"""
    f, fl = flow_of(repo, chk, AP, "TemplatePattern.matches")
    chk.rule("C16.template-rows", "a row slice of the template matrix starts at a count that is known to be non-negative where the slice is taken (test or clamp)", floor=1)
    n_ = 0
    for s in fl.stmts(ast.Assign):
        if not s.reachable:
            continue
        for sub in ast.walk(s.node.value):
            if not (isinstance(sub, ast.Subscript) and (norm.match(T("self.pattern.A"), sub.value) is not None or (s.state.alts and all(
                    norm.match(T("self.pattern.A"), norm.primary(__import__("sa.flow", fromlist=["expand"]).expand(sub.value, dict(alt.env)))) is not None for alt in s.state.alts)))):
                continue
            sl = sub.slice.elts[0] if isinstance(sub.slice, ast.Tuple) and sub.slice.elts else sub.slice
            if not (isinstance(sl, ast.Slice) and sl.lower is not None):
                continue
            n_ += 1
            lo = sl.lower
            lo_e = norm.primary(s.expand(lo))
            clamped = any(isinstance(c_, ast.Call) and callee_name(c_) == "max" for c_ in ast.walk(lo_e)) or (bool(s.state.alts) and all(
                any(isinstance(c_, ast.Call) and callee_name(c_) == "max" for c_ in ast.walk(__import__("sa.flow", fromlist=["expand"]).expand(lo, dict(alt.env)))) for alt in s.state.alts))
            from sa.flow import expand as _expand

            def _alt_tested(alt) -> bool:
                v_ = norm.canon(norm.primary(_expand(lo, dict(alt.env))))
                for fa in [*alt.facts.values(), *s.extra]:
                    if fa.kind == "atom" and (norm.any_match(["$v > 0", "$v >= 0", "$v >= 1", "0 < $v", "0 <= $v"], fa.expr, {"v": v_}) is not None
                                              or norm.any_match(["$v > 0", "$v >= 0", "$v >= 1", "0 < $v", "0 <= $v"], fa.expr, {"v": lo}) is not None):
                        return True
                    # `a - b > 0` may be kept as `a > b`
                    if fa.kind == "atom" and isinstance(v_, ast.BinOp) and isinstance(v_.op, ast.Sub) and norm.any_match(["$a > $b", "$b < $a"], fa.expr, {"a": v_.left, "b": v_.right}) is not None:
                        return True
                return False

            tested = bool(s.state.alts) and all(_alt_tested(alt) for alt in s.state.alts)
            const_ok = isinstance(lo_e, ast.Constant) and isinstance(lo_e.value, int) and lo_e.value >= 0
            chk.result(clamped or tested or const_ok, "C16.template-rows", f"{f.key}:slice#{n_}", s.where(), "the slice start is non-negative here",
                       f"`{ast.unparse(sub)[:60]}` is taken where `{ast.unparse(lo)[:40]}` may be negative (a schedule operand with more result rows than the template operand): "
                       "the slice then keeps only the LAST rows of the template, patterns that span a part of the template's subspace are accepted and full ones rejected", s.fact_texts)
    if n_ == 0:
        chk.floors["C16.template-rows"] = 0
        chk.observe("C16.template-rows not evaluated: no row slice of the template matrix with a computed start found")


def flexibility(repo: Repo, chk: Check) -> None:
    f, fl = flow_of(repo, chk, SCHED, "is_memory_flexible_enough")
    chk.rule(
        "C16.flexibility",
        "is_memory_flexible_enough rejects an operand unless ONE result dimension is both spatially unrolled with stride 1 "
        "and free of sub-bank temporal access (the two conditions are paired per dimension)",
        floor=1,
    )
    rej = [s for s in fl.stmts(ast.Return) if s.reachable and isinstance(s.node.value, ast.Constant) and s.node.value.value is False]
    if not rej:
        raise AnalysisError(f"{f.where}: no rejecting return")
    is_t = lambda e: depends_on(e, "$_ % ceil($_ / $_)") or depends_on(e, "$_ % $_")
    # the spatial test is recognised by WHAT it looks at (the template's trailing columns), its comparator is judged separately
    is_s = lambda e: depends_on(e, "$A[:, -$t.num_dims:]") or depends_on(e, "$_ == 1")
    unit = lambda e: depends_on(e, "$A[:, -$t.num_dims:] == 1") or depends_on(e, "1 == $A[:, -$t.num_dims:]")
    for s in rej:
        paired = False
        seen_both = False
        for fact in s.facts:
            if fact.kind != "atom":
                continue
            e = fact.expr
            if not (is_t(e) and is_s(e)):
                continue
            seen_both = True
            for _, m in subexprs(e, "zip($a, $b)"):
                if (is_t(m["a"]) and is_s(m["b"]) and not is_s(m["a"])) or (is_s(m["a"]) and is_t(m["b"]) and not is_t(m["a"])):
                    paired = True
            for sub in ast.walk(e):
                if isinstance(sub, ast.BinOp) and isinstance(sub.op, (ast.BitAnd, ast.BitOr)):
                    l, r = sub.left, sub.right
                    if (is_t(l) and is_s(r)) or (is_s(l) and is_t(r)):
                        paired = True
                if isinstance(sub, ast.Call) and callee_name(sub) in ("logical_and", "logical_or") and len(sub.args) == 2:
                    l, r = sub.args
                    if (is_t(l) and is_s(r)) or (is_s(l) and is_t(r)):
                        paired = True
        if not seen_both:
            raise AnalysisError(f"{s.where()}: the rejecting return is not governed by a condition over the temporal and spatial tests")
        unit_ok = any(fact.kind == "atom" and unit(fact.expr) for fact in s.facts)
        chk.result(unit_ok, "C16.flexibility", f"{f.key}:unit-stride", s.where(),
                   "a dimension counts as spatially unrolled only with coefficient 1 (adjacent lanes touch adjacent elements)",
                   "the spatial-unrolling test no longer requires coefficient 1 on a spatial column: lanes 2, 4, ... elements apart pass the bank-packing constraint",
                   s.fact_texts)
        # the temporal test looks at EVERY temporal column (all columns in front of the template's), not a single one
        cols = []
        for fact in s.facts:
            if fact.kind != "atom":
                continue
            for sub in ast.walk(fact.expr):
                if isinstance(sub, ast.BinOp) and isinstance(sub.op, ast.Mod):
                    for ss in ast.walk(sub.left):
                        if isinstance(ss, ast.Subscript) and norm.match(T("$p.A"), ss.value) is not None and isinstance(ss.slice, ast.Tuple) and len(ss.slice.elts) == 2:
                            cols.append(ss.slice.elts[1])
        if not cols:
            raise AnalysisError(f"{s.where()}: the columns the temporal-granularity test reads were not found")

        def all_temporal(c: ast.expr) -> bool:
            return isinstance(c, ast.Slice) and (c.lower is None or (isinstance(c.lower, ast.Constant) and c.lower.value == 0)) and c.upper is not None \
                and norm.any_match(["-$t.num_dims"], c.upper) is not None and c.step is None

        chk.result(all(all_temporal(c) for c in cols), "C16.flexibility", f"{f.key}:all-temporal-dims", s.where(),
                   "the temporal-granularity test covers all temporal columns (`[:, :-template.num_dims]`)",
                   f"the temporal-granularity test reads column(s) `{[ast.unparse(c) for c in cols][:2]}` only: the same result row has to stay bank-aligned across "
                   "ALL temporal loops; checking one loop at a time lets schedules through in which different loops misalign different rows",
                   s.fact_texts)
        chk.result(paired, "C16.flexibility", f"{f.key}:paired", s.where(),
                   "the temporal-granularity test and the spatial-unrolling test are combined element-wise (per operand dimension)",
                   "the temporal-granularity test and the spatial-unrolling test are reduced separately instead of being paired per "
                   "operand dimension: an operand passes although no single dimension is both unrolled and bank-aligned",
                   s.fact_texts)


def wiring(repo: Repo, chk: Check) -> None:
    f, fl = flow_of(repo, chk, PASS, "AutoflowScheduler.match_and_rewrite")
    op = f.param(1)
    chk.rule("C16.wiring", "the pass passes is_pure_output_stationary and is_memory_flexible_enough (closed over the operands' element sizes, in operand order) as extra checks", floor=1)
    calls = [s for s in fl.calls("scheduler") if s.reachable]
    if not calls:
        raise AnalysisError(f"{f.where}: scheduler(...) call not found")
    for s in calls:
        ec = next((k.value for k in s.node.keywords if k.arg == "extra_checks"), None)
        if ec is None and len(s.node.args) > 2:
            ec = s.node.args[2]
        e = s.expand(ec) if ec is not None else None
        ok = e is not None and isinstance(e, (ast.List, ast.Tuple))
        pos = mem = False
        if ok:
            for el in e.elts:  # type: ignore[union-attr]
                if norm.match(T("is_pure_output_stationary"), el) is not None:
                    pos = True
                m = norm.match(T("lambda $a, $b: is_memory_flexible_enough($a, $b, $es)"), el)
                if isinstance(el, ast.Lambda) and isinstance(el.body, ast.Call) and callee_name(el.body) == "is_memory_flexible_enough" and len(el.body.args) == 3:
                    ps = [a.arg for a in el.args.args]
                    if [ast.unparse(x) for x in el.body.args[:2]] == ps:
                        es = el.body.args[2]
                        if depends_on(es, "[$_.element_type.size for $o in $op.operands]", binds={"op": op}) or depends_on(es, "$_.element_type.size"):
                            mem = depends_on(es, "$op.operands", binds={"op": op})
        chk.result(pos and mem, "C16.wiring", f"{f.key}:extra-checks", s.where(),
                   "both constraints are requested from the scheduler",
                   f"extra_checks = {ast.unparse(e)[:160] if e is not None else None}: expected is_pure_output_stationary and the element-size-closed is_memory_flexible_enough")


def select(repo: Repo, chk: Check) -> None:
    f, fl = flow_of(repo, chk, SCHED, "scheduler")
    chk.rule("C16.select", "scheduler() only returns results of scheduler_backtrack called with the given template, schedule and extra checks", floor=1)
    template, schedule = f.param(0), f.param(1)
    for s in [x for x in fl.stmts(ast.Return) if x.reachable]:
        cone = fl.cone(s.node.value, s, inline=0)
        ok = False
        for sub in ast.walk(cone):
            if isinstance(sub, ast.Call) and callee_name(sub) == "scheduler_backtrack":
                ec = next((k.value for k in sub.keywords if k.arg == "extra_checks"), None)
                ok = ok or (len(sub.args) >= 2 and ast.unparse(sub.args[0]) == template and ast.unparse(sub.args[1]) == schedule and ec is not None and ast.unparse(ec) == "extra_checks")
        chk.result(ok, "C16.select", f"{f.key}:from-backtrack", s.where(), "the returned schedule is an element of scheduler_backtrack(template, schedule, extra_checks=extra_checks)",
                   "scheduler() returns something that is not a result of the constrained backtracking search")

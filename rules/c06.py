"""C06 — setup/compute overlap keeps every launch's configuration (DESIGN.md section 5, C06)."""

from __future__ import annotations

import ast

from sa import norm
from sa.errors import AnalysisError
from sa.flow import Alt, Flow, Site, expand
from sa.model import Repo
from sa.norm import T
from sa.report import Check

from .common import (
    callee_name,
    depends_on,
    flow_of,
    g,
    has_event,
    has_fact,
    mutation_sites,
    op_param,
    require_guards,
    rewriter_param,
    subexprs,
)

OVERLAP = "snaxc/transforms/accfg_config_overlap.py"
SCOPED = "snaxc/inference/scoped_setups.py"
HELPERS = "snaxc/inference/helpers.py"

# methods of ScopedSetupWithInputs that change the IR (resolved by name; each is analysed below)
SCOPED_MUTATORS = ("lazy_move_up", "insert_at_position", "erase")


def _sites(fl: Flow, rw: str | None) -> list[tuple[Site, str]]:
    out = mutation_sites(fl, rw)
    seen = {id(s.node) for s, _ in out}
    n: dict[str, int] = {}
    for s in fl.sites:
        if isinstance(s.node, ast.Call) and callee_name(s.node) in SCOPED_MUTATORS and id(s.node) not in seen:
            nm = callee_name(s.node)
            n[nm] = n.get(nm, 0) + 1
            out.append((s, f".{nm}#{n[nm]}"))
            seen.add(id(s.node))
    return out


def _quant(site: Site, kind: str, elt_templates: list[str], dom_templates: list[str], binds: dict) -> bool:
    """a must-fact that, in quantifier normal form (sa/norm.py:qnf), reads `all v in <dom>: [filters ->] <elt>` resp.
    `any v in <dom>: filters and <elt>`, whatever its spelling (any/all over a generator, truthiness of a filtered list, filter())"""
    for f in site.facts:
        if f.kind != "atom":
            continue
        q = norm.qnf(f.expr)
        if q is None:
            continue
        k, var, dom, filters, body = q
        if k != kind:
            continue
        b = dict(binds)
        b["v"] = ast.Name(var, ast.Load())
        conds = [body] if kind == "all" else [body, *filters]
        if any(norm.any_match(elt_templates, c, b) is not None for c in conds) and any(norm.contains(dom, T(d), binds) for d in dom_templates):
            return True
    return False


def run(repo: Repo, chk: Check) -> None:
    chk.explanation = (
        "Guard dominance (F2), effect discipline (F7) and positional/dependency obligations (F1/F3) on the two "
        "overlap patterns and their helper: a setup moves behind a launch only if the state has exactly these two "
        "users in one block; the moved closure contains side-effect-free ops only and is complete; ops only move "
        "upwards; the loop pattern acts only on the first setup of a loop body with no launch of the loop-carried "
        "state before it (nested ones included), and substitutes (lb, *iter_args) resp. (iv + step, *yield "
        "operands) for (iv, *carried) with the init/yield operands at the same iter index redirected. Decides "
        "these necessary conditions, not register contents at run time."
    )
    block_level(repo, chk)
    closure(repo, chk)
    move_up(repo, chk)
    loop_level(repo, chk)
    clone_order(repo, chk)
    uses_helper(repo, chk)
    loop_exit_state(repo, chk)


# --------------------------------------------------------------------------- what the registers hold when the loop is left
def loop_exit_state(repo: Repo, chk: Check) -> None:
    """the loop pattern leaves one more setup behind than the program had: the copy at the end of the LAST iteration (and the copy in front of the loop when
    it does not run at all) writes the fields of the body's first setup for an iteration that never comes. The loop then yields that state, so the IR stays
    consistent - but a setup after the loop that accfg-dedup has already reduced against the ORIGINAL yielded state no longer restores those fields, and a
    launch after the loop observes the values of the phantom iteration. Sound forms: the rewrite is refused while the loop's state result has users, or the
    original state is re-established behind the loop"""
    chk.rule("C06.loop-exit-state", "the loop-level overlap changes the state the loop yields only if nothing after the loop was written against that state (the state result "
             "is unused), or it re-establishes the yielded state behind the loop", floor=1)
    f, fl = flow_of(repo, chk, OVERLAP, "LoopLevelSetupAwaitOverlapPattern.match_and_rewrite")
    stores = [s for s in fl.stmts(ast.Assign) if s.reachable and isinstance(s.node.targets[0], ast.Subscript) and norm.match(T("$y.operands"), s.node.targets[0].value) is not None
              and depends_on(fl.cone(s.node.value, s, inline=0), "$x.out_state")
              and has_fact(s, ["isinstance($y, scf.YieldOp)", "isinstance($y, YieldOp)"], {"y": norm.match(T("$y.operands"), s.node.targets[0].value)["y"]})]
    if not stores:
        raise AnalysisError(f"{f.where}: the redirection of the yield operand to the moved setup's state was not found")
    for n_, s in enumerate(stores, 1):
        unused = any(fa.kind == "atom" and any(isinstance(a_, ast.Attribute) and a_.attr in ("results", "res") for a_ in ast.walk(fa.expr))
                     and any(isinstance(a_, ast.Attribute) and a_.attr == "uses" for a_ in ast.walk(fa.expr)) for fa in s.facts)
        restored = any(isinstance(c_, ast.Call) and norm.match(T("InsertPoint.after($l)"), c_) is not None for c_ in ast.walk(f.node))
        chk.result(unused or restored, "C06.loop-exit-state", f"{f.key}:yield-redirect#{n_}", s.where(),
                   "the yielded state changes only when no later op was written against it (or it is restored behind the loop)",
                   "the loop is made to yield the state of the extra end-of-body setup without a test that the loop's state result is unused and without restoring the original "
                   "state behind the loop: after accfg-dedup, a post-loop setup that omits fields equal on the init and the yield path no longer restores them, and the next "
                   "launch observes the values set up for an iteration that never runs (findings/C06_post_loop_launch_after_dedup.mlir)", s.fact_texts)


# --------------------------------------------------------------------------- block level
def block_level(repo: Repo, chk: Check) -> None:
    f, fl = flow_of(repo, chk, OVERLAP, "BlockLevelSetupAwaitOverlapPattern.match_and_rewrite")
    op = op_param(f)
    rw = rewriter_param(f)
    chk.rule(
        "C06.block-guards",
        "BlockLevel pattern moves only if: in_state present; exactly two using ops of in_state (all uses, nested ones "
        "included); one is this setup and the other a LaunchOp; same parent block; closure resolved",
        floor=5,
    )
    sites = [(s, lab) for s, lab in _sites(fl, rw) if s.reachable]
    if not sites:
        raise AnalysisError(f"{f.where}: no mutation site found")

    def two_users(site: Site):
        """today's contract: exactly two using ops.  A generalisation to several launches is accepted only if every other
        user is known to be a launch AND the launch the setup goes behind is selected by position in the block (not by
        the order of the use list, which rewrites permute)"""
        for fact in site.facts:
            if fact.kind != "atom":
                continue
            m = norm.any_match(["len($u) == 2"], fact.expr)
            if m is not None and depends_on(m["u"], "$op.in_state.uses", binds={"op": op}):
                return fact
        call = site.node
        tgt = None
        if isinstance(call, ast.Call):
            for a in (*call.args, *[k.value for k in call.keywords]):
                for _, m in subexprs(a, "InsertPoint.after($l)"):
                    tgt = m["l"]
        if tgt is not None:
            cone = fl.cone(tgt, site, inline=0)
            by_position = any(isinstance(n, ast.Call) and callee_name(n) in ("get_operation_index", "index", "is_before_in_block", "max", "sorted") for n in ast.walk(cone)) and not any(
                isinstance(n, ast.Subscript) and isinstance(n.slice, ast.Constant) and isinstance(norm.primary(n.value), ast.ListComp) for n in ast.walk(cone))
            for fact in site.facts:
                if fact.kind == "forall" and "LaunchOp" in fact.text and by_position:
                    return fact
        return None

    def launch_alt(site: Site) -> bool:
        """in every path class: the other user is a LaunchOp and one user is this op"""
        call = site.node
        assert isinstance(call, ast.Call)
        # the launch is the argument of InsertPoint.after(...)
        tgt = None
        for a in (*call.args, *[k.value for k in call.keywords]):
            for _, m in subexprs(a, "InsertPoint.after($l)"):
                tgt = m["l"]
        if tgt is None:
            return False
        if not site.state.alts:
            return False
        for alt in site.state.alts:
            l = expand(tgt, alt.env)
            facts = list(alt.facts.values())
            is_launch = any(
                x.kind == "atom" and norm.any_match(["isinstance($l, accfg.LaunchOp)", "isinstance($l, LaunchOp)"], x.expr, {"l": l}) is not None
                for x in facts
            )
            other_is_op = any(
                x.kind == "atom" and norm.any_match(["$o == $op", "$o is $op", "$op == $o", "$op is $o"], x.expr, {"op": op}) is not None
                for x in facts
            )
            same_block = any(
                x.kind == "atom"
                and norm.any_match(["$l.parent_block() == $op.parent_block()", "$l.parent_block() is $op.parent_block()",
                                    "$l.parent is $op.parent"], x.expr, {"l": l, "op": op}) is not None
                for x in facts
            )
            if not (is_launch and other_is_op and same_block):
                return False
        return True

    require_guards(
        chk, "C06.block-guards", f, sites,
        [
            ("has-in-state", g("$op.in_state", "$op.in_state is not None", op=op)),
            ("exactly-two-users", two_users),
            ("other-user-is-launch-in-same-block", launch_alt),
            ("closure-resolved", g("get_scoped_setup_inputs($op, $op.parent_block()) is not None", op=op)),
        ],
    )
    for s, lab in sites:
        if callee_name(s.node) == "lazy_move_up":
            call = s.node
            assert isinstance(call, ast.Call)
            ex = s.expand(call)
            ok = norm.match(T("get_scoped_setup_inputs($op, $op.parent_block()).lazy_move_up($op.parent_block(), InsertPoint.after($l), $rw)"),
                            ex, {"op": op, "rw": rw or "rewriter"}) is not None
            chk.result(ok or depends_on(ex, "InsertPoint.after($_)"), "C06.block-guards", f"{f.key}:target", s.where(),
                       "the setup and its closure move to directly after the launch, within the setup's block")


def uses_helper(repo: Repo, chk: Check) -> None:
    f = repo.try_func(OVERLAP, "get_ops_from_uses")
    if f is None:
        # the helper is an implementation detail: without it the user count is judged where it is used (C06.block-guards / loop-guards)
        chk.rule("C06.uses", "get_ops_from_uses returns the operation of *every* use (no filtering by block or kind)", floor=0)
        chk.observe("get_ops_from_uses does not exist on this tree: C06.uses has no instance")
        return
    chk.analysed(f.key)
    fl = Flow(f, repo)
    chk.rule("C06.uses", "get_ops_from_uses returns the operation of *every* use (no filtering by block or kind)", floor=1)
    p = f.param(0)
    for s in fl.stmts(ast.Return):
        v = s.expand(s.node.value)
        gens = [n for n in ast.walk(v) if isinstance(n, (ast.GeneratorExp, ast.ListComp, ast.SetComp))]
        ok = False
        for gen in gens:
            gg = gen.generators[0]
            if norm.match(T(p), gg.iter) is not None and not gg.ifs and isinstance(gg.target, ast.Name) and \
                    norm.match(T("$v.operation"), gen.elt, {"v": gg.target.id}) is not None:
                ok = True
        chk.result(ok, "C06.uses", f"{f.key}:all-uses", s.where(),
                   "every use contributes its operation",
                   f"get_ops_from_uses filters or transforms the uses ({ast.unparse(v)[:100]}): users nested in regions or of other kinds are no longer counted")


# --------------------------------------------------------------------------- closure
def closure(repo: Repo, chk: Check) -> None:
    f, fl = flow_of(repo, chk, SCOPED, "get_scoped_setup_inputs")
    setup, scope = f.param(0), f.param(1)
    chk.rule(
        "C06.closure-pure",
        "get_scoped_setup_inputs adds an op to the moved set only after is_side_effect_free(op), returns None on an "
        "impure producer and on a foreign block argument, follows all operands of each accepted op, starts from all "
        "setup values and orders the result by original position",
        floor=6,
    )
    apps = [s for s in fl.calls("append", "insert", "add") if s.reachable and s.node.args]
    if not apps:
        raise AnalysisError(f"{f.where}: no append to the closure list")
    for s in apps:
        arg = s.node.args[-1]
        chk.result(bool(has_fact(s, ["is_side_effect_free($x)"], {"x": arg})), "C06.closure-pure", f"{f.key}:append-pure", s.where(),
                   "an op joins the moved closure only under is_side_effect_free(op)",
                   f"{ast.unparse(arg)} joins the moved closure without a purity test: an op with effects (a launch, a load) can be moved/cloned",
                   s.fact_texts)
    # captured values: an accepted op either has no regions, or what its regions use is followed as well
    for s in apps:
        arg = s.node.args[0]
        no_regions = bool(has_fact(s, ["not $x.regions", "len($x.regions) == 0", "$x.regions == ()"], {"x": arg}))
        follows_nested = any(
            isinstance(n, ast.Call) and callee_name(n) in ("walk", "walk_regions") for n in ast.walk(f.node)) and any(
            isinstance(n, ast.Call) and callee_name(n) == "extend" and any(isinstance(x, ast.Attribute) and x.attr == "operands" for x in ast.walk(n)) and any(
                isinstance(x, ast.Call) and callee_name(x) == "walk" for x in ast.walk(n)) for n in ast.walk(f.node))
        chk.result(no_regions or follows_nested, "C06.closure-pure", f"{f.key}:captured-values", s.where(),
                   "an op joins the moved closure only if it has no regions (or the values its regions use are followed too)",
                   f"{ast.unparse(arg)} can be a pure op with regions (e.g. scf.if): only its operands are followed, the values used inside its regions are not, so it "
                   "can be moved in front of their definitions (use before definition)", s.fact_texts)
    none_rets = [s for s in fl.stmts(ast.Return) if s.reachable and (s.node.value is None or (isinstance(s.node.value, ast.Constant) and s.node.value.value is None))]
    impure = [s for s in none_rets if has_fact(s, ["not is_side_effect_free($_)"])]
    chk.result(bool(impure), "C06.closure-pure", f"{f.key}:impure-none", impure[0].where() if impure else f.where,
               "an impure producer makes the closure unresolvable (None)", "an impure producer no longer aborts the closure computation")
    blockarg = [s for s in none_rets if has_fact(s, ["isinstance($v.owner, Block)"])]
    chk.result(bool(blockarg), "C06.closure-pure", f"{f.key}:blockarg-none", blockarg[0].where() if blockarg else f.where,
               "a block argument of a nested block makes the closure unresolvable (None)",
               "values that are block arguments of nested blocks no longer abort the closure computation")
    ext = [s for s in fl.calls("extend") if s.reachable and has_fact(s, ["is_side_effect_free($_)"])]
    ok = any(norm.match(T("$w.extend($v.owner.operands)"), s.node) is not None or norm.match(T("$w.extend($v.owner.operands)"), s.expand(s.node)) is not None for s in ext)
    chk.result(ok, "C06.closure-pure", f"{f.key}:all-operands", ext[0].where() if ext else f.where,
               "all operands of an accepted op are inspected in turn", "operands of accepted ops are no longer all followed: the closure is incomplete")
    starts = [s for s in fl.stmts(ast.Assign, ast.AnnAssign) if s.reachable and s.node.value is not None and
              norm.any_match(["[*$s.values]", "list($s.values)", "[*$s.operands]"], s.node.value, {"s": setup}) is not None]
    chk.result(bool(starts), "C06.closure-pure", f"{f.key}:start", starts[0].where() if starts else f.where,
               "inspection starts from all values of the setup")
    rets = [s for s in fl.stmts(ast.Return) if s.reachable and s.node.value is not None and not isinstance(s.node.value, ast.Constant)]
    ok = False
    for s in rets:
        v = fl.cone(s.node.value, s)
        ok = ok or (depends_on(v, "sorted($_, key=$_)") and depends_on(v, "enumerate($s.ops)", binds={"s": scope}))
        chk.result(depends_on(v, "$s.args", binds={"s": scope}), "C06.closure-pure", f"{f.key}:dependent-vars", s.where(),
                   "the dependent variables are the block arguments of the scope")
    chk.result(ok, "C06.closure-pure", f"{f.key}:ordered", rets[0].where() if rets else f.where,
               "the closure is ordered by original position in the scope block",
               "the closure is no longer ordered by original position: def-use order of moved ops can break")
    # skipping conditions must not hide in-scope producers
    conts = [s for s in fl.stmts(ast.Continue) if s.reachable]
    for s in conts:
        reasons = ["$v in $s.args", "not val_is_defined_in_block($v, $s)", "$v.owner in $_"]
        okc = bool(has_fact(s, reasons, {"s": scope}))
        if not okc:
            # a disjunction of acceptable reasons is an acceptable reason
            for fct in s.facts:
                if fct.kind == "atom" and isinstance(fct.expr, ast.BoolOp) and isinstance(fct.expr.op, ast.Or) and all(
                        norm.any_match(reasons, norm.canon(v), {"s": scope}) is not None for v in fct.expr.values):
                    okc = True
        chk.result(okc, "C06.closure-pure", f"{f.key}:skip@{len([x for x in conts if x.line <= s.line])}", s.where(),
                   "a value is skipped only if it is a scope argument, defined outside the scope, or already collected",
                   "a value is skipped under a condition that does not establish that it needs no move", s.fact_texts)


# --------------------------------------------------------------------------- lazy_move_up
def move_up(repo: Repo, chk: Check) -> None:
    f, fl = flow_of(repo, chk, SCOPED, "ScopedSetupWithInputs.lazy_move_up")
    scope, pt, rw = f.param(1), f.param(2), f.param(3)
    chk.rule("C06.move-up-only", "lazy_move_up relocates an op only if it lies below the insertion point, which is asserted to be in the scope block", floor=3)
    sites = [(s, lab) for s, lab in mutation_sites(fl, rw) if s.reachable]
    if not sites:
        raise AnalysisError(f"{f.where}: no mutation")

    def below(site: Site):
        loopvars = [l.target.id for l in site.loops if isinstance(l, ast.For) and isinstance(l.target, ast.Name)]
        for fact in site.facts:
            if fact.kind != "atom":
                continue
            for lv in loopvars:
                if norm.any_match(["$a[$o] > $b[$pt.insert_before]", "$b[$pt.insert_before] < $a[$o]"], fact.expr, {"o": lv, "pt": pt}) is not None:
                    return fact
        return None

    require_guards(
        chk, "C06.move-up-only", f, sites,
        [
            ("below-insertion-point", below),
            ("insertion-point-in-scope", g("$pt.insert_before.parent_block() is $s", "$pt.insert_before.parent_block() == $s", pt=pt, s=scope)),
        ],
    )


# --------------------------------------------------------------------------- loop level
def loop_level(repo: Repo, chk: Check) -> None:
    f, fl = flow_of(repo, chk, OVERLAP, "LoopLevelSetupAwaitOverlapPattern.match_and_rewrite")
    op = op_param(f)
    rw = rewriter_param(f)
    chk.rule(
        "C06.loop-guards",
        "LoopLevel pattern mutates only when: parent is scf.ForOp; in_state is a block argument of that loop; a "
        "LaunchOp uses out_state and all such launches are in the setup's block; no launch can observe the "
        "loop-carried state before the setup (launch users of in_state, nested ones included); closure resolved",
        floor=12,
    )
    sites = [(s, lab) for s, lab in _sites(fl, rw) if s.reachable]
    loop = f"{op}.parent_op()"
    lo = ["isinstance($v.operation, accfg.LaunchOp)", "isinstance($v.operation, LaunchOp)"]

    def no_launch_on_carried_state(site: Site) -> bool:
        return _quant(site, "all", ["not isinstance($v.operation, accfg.LaunchOp)", "not isinstance($v.operation, LaunchOp)"],
                      ["$op.in_state.uses"], {"op": op}) or _quant(
            site, "all", ["not isinstance($v, accfg.LaunchOp)", "not isinstance($v, LaunchOp)"], ["$_.walk()", "$_.walk($_)"], {"op": op})

    def launches_same_block(site: Site) -> bool:
        return _quant(site, "all", ["$v.operation.parent_block() is $op.parent_block()", "$v.operation.parent_block() == $op.parent_block()"],
                      ["$op.out_state.uses"], {"op": op})

    require_guards(
        chk, "C06.loop-guards", f, sites,
        [
            ("has-in-state", g("$op.in_state", "$op.in_state is not None", op=op)),
            ("parent-is-for", g("isinstance($op.parent_op(), scf.ForOp)", "isinstance($op.parent_op(), ForOp)", op=op)),
            ("in-state-is-block-arg", g("isinstance($op.in_state.owner, Block)", "isinstance($op.in_state, BlockArgument)", op=op)),
            ("in-state-of-this-loop", g("$op.in_state.owner.parent_op() is $op.parent_op()", "$op.in_state.owner is $op.parent_op().body.block",
                                        "$op.in_state.owner == $op.parent_op().body.block", op=op)),
            ("launch-uses-out-state", lambda s: _quant(s, "any", lo, ["$op.out_state.uses"], {"op": op})),
            ("launches-in-same-block", launches_same_block),
            ("no-launch-of-carried-state", no_launch_on_carried_state),
            ("closure-resolved", g("get_scoped_setup_inputs($op, $op.parent_op().body.block) is not None", op=op)),
        ],
    )
    # ---- substitution
    chk.rule(
        "C06.loop-substitution",
        "prologue copy substitutes (lb, *iter_args), in-loop copy substitutes (iv + step, *yield operands) for the "
        "scope arguments (iv, *carried); init operand 3+k and yield operand k (k = in_state.index - 1) are redirected "
        "to the prologue resp. in-loop copy; the original setup's uses go to the carried block argument",
        floor=7,
    )
    copies = [s for s in fl.calls("copy_with_new_dependent_vals") if s.reachable]
    if len(copies) < 2:
        raise AnalysisError(f"{f.where}: expected two copy_with_new_dependent_vals calls, found {len(copies)}")
    pro = epi = None
    for s in copies:
        arg = s.expand(s.node.args[0])
        if not isinstance(arg, ast.Tuple) or len(arg.elts) != 2 or not isinstance(arg.elts[1], ast.Starred):
            raise AnalysisError(f"{s.where()}: substitution is not a tuple (first, *rest)")
        first, rest = arg.elts[0], arg.elts[1].value
        b = {"l": loop}
        if norm.match(T("$l.lb"), first, b) is not None and norm.match(T("$l.iter_args"), rest, b) is not None:
            pro = s
        elif (
            norm.any_match(["arith.AddiOp($l.body.block.args[0], $l.step).result", "arith.AddiOp($l.step, $l.body.block.args[0]).result",
                            "AddiOp($l.body.block.args[0], $l.step).result", "arith.AddiOp($l.body.block.args[0], $l.step).results[0]"], first, b) is not None
            and norm.any_match(["$l.body.block.last_op.operands", "$l.body.block.last_op.arguments"], rest, b) is not None
        ):
            epi = s
        else:
            chk.bad("C06.loop-substitution", f"{f.key}:substitution@{'first' if s is copies[0] else 'second'}", s.where(),
                    f"substitution {ast.unparse(arg)[:160]} is neither (lb, *iter_args) nor (iv + step, *yield operands)")
    if pro is not None:
        chk.ok("C06.loop-substitution", f"{f.key}:prologue-values", pro.where(), "prologue copy uses (for.lb, *for.iter_args)")
    if epi is not None:
        chk.ok("C06.loop-substitution", f"{f.key}:in-loop-values", epi.where(), "in-loop copy uses (iv + step, *yield operands)")
    chk.result(pro is not None and epi is not None, "C06.loop-substitution", f"{f.key}:both-copies", f.where,
               "both copies found", "the prologue and/or the next-iteration copy is missing")
    # where the copies go and which operands are redirected
    def var_of(call_site: Site) -> str | None:
        st = call_site.stmt
        if isinstance(st, ast.Assign) and isinstance(st.targets[0], ast.Name):
            return st.targets[0].id
        return None

    pv, ev = (var_of(pro) if pro else None), (var_of(epi) if epi else None)
    for s in [x for x in fl.calls("insert_at_position") if x.reachable]:
        base = s.node.func.value  # type: ignore[attr-defined]
        ip = s.expand(s.node.args[1]) if len(s.node.args) > 1 else None
        if isinstance(base, ast.Name) and base.id == pv:
            chk.result(ip is not None and norm.match(T("InsertPoint.before($l)"), ip, {"l": loop}) is not None, "C06.loop-substitution",
                       f"{f.key}:prologue-position", s.where(), "prologue copy is inserted before the loop")
        elif isinstance(base, ast.Name) and base.id == ev:
            chk.result(ip is not None and norm.match(T("InsertPoint.before($l.body.block.last_op)"), ip, {"l": loop}) is not None, "C06.loop-substitution",
                       f"{f.key}:in-loop-position", s.where(), "next-iteration copy is inserted before the yield")
    k = "$op.in_state.index - 1"
    for s in [x for x in fl.stmts(ast.Assign) if x.reachable and isinstance(x.node.targets[0], ast.Subscript)]:
        t = s.node.targets[0]
        base = s.expand(t.value)
        idx = s.expand(t.slice)
        val = s.node.value
        if norm.any_match(["$l.operands"], base, {"l": loop}) is not None:
            ok_i = norm.any_match([f"3 + ({k})", f"{k} + 3", "$op.in_state.index + 2", "2 + $op.in_state.index"], idx, {"op": op}) is not None
            ok_v = isinstance(val, ast.Attribute) and ast.unparse(val) == f"{pv}.setup.out_state"
            chk.result(ok_i and ok_v, "C06.loop-substitution", f"{f.key}:init-operand", s.where(),
                       "the loop's init operand of this state is the prologue copy's out_state",
                       f"init operand redirect is operands[{ast.unparse(idx)}] = {ast.unparse(val)}; expected operands[3 + (in_state.index - 1)] = <prologue copy>.setup.out_state")
        elif norm.any_match(["$l.body.block.last_op.operands"], base, {"l": loop}) is not None:
            ok_i = norm.any_match([k], idx, {"op": op}) is not None
            ok_v = isinstance(val, ast.Attribute) and ast.unparse(val) == f"{ev}.setup.out_state"
            chk.result(ok_i and ok_v, "C06.loop-substitution", f"{f.key}:yield-operand", s.where(),
                       "the yield operand of this state is the next-iteration copy's out_state",
                       f"yield operand redirect is operands[{ast.unparse(idx)}] = {ast.unparse(val)}; expected operands[in_state.index - 1] = <in-loop copy>.setup.out_state")
    er = [s for s in fl.calls("erase") if s.reachable]
    chk.result(any(len(s.node.args) == 2 and not s.node.keywords
                   and norm.match(T("$op.in_state"), s.expand(s.node.args[0]), {"op": op}) is not None
                   and norm.match(T("$rw"), s.expand(s.node.args[1]), {"rw": rw or "rewriter"}) is not None for s in er),
               "C06.loop-substitution", f"{f.key}:erase-original", er[0].where() if er else f.where,
               "the original setup is erased and its uses redirected to the loop-carried block argument")
    for s in [x for x in fl.calls("insert_op") if x.reachable]:
        if len(s.node.args) > 1:
            chk.result(norm.match(T("InsertPoint.before($l.body.block.last_op)"), s.expand(s.node.args[1]), {"l": loop}) is not None,
                       "C06.loop-substitution", f"{f.key}:next-iv-position", s.where(), "iv + step is computed before the yield")
    # ---- completeness: the original setup may only disappear after both copies are in place
    chk.rule(
        "C06.loop-complete",
        "on every path that erases the original setup, the prologue copy was inserted, the init operand redirected, "
        "the next-iteration copy inserted and the yield operand redirected (must-pass-through)",
        floor=4,
    )
    stmts: dict[str, ast.stmt] = {}
    for s in [x for x in fl.calls("insert_at_position") if x.reachable]:
        base = s.node.func.value  # type: ignore[attr-defined]
        if isinstance(base, ast.Name) and base.id == pv:
            stmts["prologue copy inserted"] = s.stmt
        elif isinstance(base, ast.Name) and base.id == ev:
            stmts["next-iteration copy inserted"] = s.stmt
    for s in [x for x in fl.stmts(ast.Assign) if x.reachable and isinstance(x.node.targets[0], ast.Subscript)]:
        base = s.expand(s.node.targets[0].value)
        if norm.any_match(["$l.operands"], base, {"l": loop}) is not None:
            stmts["init operand redirected"] = s.stmt
        elif norm.any_match(["$l.body.block.last_op.operands"], base, {"l": loop}) is not None:
            stmts["yield operand redirected"] = s.stmt
    def _pos(st: ast.AST) -> tuple:
        # statements of helpers inlined at walk time are copies: identify a statement by its source position
        return (type(st).__name__, getattr(st, "lineno", None), getattr(st, "col_offset", None), getattr(st, "end_lineno", None))

    fl2 = Flow(f, repo, events={lab: (lambda st, want=_pos(st_): _pos(st) == want) for lab, st_ in stmts.items()})
    erases = [s for s in fl2.calls("erase", "erase_op", "erase_matched_op") if s.reachable]
    if not erases:
        raise AnalysisError(f"{f.where}: the erase of the original setup was not found")
    for n, s in enumerate(erases, 1):
        for lab in ("prologue copy inserted", "init operand redirected", "next-iteration copy inserted", "yield operand redirected"):
            chk.result(lab in stmts and has_event(s, lab), "C06.loop-complete", f"{f.key}:{lab}@erase#{n}", s.where(),
                       f"erase of the original setup is preceded on every path by: {lab}",
                       f"the original setup can be erased on a path where this has not happened: {lab} "
                       "(later iterations / the first iteration then run with a configuration nobody rewrote)")
    # erase helper
    e, efl = flow_of(repo, chk, SCOPED, "ScopedSetupWithInputs.erase")
    rs = e.param(1)
    ok = any(norm.match(T("self.setup.out_state.replace_all_uses_with($r)"), s.node, {"r": rs}) is not None for s in efl.calls("replace_all_uses_with"))
    chk.result(ok, "C06.loop-substitution", f"{e.key}:redirect", e.where, "erase() redirects the setup's out_state uses to the given state")


def clone_order(repo: Repo, chk: Check) -> None:
    f, fl = flow_of(repo, chk, SCOPED, "ScopedSetupWithInputs.copy_with_new_dependent_vals")
    new = f.param(1)
    chk.rule("C06.clone-order", "copy_with_new_dependent_vals: strict positional zip of old/new dependent vars; each clone's results are mapped before the next clone; the setup is cloned with the final mapping", floor=3)
    zips = [s for s in fl.calls("zip") if s.reachable and norm.match(T("zip(self.dependent_vars, $n, strict=True)"), s.node, {"n": new}) is not None]
    chk.result(bool(zips), "C06.clone-order", f"{f.key}:strict-zip", zips[0].where() if zips else f.where,
               "old and new dependent values are paired positionally with strict=True",
               "old/new dependent values are no longer zipped strictly (a length mismatch silently drops a substitution)")
    loops = [s for s in fl.stmts(ast.For) if s.reachable and norm.match(T("self.inputs"), s.node.iter) is not None]
    ok = False
    for s in loops:
        body = s.node.body
        clone_i = next((i for i, st in enumerate(body) if any(callee_name(n) == "clone" for n in ast.walk(st))), None)
        map_i = next((i for i, st in enumerate(body) if (isinstance(st, ast.For) and any(
            isinstance(n, ast.Assign) and isinstance(n.targets[0], ast.Subscript) for n in ast.walk(st))) or any(
            isinstance(n, ast.Call) and norm.match(T("$m.update(zip($o.results, $n.results))"), n) is not None for n in ast.walk(st))), None)
        ok = ok or (clone_i is not None and map_i is not None and clone_i < map_i)
    chk.result(ok, "C06.clone-order", f"{f.key}:map-results-in-loop", loops[0].where() if loops else f.where,
               "results of each cloned input op are mapped inside the loop, before the next clone",
               "results of cloned ops are not mapped before the next op is cloned: dependency chains point to the originals")
    rets = [s for s in fl.stmts(ast.Return) if s.reachable]
    ok = any(depends_on(s.expand(s.node.value), "self.setup.clone(value_mapper=$_)") for s in rets)
    chk.result(ok, "C06.clone-order", f"{f.key}:setup-clone", rets[0].where() if rets else f.where, "the setup is cloned through the mapping")

"""C10 — a tiled-strided layout means the same thing everywhere (DESIGN.md section 5, C10).

Only the clauses that are visible in the shape of the code are decided: printer/parser agreement
(fields, nullable tokens, bracket/field pairing, arity), the digit-extraction shape of the affine map,
the construction from plain strides, the merge/drop conditions of canonicalisation, the selection and
acceptance conditions of the common contiguous block, and the (dim, depth) coverage of the op builders.
"""

from __future__ import annotations

import ast

from sa import norm
from sa.errors import AnalysisError
from sa.flow import Flow, Site
from sa.model import Repo
from sa.norm import T
from sa.report import Check

from .common import every_alt_has, expand_with_loops, kwarg, callee_name, depends_on, flow_of, has_fact, subexprs

STRIDE = "snaxc/ir/tsl/stride.py"
TSTRIDE = "snaxc/ir/tsl/tiled_stride.py"
TSL = "snaxc/ir/tsl/tiled_strided_layout.py"
DIALECT = "snaxc/dialects/tsl.py"
PARSER = "snaxc/parser/tsl_parser.py"


def run(repo: Repo, chk: Check) -> None:
    chk.explanation = (
        "Sibling/table agreement (F5) and dependency/guard rules (F2/F3) on the views of a tiled-strided layout: the "
        "printer reads and the parser supplies every constructor field; every field the printer can render as `?` is "
        "parsed through the int-or-question production; brackets pair with bounds and parentheses with steps on both "
        "sides; the parser enforces equal arity; the affine map extracts digit k of dimension d as "
        "(d mod prod(bounds[k:])) floordiv prod(bounds[k+1:]) times step k; from_stride chains steps as "
        "step*bound; canonicalize merges only under inner.step*inner.bound == outer.step and drops only unit bounds, "
        "never the innermost level; the common contiguous block appends only strides equal in both layouts that "
        "continue the running extent. Decides these structural clauses, not numeric agreement on all layouts."
    )
    fields(repo, chk)
    nullable(repo, chk)
    brackets_and_arity(repo, chk)
    # the layout map is decided twice: by evaluating get_affine_map over symbolic bounds and steps and comparing with the closed form (any spelling of
    # the digit extraction the normal form reads), and clause by clause on the source. If the source is restructured beyond what the clauses read, the
    # evaluation alone decides
    from . import c02

    c02.tsl_affine(repo, chk, rule="C10.affine-eval")
    try:
        affine_map(repo, chk)
    except AnalysisError as e:
        chk.floors["C10.affine-digits"] = 0
        chk.observe(f"C10.affine-digits not evaluated ({e}); the layout map is decided by C10.affine-eval")
    from_stride(repo, chk)
    canonicalize(repo, chk)
    lccb(repo, chk)
    dense(repo, chk)
    overlap_enumerated(repo, chk)
    offset_static(repo, chk)
    op_builders(repo, chk)
    subview_pointer(repo, chk)


# --------------------------------------------------------------------------- fields
def _str_chain_reads(repo: Repo, chk: Check) -> set[str]:
    reads: set[str] = set()
    for path, cls in ((TSL, "TiledStridedLayout"), (TSTRIDE, "TiledStride"), (STRIDE, "Stride")):
        f = repo.func(path, f"{cls}.__str__")
        chk.analysed(f.key)
        for n in ast.walk(f.node):
            if isinstance(n, ast.Attribute):
                reads.add(n.attr)
    return reads


def fields(repo: Repo, chk: Check) -> None:
    chk.rule("C10.roundtrip-fields", "every constructor field of TiledStridedLayout / TiledStride / Stride is read by the printer chain and supplied by the parser", floor=5)
    reads = _str_chain_reads(repo, chk)
    decl = {
        "TiledStridedLayout": (TSL, ["tstrides", "offset"]),
        "TiledStride": (TSTRIDE, ["strides"]),
        "Stride": (STRIDE, ["step", "bound"]),
    }
    # declared dataclass fields must still be these (a new field needs printer/parser support)
    for cname, (path, want) in decl.items():
        c = repo.cls(path, cname)
        have = [k for k in c.annotations]
        chk.result(have == want, "C10.roundtrip-fields", f"{c.key}:declared-fields", c.where,
                   f"{cname} declares fields {have}", f"{cname} declares fields {have}; printer/parser rules know {want}: a field would be lost in print/parse")
        for fld in want:
            chk.result(fld in reads, "C10.roundtrip-fields", f"{c.key}:printed:{fld}", c.where,
                       f"{cname}.{fld} is read by the __str__ chain", f"{cname}.{fld} is never read by the printer: print-then-parse loses it")
    # parser supplies
    p, pfl = flow_of(repo, chk, PARSER, "TSLParser.parse")
    ok = False
    for s in pfl.stmts(ast.Return):
        v = s.node.value
        if isinstance(v, ast.Call) and callee_name(v) == "TiledStridedLayout":
            off = next((k.value for k in v.keywords if k.arg == "offset"), v.args[1] if len(v.args) > 1 else None)
            ok = bool(v.args) and off is not None and not isinstance(off, ast.Constant)
    chk.result(ok, "C10.roundtrip-fields", f"{p.key}:supplies", p.where, "the parser passes the parsed tiled strides and the parsed offset to the constructor",
               "the parser does not hand the parsed offset (or strides) to the TiledStridedLayout constructor")
    t, tfl = flow_of(repo, chk, PARSER, "TSLParser._parse_tiled_stride")
    ok = False
    for s in tfl.stmts(ast.Return):
        v = s.expand(s.node.value)
        for _, m in subexprs(v, "TiledStride([Stride($a, $b) for $a, $b in zip($x, $y)])"):
            ok = norm.match(T("self._parse_step()"), m["x"]) is not None and norm.match(T("self._parse_bound()"), m["y"]) is not None
    chk.result(ok, "C10.roundtrip-fields", f"{t.key}:stride-args", t.where,
               "Stride(step, bound) is built from (parsed step, parsed bound) in that order",
               "the parser builds Stride(...) with step and bound taken from the wrong lists / in the wrong order")


# --------------------------------------------------------------------------- nullable tokens
def nullable(repo: Repo, chk: Check) -> None:
    chk.rule("C10.nullable-token", "every field the printer can render as `?` is parsed with _parse_int_or_question", floor=3)
    # which fields can be printed as "?"
    can_q: dict[str, str] = {}
    for path, cls in ((TSL, "TiledStridedLayout"), (TSTRIDE, "TiledStride")):
        f = repo.func(path, f"{cls}.__str__")
        for n in ast.walk(f.node):
            if isinstance(n, ast.IfExp):
                alts = [n.body, n.orelse]
                if any(isinstance(a, ast.Constant) and a.value == "?" for a in alts):
                    for a in ast.walk(n.test):
                        if isinstance(a, ast.Attribute) and a.attr in ("step", "bound", "offset"):
                            can_q[a.attr] = f"{f.module.relpath}:{n.lineno}"
    if not {"step", "bound", "offset"} <= set(can_q):
        raise AnalysisError(f"printer no longer renders step/bound/offset with the `?` idiom (found {sorted(can_q)})")
    prod_of = {"step": "TSLParser._parse_step", "bound": "TSLParser._parse_bound", "offset": "TSLParser.parse"}
    for fld, qual in prod_of.items():
        f, fl = flow_of(repo, chk, PARSER, qual)
        ok = False
        if fld == "offset":
            # by dataflow, not by name: whatever reaches the `offset` of the constructed layout
            where = f.where
            for s in fl.calls("TiledStridedLayout"):
                c = s.node
                arg = kwarg(c, "offset", 1)
                if arg is None:
                    continue
                cone = fl.cone(arg, s, inline=0)
                ok = any(isinstance(n, ast.Call) and callee_name(n) == "_parse_int_or_question" for n in ast.walk(cone)) and not any(
                    isinstance(n, ast.Call) and callee_name(n) in ("parse_integer", "_parse_int") for n in ast.walk(cone))
                where = s.where()
        else:
            apps = fl.calls("append")
            ok = bool(apps) and all(callee_name(s.node.args[0]) == "_parse_int_or_question" for s in apps)
            where = apps[0].where() if apps else f.where
        chk.result(ok, "C10.nullable-token", f"{f.key}:{fld}", where,
                   f"`{fld}` (printed as `?` when dynamic, {can_q[fld]}) is parsed through the int-or-question production",
                   f"`{fld}` can be printed as `?` ({can_q[fld]}) but its parser production does not accept `?`: print-then-parse of a dynamic {fld} fails")
    q, qfl = flow_of(repo, chk, PARSER, "TSLParser._parse_int_or_question")
    none_ret = [s for s in qfl.stmts(ast.Return) if isinstance(s.node.value, ast.Constant) and s.node.value.value is None and has_fact(s, ["self._parse_optional_token(MLIRTokenKind.QUESTION) is not None", "self._parse_optional_token(MLIRTokenKind.QUESTION)"])]
    chk.result(bool(none_ret), "C10.nullable-token", f"{q.key}:question-is-none", q.where, "`?` parses to None (the value the printer renders as `?`)")


# --------------------------------------------------------------------------- brackets, arity
def brackets_and_arity(repo: Repo, chk: Check) -> None:
    chk.rule("C10.arity", "bounds are written/read in `[...]`, steps in `(...)`, bounds before `->`; the parser rejects unequal numbers of steps and bounds", floor=4)
    f, fl = flow_of(repo, chk, TSTRIDE, "TiledStride.__str__")
    ok = False
    for s in fl.stmts(ast.Return):
        v = s.node.value
        if isinstance(v, ast.JoinedStr):
            parts = v.values
            txt = []
            for pz in parts:
                if isinstance(pz, ast.Constant):
                    txt.append(("lit", pz.value))
                elif isinstance(pz, ast.FormattedValue):
                    c = fl.cone(pz.value, s, inline=0)
                    kind = "bound" if depends_on(c, "$_.bound") and not depends_on(c, "$_.step") else "step" if depends_on(c, "$_.step") and not depends_on(c, "$_.bound") else "?"
                    txt.append(("val", kind))
            shape = "".join(x[1] if x[0] == "lit" else "{" + x[1] + "}" for x in txt)
            ok = shape.replace(" ", "") == "[{bound}]->({step})"
            chk.result(ok, "C10.arity", f"{f.key}:print-shape", s.where(), "printer emits `[bounds] -> (steps)`", f"printer emits `{shape}`; the parser reads `[bounds] -> (steps)`")
    if not ok and not any(i.key == f"{f.key}:print-shape" for i in chk.instances):
        raise AnalysisError(f"{f.where}: f-string return not found")
    for qual, open_tok, close_tok in (("TSLParser._parse_bound", "L_SQUARE", "R_SQUARE"), ("TSLParser._parse_step", "L_PAREN", "R_PAREN")):
        g, gfl = flow_of(repo, chk, PARSER, qual)
        src = ast.unparse(g.node)
        chk.result(f"MLIRTokenKind.{open_tok}" in src and f"MLIRTokenKind.{close_tok}" in src, "C10.arity", f"{g.key}:tokens", g.where,
                   f"{qual} reads its list between {open_tok} and {close_tok}")
    t, tfl = flow_of(repo, chk, PARSER, "TSLParser._parse_tiled_stride")
    calls = [callee_name(n) for n in ast.walk(t.node) if isinstance(n, ast.Call) and callee_name(n) in ("_parse_bound", "_parse_step", "_parse_token")]
    order_ok = calls[:3] == ["_parse_bound", "_parse_token", "_parse_step"] and "MLIRTokenKind.ARROW" in ast.unparse(t.node)
    chk.result(order_ok, "C10.arity", f"{t.key}:order", t.where, "parser reads bounds, `->`, steps in the printer's order",
               f"parser reads {calls[:3]}; the printer emits bounds, `->`, steps")
    rets = [s for s in tfl.stmts(ast.Return) if s.reachable]
    chk.result(bool(rets) and all(has_fact(s, ["len($a) == len($b)"]) for s in rets), "C10.arity", f"{t.key}:equal-lengths", t.where,
               "a tiled stride is only built from equally long step and bound lists",
               "the parser builds a tiled stride without checking that as many steps as bounds were given (zip truncates)")


# --------------------------------------------------------------------------- affine map
def affine_map(repo: Repo, chk: Check) -> None:
    f, fl = flow_of(repo, chk, DIALECT, "TiledStridedLayoutAttr.get_affine_map")
    chk.rule(
        "C10.affine-digits",
        "get_affine_map adds, for every dimension d and tile level k, step_k * ((d mod prod(bounds[k:])) floordiv "
        "prod(bounds[k+1:])) (the mod may be omitted for the outermost level only)",
        floor=4,
    )
    augs = [s for s in fl.stmts(ast.AugAssign) if s.reachable and isinstance(s.node.op, ast.Add)]
    if not augs:
        raise AnalysisError(f"{f.where}: no `result += ...` terms found")
    seen_mod = False
    for n, s in enumerate(augs, 1):
        loops = [l for l in s.loops if isinstance(l, ast.For)]
        if len(loops) < 2:
            raise AnalysisError(f"{s.where()}: term is not inside the (dim, depth) loop nest")
        def index_var(lp: ast.For) -> str | None:
            # `for d in range(..)` or `for d, x in enumerate(..)`
            if isinstance(lp.target, ast.Name):
                return lp.target.id
            if isinstance(lp.target, ast.Tuple) and len(lp.target.elts) == 2 and isinstance(lp.target.elts[0], ast.Name) and isinstance(lp.iter, ast.Call) \
                    and callee_name(lp.iter) == "enumerate":
                return lp.target.elts[0].id
            return None

        dim_v, dep_v = index_var(loops[0]), index_var(loops[1])
        if dim_v is None or dep_v is None:
            raise AnalysisError(f"{s.where()}: the (dim, depth) loop variables were not recognised")
        v = expand_with_loops(s, s.node.value)
        b = {"d": dim_v, "k": dep_v}
        m = norm.any_match(["$st * (AffineDimExpr($d) % $mod // $fd)", "AffineDimExpr($d) % $mod // $fd * $st"], v, {"d": dim_v})
        m0 = norm.any_match(["$st * (AffineDimExpr($d) // $fd)", "AffineDimExpr($d) // $fd * $st"], v, {"d": dim_v})
        key = f"{f.key}:term#{n}"
        if m is None and m0 is None:
            raise AnalysisError(f"{s.where()}: term {ast.unparse(v)[:120]} is not of the form step * ((d % M) // F)")
        mm = m or m0
        assert mm is not None
        # F = product of bounds of levels k+1..
        def prod_over(e: ast.expr, lo: str) -> bool:
            for _, pm in subexprs(e, "prod([$x.bound for $x in $seq if $x.bound])") + subexprs(e, "prod(($x.bound for $x in $seq if $x.bound))") + \
                    subexprs(e, "prod([$x.bound for $x in $seq])"):
                seq = pm["seq"]
                ms = norm.match(T("self.data.tstrides[$d].strides[$sl]"), seq, {"d": dim_v})
                if ms is not None and isinstance(ms["sl"], ast.Slice) and ms["sl"].upper is None and ms["sl"].lower is not None:
                    if ast.unparse(ms["sl"].lower).replace(" ", "") == lo.replace("$k", dep_v or "").replace(" ", ""):
                        return True
            return False

        ok_f = prod_over(mm["fd"], "$k+1")
        chk.result(ok_f, "C10.affine-digits", key + ":floordiv", s.where(),
                   "the divisor is the product of the bounds of all inner levels (k+1..)",
                   f"the floordiv divisor is {ast.unparse(mm['fd'])[:120]}; expected prod of bounds of strides[depth+1:] of this dimension")
        if m is not None:
            seen_mod = True
            ok_m = prod_over(m["mod"], "$k")
            chk.result(ok_m, "C10.affine-digits", key + ":mod", s.where(),
                       "the modulus is the product of the bounds of this and all inner levels (k..)",
                       f"the modulus is {ast.unparse(m['mod'])[:120]}; expected prod of bounds of strides[depth:] (the cumulative tile size, not the level's own bound)")
        else:
            chk.result(bool(has_fact(s, ["$k <= 0", "$k == 0", "not $k > 0", "not $k"], {"k": dep_v})), "C10.affine-digits", key + ":no-mod-only-outermost", s.where(),
                       "the term without modulus is used for the outermost level only",
                       "a term without `mod` is used for an inner tile level: the digit is not reduced to its range", s.fact_texts)
        st = mm["st"]
        ok_s = norm.any_match(["self.data.get_stride($d, $k).step", "self.data.tstrides[$d].strides[$k].step"], st, b) is not None
        chk.result(ok_s, "C10.affine-digits", key + ":step", s.where(), "the digit is scaled by the step of the same (dim, depth)",
                   f"the digit of (dim, depth) is scaled by {ast.unparse(st)[:80]}")
        it0 = s.expand(loops[0].iter) if False else loops[0].iter
        it_dim, it_dep = s.expand(loops[0].iter), expand_with_loops(s, loops[1].iter)
        ok_l = norm.any_match(["range(self.data.dimension())", "enumerate(self.data.tstrides)", "range(len(self.data.tstrides))"], it_dim) is not None and (
            depends_on(fl.cone(loops[1].iter, s, inline=0), "self.data.tstrides[$d].depth()", binds={"d": dim_v})
            or norm.any_match(["enumerate(self.data.tstrides[$d].strides)", "range(len(self.data.tstrides[$d].strides))"], it_dep, {"d": dim_v}) is not None)
        chk.result(ok_l, "C10.affine-digits", key + ":all-levels", s.where(), "terms are added for every dimension and every tile level")
    if not seen_mod:
        chk.bad("C10.affine-digits", f"{f.key}:mod-term", f.where, "no term with a modulus: inner digits are not reduced")


# --------------------------------------------------------------------------- from_stride
def from_stride(repo: Repo, chk: Check) -> None:
    f, fl = flow_of(repo, chk, TSTRIDE, "TiledStride.from_stride")
    simple, bounds = f.param(0), f.param(1)
    chk.rule("C10.from-stride", "from_stride: innermost step = the given stride; each outer step = next-inner step * next-inner bound (None absorbing); steps zip with the tile bounds", floor=3)
    loops = [s for s in fl.stmts(ast.For) if s.reachable]
    ok_iter = any(norm.match(T("reversed($b[1:])"), s.node.iter, {"b": bounds}) is not None for s in loops)
    chk.result(ok_iter, "C10.from-stride", f"{f.key}:iteration", loops[0].where() if loops else f.where,
               "outer steps are derived from the inner bounds, innermost first (reversed(tile_bounds[1:]))",
               "the loop deriving outer steps does not run over reversed(tile_bounds[1:])")
    ok_step = False
    reversed_steps = None
    for s in fl.stmts(ast.Assign):
        if s.loops:
            v = s.node.value
            lv = s.loops[-1].target.id if isinstance(s.loops[-1], ast.For) and isinstance(s.loops[-1].target, ast.Name) else None
            if lv and norm.any_match(["[$b * $s[0] if $b and $s[0] else None, *$s]", "[$s[0] * $b if $b and $s[0] else None, *$s]",
                                      "[$b * $s[0] if $s[0] and $b else None, *$s]",
                                      "[$b * $s[0] if $b is not None and $s[0] is not None else None, *$s]"], v, {"b": lv}) is not None:
                ok_step = True
    for s in fl.calls("insert"):
        # the same step prepended in place: `steps.insert(0, bound * steps[0] if bound and steps[0] else None)`
        c_ = s.node
        lv = s.loops[-1].target.id if s.loops and isinstance(s.loops[-1], ast.For) and isinstance(s.loops[-1].target, ast.Name) else None
        if lv and len(c_.args) == 2 and isinstance(c_.args[0], ast.Constant) and c_.args[0].value == 0 and isinstance(c_.func, ast.Attribute):
            lst_ = ast.unparse(c_.func.value)
            if norm.any_match(["$b * $s[0] if $b and $s[0] else None", "$s[0] * $b if $b and $s[0] else None", "$b * $s[0] if $s[0] and $b else None",
                               "$b * $s[0] if $b is not None and $s[0] is not None else None"], s.expand(c_.args[1]), {"b": lv, "s": lst_}) is not None:
                ok_step = True
    for s in fl.calls("append"):
        # innermost-first: `steps.append(bound * steps[-1] if bound and steps[-1] else None)` with a single reversal before the zip
        c_ = s.node
        lv = s.loops[-1].target.id if s.loops and isinstance(s.loops[-1], ast.For) and isinstance(s.loops[-1].target, ast.Name) else None
        if lv and len(c_.args) == 1 and isinstance(c_.func, ast.Attribute):
            lst_ = ast.unparse(c_.func.value)
            if norm.any_match(["$b * $s[-1] if $b and $s[-1] else None", "$s[-1] * $b if $b and $s[-1] else None", "$b * $s[-1] if $s[-1] and $b else None"],
                              s.expand(c_.args[0]), {"b": lv, "s": lst_}) is not None:
                rev = [x for x in fl.calls("reverse") if x.reachable and not x.loops and ast.unparse(x.node.func.value) == lst_]  # type: ignore[attr-defined]
                rev_slices = [n for n in ast.walk(f.node) if isinstance(n, ast.Subscript) and ast.unparse(n.value) == lst_ and ast.unparse(n.slice) == "::-1"]
                if len(rev) + len(rev_slices) == 1:
                    ok_step = True
                    reversed_steps = lst_
    chk.result(ok_step, "C10.from-stride", f"{f.key}:chain", f.where, "new outer step = bound * (current outermost step), None if either is dynamic",
               "the step chain of from_stride changed: expected `[bound * steps[0] if bound and steps[0] else None, *steps]`")
    ok_ret = False
    init_ok = any(s.node.value is not None and norm.match(T("[$s]"), s.node.value, {"s": simple}) is not None for s in fl.stmts(ast.Assign, ast.AnnAssign) if not s.loops)
    for s in fl.stmts(ast.Return):
        v = s.node.value
        if subexprs(v, "TiledStride([Stride($a, $b) for $a, $b in zip($st, $tb)])", {"tb": bounds}):
            ok_ret = True
    chk.result(ok_ret and init_ok, "C10.from-stride", f"{f.key}:zip", f.where, "steps start from the simple stride and are zipped with the tile bounds in order")


# --------------------------------------------------------------------------- canonicalize
def canonicalize(repo: Repo, chk: Check, rule: str = "C10.canon") -> None:
    f, fl = flow_of(repo, chk, TSTRIDE, "TiledStride.canonicalize")
    chk.rule(
        rule,
        "TiledStride.canonicalize merges an outer level into the inner one only under inner.step * inner.bound == "
        "outer.step (merged = (inner.step, inner.bound * outer.bound)), drops a level only if its bound is 1, and "
        "always keeps the innermost level",
        floor=4,
    )
    loops = [s for s in fl.stmts(ast.For) if s.reachable]
    if not loops:
        raise AnalysisError(f"{f.where}: loop over the strides not found")
    lv = loops[0].node.target.id if isinstance(loops[0].node.target, ast.Name) else None
    # the innermost level may be put into the collected list up front (`kept = self.strides[-1:]`) and the loop run over the others
    seeded = norm.match(T("reversed(self.strides[:-1])"), loops[0].node.iter) is not None and any(
        isinstance(st_.node, (ast.Assign, ast.AnnAssign)) and st_.node.value is not None and norm.any_match(["self.strides[-1:]", "list(self.strides[-1:])", "[*self.strides[-1:]]"], st_.node.value) is not None
        and not st_.loops for st_ in fl.stmts(ast.Assign, ast.AnnAssign))
    chk.result(norm.match(T("reversed(self.strides)"), loops[0].node.iter) is not None or seeded, rule, f"{f.key}:inner-first", loops[0].where(),
               "levels are visited innermost first")
    # merges: stores strides[0] = Stride(...)
    def _merged_value(s: Site) -> ast.expr | None:
        """the Stride a store puts into the collected list: written in place, or what a helper is known to return (`<call> is Stride(..)`)"""
        v_ = norm.primary(s.expand(s.node.value))
        if isinstance(v_, ast.Call) and callee_name(v_) == "Stride":
            return v_
        if isinstance(v_, ast.Call):
            txt = ast.unparse(norm.canon(v_))
            for fa in s.facts:
                if fa.kind == "atom" and isinstance(fa.expr, ast.Compare) and len(fa.expr.ops) == 1 and isinstance(fa.expr.ops[0], ast.Is) and ast.unparse(fa.expr.left) == txt \
                        and isinstance(fa.expr.comparators[0], ast.Call) and callee_name(fa.expr.comparators[0]) == "Stride":
                    return fa.expr.comparators[0]
        return None

    merges = [s for s in fl.stmts(ast.Assign) if s.reachable and s.loops and isinstance(s.node.targets[0], ast.Subscript) and _merged_value(s) is not None]
    if not merges:
        raise AnalysisError(f"{f.where}: merge `strides[0] = Stride(...)` not found")
    for s in merges:
        v = _merged_value(s)
        assert v is not None
        m = norm.any_match(["Stride($p.step, $p.bound * $o.bound)", "Stride($p.step, $o.bound * $p.bound)"], v, {"o": lv})
        chk.result(m is not None, rule, f"{f.key}:merged-value", s.where(), "merged level = (inner step, inner bound * outer bound)",
                   f"merged level is {ast.unparse(v)[:80]}")
        if m is not None:
            p = m["p"]
            ok = bool(has_fact(s, ["$p.step * $p.bound == $o.step", "$o.step == $p.step * $p.bound", "$p.bound * $p.step == $o.step"], {"p": p, "o": lv}))
            chk.result(ok, rule, f"{f.key}:merge-condition", s.where(),
                       "merge only when the outer step continues the inner level exactly (inner.step * inner.bound == outer.step)",
                       "two tile levels are merged on a path where `inner.step * inner.bound == outer.step` is not established: the merged "
                       "level addresses different elements", s.fact_texts)
    # drops: `continue` without inserting
    conts = [s for s in fl.stmts(ast.Continue) if s.reachable]
    parent: dict[int, ast.AST] = {}
    for nd in ast.walk(f.node):
        for ch in ast.iter_child_nodes(nd):
            parent[id(ch)] = nd
    for n, s in enumerate(conts, 1):
        par = parent.get(id(s.node))
        # the innermost level: `if <nothing collected yet>: insert; continue`
        kept = isinstance(par, ast.If) and s.node in par.body and norm.any_match(["len($x) == 0", "not $x"], norm.canon(par.test)) is not None \
            and any(isinstance(x, ast.Call) and callee_name(x) in ("insert", "append") for st in par.body for x in ast.walk(st))
        if kept:
            chk.ok(rule, f"{f.key}:keep-innermost", s.where(), "the innermost level is always kept")
            continue
        # "not the innermost": an earlier `continue` took the first level away, or something has been collected already
        not_first = any(isinstance(parent.get(id(c.node)), ast.If) and c.line < s.line for c in conts if c is not s) or bool(has_fact(
            s, ["len($x) != 0", "len($x) > 0", "$x", "($x[-1] if $x else None) is not None", "($x[0] if $x else None) is not None"]))
        ok = bool(has_fact(s, ["$o.bound == 1"], {"o": lv})) and (not_first or seeded)
        chk.result(ok, rule, f"{f.key}:drop@{n}", s.where(), "a level is dropped only if its bound is 1 and it is not the innermost",
                   "a level is skipped under a condition other than `bound == 1 and not innermost`", s.fact_texts)
    ins = [s for s in fl.calls("insert", "append") if s.reachable]  # collected outermost-first (insert(0, ..)) or innermost-first (append)
    first_keep = [s for s in ins if has_fact(s, ["len($x) == 0", "not $x", "($x[-1] if $x else None) is None", "($x[0] if $x else None) is None"])]
    if not first_keep and seeded:
        first_keep = [loops[0]]
    if not first_keep:
        # written without a test of its own: every condition on the way to the insert is of the form `<nothing collected> or ..`
        # (`if kept and <drop>: continue`, `if kept and <merge>: .. else: kept.append(stride)`), i.e. with an empty list the insert is reached
        def _empty_implies(fa, lst: str) -> bool:
            if fa.kind != "atom":
                return False
            e_ = norm.primary(fa.expr)
            ds = e_.values if isinstance(e_, ast.BoolOp) and isinstance(e_.op, ast.Or) else [e_]
            return any(norm.any_match(["len($x) == 0", "not $x", "($x[-1] if $x else None) is None", "($x[0] if $x else None) is None"],
                                      d_, {"x": ast.Name(lst, ast.Load())}) is not None for d_ in ds)

        for s in ins:
            recv = s.node.func.value if isinstance(s.node.func, ast.Attribute) else None
            if isinstance(recv, ast.Name) and s.loops and len(s.state.alts) == 1 and all(_empty_implies(fa, recv.id) for fa in s.facts) \
                    and s.node.args and ast.unparse(s.node.args[-1]) == lv:
                first_keep.append(s)
    chk.result(bool(first_keep), rule, f"{f.key}:innermost-inserted", first_keep[0].where() if first_keep else f.where,
               "the innermost level is inserted unconditionally (before any merge/drop test)",
               "the innermost level is no longer kept unconditionally")


# --------------------------------------------------------------------------- largest common contiguous block
def lccb(repo: Repo, chk: Check, rule: str = "C10.lccb") -> None:
    f, fl = flow_of(repo, chk, TSL, "TiledStridedLayout.largest_common_contiguous_block")
    other = f.param(1)
    chk.rule(
        rule,
        "a stride joins the common contiguous block only if its step equals the running extent and the other layout has an "
        "equal stride at the same (dim, depth); the running extent becomes step * bound",
        floor=3,
    )
    apps = [s for s in fl.calls("append") if s.reachable]
    if not apps:
        raise AnalysisError(f"{f.where}: append to the result not found")
    for s in apps:
        a = s.node.args[0]
        ok = bool(has_fact(s, ["$a == $o.get_stride($d, $k)", "$o.get_stride($d, $k) == $a"], {"a": a, "o": other}))
        chk.result(ok, rule, f"{f.key}:common", s.where(), "only strides equal in both layouts are appended",
                   "a stride is appended to the common block without being equal to the other layout's stride at the same position", s.fact_texts)
    # nothing but the block built stride by stride (or the single-element default) is ever returned
    built = {ast.unparse(s.node.func.value) for s in apps if isinstance(s.node.func, ast.Attribute)}
    for n_, s in enumerate([x for x in fl.stmts(ast.Return) if x.reachable and x.node.value is not None], 1):
        v = norm.primary(s.node.value)
        parts = v.values if isinstance(v, ast.BoolOp) and isinstance(v.op, ast.Or) else [v]
        okp = True
        for part in parts:
            part = norm.primary(part)
            if isinstance(part, ast.Name) and part.id in built:
                continue
            e_ = norm.primary(s.expand(part))
            if norm.any_match(["[Stride($s, 1)]"], e_) is not None or (isinstance(part, ast.Name) and any(
                    norm.any_match(["[Stride($s, 1)]"], norm.primary(d_)) is not None for d_ in fl.alldefs.get(part.id, []))):
                continue
            okp = False
        chk.result(okp, rule, f"{f.key}:returns-built-block#{n_}", s.where(),
                   "the returned block is the list built under the contiguity and equality conditions (or the one-element default)",
                   f"`{ast.unparse(s.node.value)[:100]}` is returned without having been built stride by stride: strides enter the 'contiguous' block "
                   "without `step == running extent` (two identical padded layouts then become one 1-D transfer over the gaps)")
    sel = False
    cur = None
    for n in ast.walk(f.node):
        if isinstance(n, (ast.GeneratorExp, ast.ListComp)):
            for g in n.generators:
                for c in g.ifs:
                    m = norm.any_match(["$s.step == $c", "$c == $s.step"], c)
                    if m is not None and isinstance(m["c"], ast.Name):
                        sel = True
                        cur = m["c"].id
    chk.result(sel, rule, f"{f.key}:continues-extent", f.where, "candidates are selected by step == running extent",
               "the next stride is no longer selected by `step == current extent`: the block is not contiguous")
    upd = [s for s in fl.stmts(ast.Assign) if s.reachable and isinstance(s.node.targets[0], ast.Name) and s.node.targets[0].id == cur and s.loops]
    def _leaves(e: ast.expr) -> list[ast.expr]:
        e = norm.primary(e)  # type: ignore[assignment]
        return _leaves(e.body) + _leaves(e.orelse) if isinstance(e, ast.IfExp) else [e]

    good = bad = 0
    for s in upd:
        for leaf in _leaves(s.node.value):
            if isinstance(leaf, ast.Constant) and leaf.value is None:
                continue  # a dynamic stride ends the search: nothing has step None
            if norm.any_match(["$s.step * $s.bound", "$s.bound * $s.step"], leaf) is not None \
                    or norm.any_match(["$s.step * $s.bound", "$s.bound * $s.step"], norm.primary(s.expand(leaf))) is not None:
                good += 1
            elif any(isinstance(x, ast.Call) for x in ast.walk(leaf)):
                raise AnalysisError(f"{s.where()}: running extent set to `{ast.unparse(leaf)[:80]}`, a call this rule does not see through")
            else:
                bad += 1
    chk.result(good > 0 and bad == 0, rule, f"{f.key}:extent-update", upd[0].where() if upd else f.where, "running extent := step * bound of the appended stride")


# --------------------------------------------------------------------------- dense = onto AND one-to-one
def dense(repo: Repo, chk: Check) -> None:
    chk.rule(
        "C10.dense-injective",
        "is_dense answers True only for layouts that do not overlap themselves: under `not self.self_overlaps()`, or by comparing the "
        "address range with the number of INDEX TUPLES (the un-deduplicated enumeration) - a count of distinct addresses accepts "
        "layouts that fold several elements onto one address and still leave no gap",
        floor=1,
    )
    f, fl = flow_of(repo, chk, TSL, "TiledStridedLayout.is_dense")
    rets = [s for s in fl.stmts(ast.Return) if s.reachable and s.node.value is not None and not (isinstance(s.node.value, ast.Constant) and s.node.value.value is False)]
    if not rets:
        raise AnalysisError(f"{f.where}: no return that can answer True")
    for n_, s in enumerate(rets, 1):
        key = f"{f.key}:true-return#{n_}"
        if every_alt_has(s, ["not self.self_overlaps()"]):
            chk.ok("C10.dense-injective", key, s.where(), "True is only answered for layouts without self-overlap")
            continue
        v = fl.cone(s.node.value, s, inline=0)
        counts = [c for c in ast.walk(v) if (isinstance(c, ast.Call) and callee_name(c) == "len" and c.args) or (isinstance(c, ast.Attribute) and c.attr == "size")]
        if not counts:
            raise AnalysisError(f"{s.where()}: is_dense neither tests self_overlaps() nor compares against a count")
        dedup = any(any(isinstance(x, ast.Call) and callee_name(x) in ("unique", "set", "frozenset") for x in ast.walk(c)) for c in counts)
        chk.result(not dedup and any(norm.contains(c, T("self.all_values()")) for c in counts), "C10.dense-injective", key, s.where(),
                   "the address range is compared with the number of index tuples",
                   "is_dense compares the address range with the number of DISTINCT addresses and does not test self_overlaps(): a self-overlapping "
                   "layout without gaps ([4] -> (1), [4] -> (1)) is reported dense, and constants are re-laid-out at compile time through a map that is not one-to-one")


def offset_static(repo: Repo, chk: Check) -> None:
    """the address map starts at the layout's offset. A dynamic offset (`offset: ?`, None) is a run-time value the map cannot contain: the map is refused,
    as it is for dynamic strides - not built as if the offset were 0"""
    chk.rule("C10.offset-static", "get_affine_map takes its constant term from self.data.offset itself and only where that offset is known (not None): no default stands in "
             "for a dynamic offset", floor=1)
    f, fl = flow_of(repo, chk, DIALECT, "TiledStridedLayoutAttr.get_affine_map")
    consts = [s for s in fl.calls("AffineConstantExpr") if s.reachable and s.node.args and norm.contains(fl.cone(s.node.args[0], s, inline=0), T("self.data.offset"))]
    if not consts:
        raise AnalysisError(f"{f.where}: the constant term built from self.data.offset was not found")
    for n_, s in enumerate(consts, 1):
        a = norm.primary(s.expand(s.node.args[0]))
        plain = norm.match(T("self.data.offset"), a) is not None
        known = bool(has_fact(s, ["self.data.offset is not None"]))
        chk.result(plain and known, "C10.offset-static", f"{f.key}:constant-term#{n_}", s.where(), "the constant term is the (known) offset of the layout",
                   f"the constant term is `{ast.unparse(a)[:60]}`" + ("" if known else " on a path where the offset may be None") +
                   ": for a layout with a dynamic offset the map of the offset-0 layout is handed out, and stream addresses disagree with where the data is", s.fact_texts)


def overlap_enumerated(repo: Repo, chk: Check) -> None:
    """self_overlaps is the overlap predicate OF the enumeration: its verdict is a function of all_values(). A verdict taken from anything else
    (steps and bounds in closed form) is one more independently written view of the layout; whether it agrees with the enumeration for every layout
    (unit bounds, repeated steps, dynamic entries) is not something this analysis can compare, so such a return is an analysis error, never a pass"""
    chk.rule("C10.overlap-enumerated", "every verdict of self_overlaps is computed from the enumeration all_values() (the same enumeration is_dense measures)", floor=1)
    f, fl = flow_of(repo, chk, TSL, "TiledStridedLayout.self_overlaps")
    rets = [s for s in fl.stmts(ast.Return) if s.reachable and s.node.value is not None]
    if not rets:
        raise AnalysisError(f"{f.where}: self_overlaps has no return")
    for n_, s in enumerate(rets, 1):
        v = fl.cone(s.node.value, s, inline=0)
        if not norm.contains(v, T("self.all_values()")):
            raise AnalysisError(f"{s.where()}: self_overlaps answers `{ast.unparse(s.node.value)[:60]}` without consulting all_values(): a second, closed-form overlap test "
                                "that this analysis cannot compare with the enumeration")
        chk.ok("C10.overlap-enumerated", f"{f.key}:return#{n_}", s.where(), "the verdict is computed from all_values()")


# --------------------------------------------------------------------------- op builders
def op_builders(repo: Repo, chk: Check) -> None:
    chk.rule("C10.view-coverage", "get_bound_ops / get_step_ops produce an entry for every (dim, depth); static steps are scaled by the element size when bytes are requested", floor=4)
    f, fl = flow_of(repo, chk, DIALECT, "TiledStridedLayoutAttr.get_bound_ops")
    # the mapping is whatever the function returns second (not a name)
    maps = {ast.unparse(r.node.value.elts[1]) for r in fl.stmts(ast.Return) if isinstance(r.node.value, ast.Tuple) and len(r.node.value.elts) == 2 and isinstance(r.node.value.elts[1], ast.Name)}
    if len(maps) != 1:
        raise AnalysisError(f"{f.where}: the returned (ops, mapping) pair not found")
    mapping = maps.pop()
    stores = [s for s in fl.stmts(ast.Assign) if s.reachable and isinstance(s.node.targets[0], ast.Subscript) and ast.unparse(s.node.targets[0].value) == mapping]
    outer = [s for s in stores if not any(isinstance(l, ast.For) and norm.match(T("range(1, $_.depth())"), l.iter) is not None for l in s.loops)]
    inner = [s for s in stores if s not in outer]
    ok_outer = len(outer) >= 2 and any(has_fact(s, ["$s.bound is not None"]) for s in outer) and any(has_fact(s, ["$s.bound is None"]) for s in outer)
    chk.result(ok_outer, "C10.view-coverage", f"{f.key}:outermost", f.where, "the outermost level gets a bound in the static and in the dynamic case")
    chk.result(bool(inner), "C10.view-coverage", f"{f.key}:inner-levels", f.where, "every inner level (1..depth) gets a bound")
    dyn = [s for s in fl.calls("DivUIOp") if s.reachable]
    okd = False
    for s in dyn:
        e = s.expand(s.node.args[1]) if len(s.node.args) > 1 else None
        forms = ["prod([$x.bound for $_, $x in $t.tstrides[$d] if $x.bound])", "prod(($x.bound for $_, $x in $t.tstrides[$d] if $x.bound))",
                 "prod([$x.bound for $x in $t.tstrides[$d].strides if $x.bound])", "prod(($x.bound for $x in $t.tstrides[$d].strides if $x.bound))",
                 "prod([$x.bound for $x in $t.tstrides[$d].strides if $x.bound is not None])", "prod([$x.bound for $_, $x in $t.tstrides[$d] if $x.bound is not None])"]
        if e is not None and any(subexprs(e, t_) for t_ in forms):
            okd = True
    if not okd and dyn and any(isinstance(c_, ast.Call) and isinstance(c_.func, ast.Name) and c_.func.id not in ("prod", "int", "len") for s in dyn if len(s.node.args) > 1
                               for c_ in ast.walk(fl.cone(s.node.args[1], s, inline=0))):
        raise AnalysisError(f"{dyn[0].where()}: the divisor of the dynamic outermost bound is computed by a call that is not looked through")
    chk.result(okd, "C10.view-coverage", f"{f.key}:dynamic-bound", dyn[0].where() if dyn else f.where,
               "a dynamic outermost bound = dim size / product of the static inner tile bounds of the same dimension")
    g, gfl = flow_of(repo, chk, DIALECT, "TiledStridedLayoutAttr.get_step_ops")
    consts = [s for s in gfl.calls("from_int_and_width") if s.reachable and s.loops]
    oks = False
    for s in consts:
        m = norm.any_match(["$s.step * $e", "$e * $s.step"], s.node.args[0])
        if m is not None and norm.contains(gfl.cone(m["e"], s, inline=0), T("$t.element_type.size")):
            oks = True
    chk.result(oks, "C10.view-coverage", f"{g.key}:static-step-bytes", consts[0].where() if consts else g.where,
               "static steps are multiplied by the element size (1 when element units are requested)",
               "static step ops are no longer scaled by el_bytes")
    loops = [s for s in gfl.stmts(ast.For) if s.reachable]
    okl = any(norm.match(T("reversed(range($t.dimension()))"), s.node.iter) is not None for s in loops) and any(
        norm.match(T("reversed(range($t.tstrides[$d].depth()))"), s.node.iter) is not None for s in loops)
    chk.result(okl, "C10.view-coverage", f"{g.key}:all-levels", g.where, "steps are assigned for every dimension and depth, innermost first")


# --------------------------------------------------------------------------- subview pointer arithmetic
M2A = "snaxc/transforms/convert_memref_to_arith.py"


def subview_pointer(repo: Repo, chk: Check) -> None:
    chk.rule(
        "C10.subview-pointer",
        "subview lowering on a tiled-strided source: the k-th dynamic offset operand is paired with the dimension of the k-th DYNAMIC entry of "
        "static_offsets (the operand list holds only the dynamic offsets); that dimension's pointer term is "
        "(offset div product of the inner tile bounds) * outermost step * element bytes, all three read at the same dimension",
        floor=3,
    )
    f, fl = flow_of(repo, chk, M2A, "LowerExtractAlignedPointerOp.match_and_rewrite")
    key = f.key
    # the loop that builds one pointer term per (offset, dimension) pair: the one that divides an offset by a tile size
    divs0 = [s for s in fl.calls("DivUIOp") if s.reachable and any(isinstance(l, ast.For) for l in s.loops)]
    if not divs0:
        raise AnalysisError(f"{f.where}: no DivUIOp inside a loop over the subview's offsets")
    loop = [l for l in divs0[0].loops if isinstance(l, ast.For)][-1]
    lsite = next((x for x in fl.stmts(ast.For) if x.node is loop), None)
    if lsite is None or not (isinstance(loop.target, ast.Tuple) and len(loop.target.elts) == 2 and all(isinstance(e, ast.Name) for e in loop.target.elts)):
        raise AnalysisError(f"{f.where}: the loop over (offset, dimension) pairs is not recognised: `for {ast.unparse(loop.target)} in {ast.unparse(loop.iter)[:60]}`")
    off_v, dim_v = (e.id for e in loop.target.elts)  # type: ignore[attr-defined]

    def _dynamic_positions(e: ast.expr, site: Site) -> bool:
        cone = fl.cone(e, site, inline=0)
        return depends_on(cone, "$_ == DYNAMIC_INDEX", "$_ != DYNAMIC_INDEX", "$_ is DYNAMIC_INDEX", "$_ == memref.DYNAMIC_INDEX", "$_ == builtin.DYNAMIC_INDEX") and norm.contains(
            cone, T("$v.static_offsets"))

    # where the pairs come from
    sources: list[tuple[str, bool, str, str]] = []  # (kind, ok, where, detail)
    it = loop.iter
    pair_list = it.id if isinstance(it, ast.Name) else None
    zips: list[tuple[ast.Call, Site]] = []
    n = 0
    if pair_list is None:
        zips = [(c, lsite) for c in ast.walk(it) if isinstance(c, ast.Call) and callee_name(c) == "zip"]
    else:
        for st in fl.stmts(ast.Assign, ast.AnnAssign):
            tgt = st.node.targets[0] if isinstance(st.node, ast.Assign) else st.node.target
            if st.reachable and isinstance(tgt, ast.Name) and tgt.id == pair_list and st.node.value is not None:
                zs = [c for c in ast.walk(st.node.value) if isinstance(c, ast.Call) and callee_name(c) == "zip"]
                v0 = st.node.value
                if not zs and isinstance(v0, ast.ListComp) and len(v0.generators) == 1 and isinstance(v0.elt, ast.Tuple) and len(v0.elt.elts) == 2 and isinstance(v0.elt.elts[1], ast.Name):
                    # [(offset, dim) for dim, offset in enumerate(<operands>)]: the dimension is the position in the operand list
                    g0 = v0.generators[0]
                    me = norm.match(T("enumerate($s)"), g0.iter)
                    if me is not None and isinstance(g0.target, ast.Tuple) and len(g0.target.elts) == 2 and isinstance(g0.target.elts[0], ast.Name) \
                            and g0.target.elts[0].id == v0.elt.elts[1].id and norm.match(T("$v.offsets"), norm.primary(st.expand(me["s"]))) is not None:
                        n += 1
                        chk.bad("C10.subview-pointer", f"{key}:dimension-of-operand#{n}", st.where(),
                                f"the dimension paired with a dynamic offset operand is its position in the operand list (`{ast.unparse(v0)[:80]}`), not the position of the DYNAMIC "
                                "entry of static_offsets it belongs to: with a static offset in front of a dynamic one the operand is scaled with another dimension's step and tile size")
                        continue
                if not zs and not (isinstance(st.node.value, ast.List) and not st.node.value.elts):
                    raise AnalysisError(f"{st.where()}: the list of (offset, dimension) pairs is initialised from `{ast.unparse(st.node.value)[:80]}`, which is not recognised")
                zips += [(c, st) for c in zs]
    for c, st in zips:
        if len(c.args) != 2:
            raise AnalysisError(f"{st.where()}: `{ast.unparse(c)[:80]}` does not pair offsets with dimensions")
        n += 1
        is_ops = norm.match(T("$v.offsets"), norm.primary(st.expand(c.args[0]))) is not None
        dyn = _dynamic_positions(c.args[1], st)
        chk.result(is_ops and dyn, "C10.subview-pointer", f"{key}:dimension-of-operand#{n}", st.where(),
                   "the k-th dynamic offset operand is paired with the position of the k-th DYNAMIC entry of static_offsets",
                   f"the dimension `{ast.unparse(c.args[1])[:60]}` paired with a dynamic offset operand does not come from the positions of the DYNAMIC entries of "
                   "static_offsets: with a static offset in front of a dynamic one the operand is scaled with another dimension's step and tile size")
    static_ok = None
    if pair_list is not None:
        for ap in fl.calls("append"):
            if not ap.reachable or ast.unparse(ap.node.func.value) != pair_list or not ap.node.args:  # type: ignore[attr-defined]
                continue
            pr = ap.node.args[0]
            en = [l for l in ap.loops if isinstance(l, ast.For) and norm.match(T("enumerate($s)"), l.iter) is not None and isinstance(l.target, ast.Tuple) and len(l.target.elts) == 2]
            if not (isinstance(pr, ast.Tuple) and len(pr.elts) == 2 and en):
                raise AnalysisError(f"{ap.where()}: `{ast.unparse(ap.node)[:80]}` adds an (offset, dimension) pair in a form that is not recognised")
            iv, sv = (e.id for e in en[-1].target.elts)  # type: ignore[attr-defined]
            over_static = norm.contains(fl.cone(en[-1].iter, ap, inline=0), T("$v.static_offsets"))
            val = fl.cone(pr.elts[0], ap, inline=0)
            same_dim = isinstance(pr.elts[1], ast.Name) and pr.elts[1].id == iv
            is_const = any(isinstance(c_, ast.Call) and callee_name(c_) in ("from_int_and_width", "ConstantOp") and sv in norm.free_names(c_) for c_ in ast.walk(val))
            # which static entries are skipped: only the DYNAMIC marker and zero
            conds = [fa.expr for fa in ap.facts if fa.kind == "atom" and sv in norm.free_names(fa.expr)]
            allowed = all(norm.any_match([f"{sv} != DYNAMIC_INDEX", f"{sv} != 0", f"{sv} is not DYNAMIC_INDEX", f"{sv} != memref.DYNAMIC_INDEX", f"{sv} != builtin.DYNAMIC_INDEX"], c_) is not None for c_ in conds)
            not_dyn = any(norm.any_match([f"{sv} != DYNAMIC_INDEX", f"{sv} is not DYNAMIC_INDEX", f"{sv} != memref.DYNAMIC_INDEX", f"{sv} != builtin.DYNAMIC_INDEX"], c_) is not None for c_ in conds)
            n += 1
            static_ok = over_static and same_dim and is_const and allowed and not_dyn
            chk.result(static_ok, "C10.subview-pointer", f"{key}:static-offsets", ap.where(),
                       "every non-zero static offset contributes a term for its own dimension",
                       f"static offsets are paired wrongly or skipped (over static_offsets: {over_static}, own dimension: {same_dim}, constant of the entry: {is_const}, "
                       f"only DYNAMIC / zero entries skipped: {allowed and not_dyn}; conditions {[ast.unparse(c_) for c_ in conds]})")
    if static_ok is None:
        chk.bad("C10.subview-pointer", f"{key}:static-offsets", lsite.where(),
                "only the dynamic offset operands of the subview contribute to the pointer: a non-zero static offset (memref.subview %m[8, %j]) is never added, "
                "the extracted pointer is that of another tile")
    # every use of a layout dimension inside that loop is the pair's dimension
    for s in fl.sites:
        if s.node is not s.stmt or not any(l is loop for l in s.loops):
            continue
        for node in ast.walk(s.node):
            m = norm.match(T("$l.tstrides[$i]"), node) if isinstance(node, ast.Subscript) else None
            if m is None:
                continue
            n += 1
            i_ = norm.primary(s.expand(m["i"]))
            chk.result(isinstance(i_, ast.Name) and i_.id == dim_v, "C10.subview-pointer", f"{key}:own-dimension#{n}", s.where(),
                       "the layout is read at the pair's own dimension",
                       f"the layout is read at `{ast.unparse(m['i'])}`, not at the dimension `{dim_v}` the offset belongs to")
    if n == 0:
        raise AnalysisError(f"{f.where}: no `<layout>.tstrides[i]` inside the loop over the subview's offsets")
    # what replaces the extracted pointer: the running pointer, named explicitly - or, if the rewriter is left to take the results of the last new op,
    # the last op created on every path has to be the pointer
    reps = [s for s in fl.calls("replace_op", "replace_matched_op") if s.reachable]
    if not reps:
        raise AnalysisError(f"{f.where}: the replacement of the extract_aligned_pointer op not found")
    for k_, s in enumerate(reps, 1):
        call = s.node
        res = kwarg(call, "new_results", 2 if callee_name(call) == "replace_op" else 1)
        if res is not None:
            cone = fl.cone(res, s, inline=0)
            okr = norm.contains(cone, T("ExtractAlignedPointerAsIndexOp.get($v.source)")) and any(isinstance(c_, ast.Call) and callee_name(c_) == "AddiOp" for c_ in ast.walk(cone))
            chk.result(okr, "C10.subview-pointer", f"{key}:replacement#{k_}", s.where(), "the op is replaced by the running pointer (base pointer plus the terms)",
                       f"the value that replaces the extracted pointer, `{ast.unparse(res)[:60]}`, is not the base pointer plus the per-dimension terms")
        else:
            # implicit: results of the last op of the list. Outside the loop the last op appended must be the base pointer
            lst = kwarg(call, "new_ops", 1 if callee_name(call) == "replace_op" else 0)
            lname = lst.id if isinstance(lst, ast.Name) else None
            outside = [x for x in fl.calls("append", "extend") if x.reachable and lname is not None and ast.unparse(x.node.func.value) == lname  # type: ignore[attr-defined]
                       and not any(l is loop for l in x.loops)]
            last = max(outside, key=lambda x: (x.line, getattr(x.node, "col_offset", 0)), default=None)
            okr = last is not None and last.node.args and norm.contains(fl.cone(last.node.args[0], last, inline=0), T("ExtractAlignedPointerAsIndexOp.get($v.source)"))
            chk.result(bool(okr), "C10.subview-pointer", f"{key}:replacement#{k_}", s.where(), "without any offset term the last new op is the base pointer",
                       "the op is replaced by the results of the LAST new op; for a subview without any offset term that is "
                       f"`{ast.unparse(last.node.args[0])[:50] if last is not None and last.node.args else '?'}`, not the base pointer: the extracted 'pointer' becomes that constant")
    # the term: DivUIOp(offset, prod(inner bounds)) * (outermost step * bytes)
    divs = [s for s in fl.calls("DivUIOp") if s.reachable and s.loops]
    okd = False
    for s in divs:
        if len(s.node.args) < 2:
            continue
        c = fl.cone(s.node.args[1], s, inline=0)
        okd = okd or any(
            isinstance(g, (ast.GeneratorExp, ast.ListComp)) and norm.contains(g.generators[0].iter, T("$l.tstrides[$i].strides[1:]")) and norm.contains(g.elt, T("$s.bound"))
            for g in ast.walk(c))
    chk.result(okd, "C10.subview-pointer", f"{key}:inner-tile-size", divs[0].where() if divs else f.where,
               "the offset is divided by the product of the bounds of the inner tile levels (strides[1:]) of its dimension",
               "the offset is not divided by the product of the inner tile bounds of its dimension")
    muls = [s for s in fl.calls("MuliOp") if s.reachable and s.loops]
    okm = False
    for s in muls:
        c = fl.cone(ast.Tuple(list(s.node.args), ast.Load()), s, inline=0)
        if norm.contains(c, T("$l.tstrides[$i].strides[0].step")) and (norm.contains(c, T("$e.size")) or norm.contains(c, T("$t.element_type.size"))) and any(
                isinstance(x, ast.Call) and callee_name(x) == "DivUIOp" for x in ast.walk(c)):
            okm = True
    chk.result(okm, "C10.subview-pointer", f"{key}:term", muls[0].where() if muls else f.where,
               "pointer term = (offset div inner tile size) * outermost step * element bytes",
               "the pointer term is no longer (offset div inner tile size) * outermost step of that dimension * element bytes")

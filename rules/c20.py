"""C20 — a merged processing element, configured as decoded, computes each kernel (DESIGN.md section 5, C20).

Claimed for the switch-count clause, the order of the decoded values and the completeness of the mux search;
that the decoded values make the merged PE compute the kernel is behavioural and not decided.
"""

from __future__ import annotations

import ast
import re

from sa import norm
from sa.errors import AnalysisError
from sa.flow import Flow, Site
from sa.model import Repo
from sa.norm import T
from sa.report import Check

from .common import callee_name, depends_on, flow_of, has_fact, subexprs

DECODE = "snaxc/phs/decode.py"
PHSD = "snaxc/dialects/phs.py"
ACC = "snaxc/accelerators/snax_phs.py"


def run(repo: Repo, chk: Check) -> None:
    chk.explanation = (
        "Shape agreement (F1/F5) by path enumeration over an abstract switch (kind in {choose, mux}, number of "
        "alternatives in {1,2,3}): PEOp.get_true_switches counts a switch exactly when decode_abstract_graph emits "
        "exactly one value for it on every non-raising path; values are emitted in get_switches() order into the list "
        "that is returned, mux placeholders are replaced in place; every collected mux takes part in the backtracking "
        "search, which tries both positions of every mux and accepts only mappings that valid_mapping confirms; the "
        "accelerator sizes its switch fields by the former and fills them by the latter. Decides these clauses, not that "
        "the decoded configuration computes the kernel."
    )
    switch_count(repo, chk)
    order(repo, chk)
    search(repo, chk)
    accelerator(repo, chk)
    merge(repo, chk)
    region_operands(repo, chk)
    valid_mapping_rule(repo, chk)


def valid_mapping_rule(repo: Repo, chk: Check) -> None:
    """valid_mapping is the oracle of the search: it accepts a mux assignment when every data operand of every choose / yield of the concrete kernel is,
    through the muxes, the SAME source as in the abstract graph - position by position. A position accepted because its routed source is merely one of
    the wanted sources (`routed in wanted`) lets two positions take the same source: op(a, a) is accepted for op(a, b)"""
    chk.rule("C20.valid-mapping", "valid_mapping pairs concrete and abstract data operands by position (strict zip) and moves on to the next position only under "
             "equality of the concrete operand's source and the followed abstract operand", floor=2)
    f, fl = flow_of(repo, chk, DECODE, "valid_mapping")
    conts = [s for s in fl.stmts(ast.Continue) if s.reachable]
    rejects = [s for s in fl.stmts(ast.Return) if s.reachable and s.loops and isinstance(s.node.value, ast.Constant) and s.node.value.value is False]
    pair_loops: list[ast.For] = []
    for s in rejects:
        for l in s.loops:
            if isinstance(l, ast.For) and isinstance(l.iter, ast.Call) and callee_name(l.iter) == "zip" and norm.contains(l.iter, T("$a.data_operands")) \
                    and isinstance(l.target, ast.Tuple) and len(l.target.elts) == 2 and all(isinstance(e, ast.Name) for e in l.target.elts) and l not in pair_loops:
                pair_loops.append(l)
    if len(pair_loops) != 1:
        raise AnalysisError(f"{f.where}: the loop pairing concrete and abstract data operands (with a rejecting `return False`) was not found")
    lp = pair_loops[0]
    strict = any(k.arg == "strict" and isinstance(k.value, ast.Constant) and k.value.value is True for k in lp.iter.keywords)  # type: ignore[union-attr]
    chk.result(strict and len(lp.iter.args) == 2, "C20.valid-mapping", f"{f.key}:pairing", f"{f.module.relpath}:{lp.lineno}",  # type: ignore[union-attr]
               "operands are paired by position, lengths must agree",
               "the operand lists are not paired with a strict zip: a kernel with fewer operands is accepted on a prefix")
    cv, av = lp.target.elts[0].id, lp.target.elts[1].id  # type: ignore[union-attr]
    head = next((x for x in fl.stmts(ast.For) if x.node is lp), None)
    base = {fa.text for alt in head.state.alts for fa in alt.facts.values()} | set(head.fact_texts) if head is not None else set()
    EQ = ["$x == _follow_operand($a, $m)", "_follow_operand($a, $m) == $x"]
    NE = ["$x != _follow_operand($a, $m)", "_follow_operand($a, $m) != $x"]
    n_ = 0
    # a position is rejected WHENEVER its source differs from the followed abstract operand: nothing else may be required for the rejection
    for s in rejects:
        if not any(l is lp for l in s.loops):
            continue
        n_ += 1
        key = f"{f.key}:reject#{n_}"
        member: list = []
        for alt in s.state.alts:  # the source may be spelled differently per path class (`source = opnd.index` / `= opnd.owner.name_prop.data`)
            own = [fa for fa in [*alt.facts.values(), *s.extra] if fa.text not in base]
            ne = [fa for fa in own if fa.kind == "atom" and norm.any_match(NE, fa.expr, {"a": av}) is not None]
            if not ne:
                raise AnalysisError(f"{s.where()}: a position is rejected under conditions this rule does not read: {[fa.text[:60] for fa in own][-3:]}")
            extra = [fa for fa in own if fa not in ne and not (fa.kind == "atom" and any(
                isinstance(c_, ast.Call) and callee_name(c_) in ("isinstance", "isa") and c_.args and cv in {n.id for n in ast.walk(c_.args[0]) if isinstance(n, ast.Name)}
                for c_ in ast.walk(fa.expr)))]
            mem = [fa for fa in extra if fa.kind == "atom" and any(isinstance(c_, ast.Compare) and any(isinstance(o_, (ast.In, ast.NotIn)) for o_ in c_.ops) for c_ in ast.walk(fa.expr))]
            if extra and not mem:
                raise AnalysisError(f"{s.where()}: the rejection of a position also requires {[fa.text[:60] for fa in extra][:2]}, which this rule does not read")
            member += mem
        chk.result(not member, "C20.valid-mapping", key, s.where(), "a position whose source differs from the followed abstract operand is rejected",
                   f"a differing position is rejected only if also `{member[0].text[:90] if member else ''}`: membership in the list of wanted sources, tested per position, lets two "
                   "positions be fed from the same source - a mux assignment computing op(a, a) is accepted for a kernel op(a, b) and the search returns it first", s.fact_texts)
    if n_ == 0:
        raise AnalysisError(f"{f.where}: no rejecting return in the operand loop")
    # where a position is accepted explicitly (`continue`), it is under the equality
    k_ = 0
    for s in conts:
        if not any(l is lp for l in s.loops):
            continue
        k_ += 1
        eq = all(any(fa.kind == "atom" and norm.any_match(EQ, fa.expr, {"a": av}) is not None for fa in [*alt.facts.values(), *s.extra]) for alt in s.state.alts)
        disj = any(fa.kind == "atom" and isinstance(norm.primary(fa.expr), ast.BoolOp) for alt in s.state.alts for fa in [*alt.facts.values(), *s.extra] if fa.text not in base)
        if not eq and not disj:
            raise AnalysisError(f"{s.where()}: a position is accepted under conditions this rule does not read: {s.fact_texts[-3:]}")
        chk.result(bool(eq), "C20.valid-mapping", f"{f.key}:accept#{k_}", s.where(), "a position is accepted under equality with the followed abstract operand",
                   "a position is accepted under a disjunction, not under equality of its source and the followed abstract operand", s.fact_texts)
    # no choose / yield of the concrete kernel is exempted from the comparison: the op loop around the pairing loop is left early (`continue`, `break`,
    # an accepting return) for no operation that is a choose or the yield
    outer = next((l for s in rejects for l in s.loops if isinstance(l, ast.For) and l is not lp and any(c is lp for c in ast.walk(l))), None)
    if outer is None:
        raise AnalysisError(f"{f.where}: the loop over the kernel's operations around the operand comparison was not found")
    skips = [s for s in [*fl.stmts(ast.Continue), *fl.stmts(ast.Break), *fl.stmts(ast.Return)] if s.reachable and any(l is outer for l in s.loops) and not any(l is lp for l in s.loops)
             and not (isinstance(s.node, ast.Return) and isinstance(s.node.value, ast.Constant) and s.node.value.value is False)]
    j_ = 0
    for s in skips:
        j_ += 1
        texts = [fa.text for alt in s.state.alts for fa in [*alt.facts.values(), *s.extra] if fa.kind == "atom"]
        on_op = [t for t in texts if re.match(r"isinstance\(\w+, (phs\.)?(YieldOp|ChooseOp)\)$", t)]
        vacuous = [t for t in texts if re.search(r"(not \w+\.data_operands$)|(len\(\w+\.data_operands\) (==|<) [01]$)", t)]
        if not on_op or vacuous:  # an operation without data operands has nothing to compare: not decided here
            raise AnalysisError(f"{s.where()}: the loop over the kernel's operations is left early under conditions this rule does not read: {texts[-3:]}")
        chk.bad("C20.valid-mapping", f"{f.key}:every-op#{j_}", s.where(),
                f"under `{on_op[0]}` the operation is passed over (`{ast.unparse(s.node)}`) before its data operands are compared with the followed abstract operands: "
                "a mux assignment that routes this operation differently is accepted, and the search returns the first such assignment", s.fact_texts)
    if not skips:
        chk.ok("C20.valid-mapping", f"{f.key}:every-op", f"{f.module.relpath}:{outer.lineno}", "every choose / yield of the kernel reaches the position-wise comparison")


def region_operands(repo: Repo, chk: Check) -> None:
    chk.rule(
        "C20.region-operands",
        "an operation placed into a choose region takes the region's block arguments BY POSITION (operand i = argument i): a clone through a "
        "value mapper keyed by the operation's own operand values merges the positions of a repeated operand (muli %x, %x becomes op(arg1, arg1)) "
        "and every later kernel re-using that region computes op(b, b)",
        floor=1,
    )
    n = 0
    funcs = [f for f in (list(repo.all_funcs()) + [m for c in repo.all_classes() for m in c.methods.values()])
             if f.module.relpath in ("snaxc/dialects/phs.py",) or f.module.relpath.startswith("snaxc/phs/")]
    for f in funcs:
        clones = [c for c in ast.walk(f.node) if isinstance(c, ast.Call) and isinstance(c.func, ast.Attribute) and c.func.attr == "clone"]
        if not clones:
            continue
        fl = Flow(f, repo)
        chk.analysed(f.key)
        for c in clones:
            site = next((x for x in fl.sites if x.node is c), None)
            mapper = c.args[0] if c.args else next((k.value for k in c.keywords if k.arg == "value_mapper"), None)
            n += 1
            key = f"{f.key}:clone@{c.lineno}"
            if mapper is None:
                chk.ok("C20.region-operands", key, f"{f.module.relpath}:{c.lineno}", "cloned without a value mapper", nontrivial=False)
                continue
            m_e = fl.cone(mapper, site, inline=0) if site is not None else mapper
            recv = ast.unparse(c.func.value)
            keyed_by_own_operands = False
            for d in ast.walk(m_e):
                if isinstance(d, ast.DictComp):
                    for g_ in d.generators:
                        if any(isinstance(x, ast.Attribute) and x.attr == "operands" for x in ast.walk(g_.iter)):
                            tv = {x.id for x in ast.walk(g_.target) if isinstance(x, ast.Name)}
                            if norm.free_names(d.key) & tv:
                                keyed_by_own_operands = True
                if isinstance(d, ast.Call) and callee_name(d) == "dict" and d.args and isinstance(d.args[0], ast.Call) and callee_name(d.args[0]) == "zip" \
                        and d.args[0].args and any(isinstance(x, ast.Attribute) and x.attr == "operands" for x in ast.walk(d.args[0].args[0])):
                    keyed_by_own_operands = True
            chk.result(not keyed_by_own_operands, "C20.region-operands", key, f"{f.module.relpath}:{c.lineno}",
                       "the value mapper is not keyed by the cloned operation's operand values",
                       f"`{recv}.clone(..)` maps operands through a dictionary keyed by the operand values: a repeated operand keeps only its last position")
    if n == 0:
        chk.ok("C20.region-operands", "snaxc/dialects/phs.py:no-clone", "snaxc/dialects/phs.py", "no operation is cloned through a value mapper in the PHS code", nontrivial=False)


# --------------------------------------------------------------------------- abstract path enumeration
def _cond(test: ast.expr, case: dict, var: str):
    """True / False / None (unknown) of a branch condition for an abstract switch"""
    t = norm.canon(test)
    m = norm.match(T(f"isinstance({var}, $c)"), t)
    if m is not None:
        # one class, a tuple of classes or a `A | B` union
        names = [ast.unparse(c_).split(".")[-1] for c_ in norm._isinstance_classes(m["c"])]
        mine = "ChooseOp" if case["kind"] == "choose" else "MuxOp"
        if mine in names:
            return True
        return False if set(names) <= {"ChooseOp", "MuxOp"} else None
    m = norm.any_match([f"isinstance({var}, phs.ChooseOp)", f"isinstance({var}, ChooseOp)"], t)
    if m is not None:
        return case["kind"] == "choose"
    m = norm.any_match([f"isinstance({var}, phs.MuxOp)", f"isinstance({var}, MuxOp)"], t)
    if m is not None:
        return case["kind"] == "mux"
    m = norm.any_match([f"len(list({var}.operations())) $op $k", f"len({var}.operations()) $op $k"], t) if False else None
    if isinstance(t, ast.Compare) and len(t.ops) == 1 and isinstance(t.comparators[0], ast.Constant) and ast.unparse(t.left) in (
            f"len(list({var}.operations()))", f"len({var}.operations())", f"len(tuple({var}.operations()))"):
        if case["kind"] != "choose":
            return None
        n, k = case["n"], t.comparators[0].value
        return {ast.Eq: n == k, ast.NotEq: n != k, ast.Gt: n > k, ast.GtE: n >= k, ast.Lt: n < k, ast.LtE: n <= k}[type(t.ops[0])]
    if isinstance(t, ast.BoolOp):
        vals = [_cond(v, case, var) for v in t.values]
        if isinstance(t.op, ast.And):
            return False if any(v is False for v in vals) else (None if any(v is None for v in vals) else True)
        return True if any(v is True for v in vals) else (None if any(v is None for v in vals) else False)
    if norm.is_not(t):
        v = _cond(t.operand, case, var)  # type: ignore[attr-defined]
        return None if v is None else not v
    return None


def _counts(stmts: list[ast.stmt], case: dict, var: str, is_emit) -> set[int]:
    """possible numbers of emissions on non-raising paths through one loop iteration"""
    results: set[int] = set()

    def go(seq: list[ast.stmt], n: int) -> list[int] | None:
        """returns counts of paths that fall through `seq`; finished paths go to `results`"""
        cur = [n]
        for st in seq:
            nxt: list[int] = []
            for c in cur:
                if isinstance(st, ast.Raise):
                    continue
                if isinstance(st, ast.Continue):
                    results.add(c)
                    continue
                if isinstance(st, ast.Assert):
                    nxt.append(c)
                    continue
                if isinstance(st, ast.If):
                    v = _cond(st.test, case, var)
                    if v is not False:
                        r = go(st.body, c)
                        nxt += r or []
                    if v is not True:
                        r = go(st.orelse, c)
                        nxt += r or []
                    continue
                if isinstance(st, ast.For):
                    # search idiom: `for ..: if c: emit; break` with `else: raise`  -> exactly one emission
                    emits_in = [x for x in ast.walk(st) if is_emit(x)]
                    if emits_in:
                        body_ok = len(st.body) == 1 and isinstance(st.body[0], ast.If) and not st.body[0].orelse and isinstance(st.body[0].body[-1], ast.Break) \
                            and sum(1 for x in st.body[0].body if any(is_emit(y) for y in ast.walk(x))) == 1
                        else_raises = bool(st.orelse) and isinstance(st.orelse[-1], ast.Raise)
                        if body_ok and else_raises:
                            nxt.append(c + 1)
                        else:
                            raise AnalysisError(f"line {st.lineno}: emission inside a loop that is not the search idiom `for: if c: emit; break / else: raise`")
                    else:
                        nxt.append(c)
                    continue
                if isinstance(st, (ast.Return, ast.Break)):
                    results.add(c)
                    continue
                k = sum(1 for x in ast.walk(st) if is_emit(x))
                nxt.append(c + k)
            cur = nxt
        return cur

    rest = go(stmts, 0)
    results |= set(rest or [])
    return results


def switch_count(repo: Repo, chk: Check) -> None:
    chk.rule(
        "C20.switch-count",
        "for every abstract switch (choose with 1, 2, 3 alternatives; mux) the number PEOp.get_true_switches adds equals the "
        "number of values decode_abstract_graph emits on every non-raising path",
        floor=4,
    )
    d = repo.func(DECODE, "decode_abstract_graph")
    g = repo.func(PHSD, "PEOp.get_true_switches")
    chk.analysed(d.key, g.key)

    def loop_of(fn) -> tuple[ast.For, str]:
        for n in ast.walk(fn.node):
            if isinstance(n, ast.For) and "get_switches()" in ast.unparse(n.iter):
                var = None
                for st in n.body:
                    if isinstance(st, ast.Assign) and isinstance(st.targets[0], ast.Name) and "get_user_of_unique_use" in ast.unparse(st.value):
                        var = st.targets[0].id
                if var is None:
                    raise AnalysisError(f"{fn.where}: the switched op is not bound to a local")
                return n, var
        raise AnalysisError(f"{fn.where}: loop over get_switches() not found")

    dl, dv = loop_of(d)
    gl, gv = loop_of(g)
    # which list is returned by decode
    ret = [n for n in ast.walk(d.node) if isinstance(n, ast.Return) and n.value is not None]
    names = {x.id for r in ret for x in ast.walk(r.value) if isinstance(x, ast.Name)}
    apps = {}
    for n in ast.walk(dl):
        if isinstance(n, ast.Call) and callee_name(n) == "append" and isinstance(n.func.value, ast.Name):  # type: ignore[attr-defined]
            apps.setdefault(n.func.value.id, 0)  # type: ignore[attr-defined]
            apps[n.func.value.id] += 1  # type: ignore[attr-defined]
    out_lists = [k for k in apps if k in names]
    if len(out_lists) != 1:
        # the returned value is assembled from several lists: the per-switch count is then the sum, order is checked elsewhere
        out_lists = [k for k in apps if k in names] or list(apps)
    emit_d = lambda x: isinstance(x, ast.Call) and callee_name(x) == "append" and isinstance(x.func.value, ast.Name) and x.func.value.id == out_lists[0]  # type: ignore[attr-defined]
    emit_g = lambda x: isinstance(x, ast.AugAssign) and isinstance(x.op, ast.Add) and isinstance(x.value, ast.Constant) and x.value.value == 1
    for case in ({"kind": "choose", "n": 1}, {"kind": "choose", "n": 2}, {"kind": "choose", "n": 3}, {"kind": "mux", "n": 0}):
        label = f"{case['kind']}" + (f"[{case['n']} alternatives]" if case["kind"] == "choose" else "")
        try:
            cd = _counts(dl.body, case, dv, emit_d)
            cg = _counts(gl.body, case, gv, emit_g)
        except AnalysisError as e:
            raise AnalysisError(f"{d.where}: {e}")
        ok = len(cd) == 1 and cd == cg
        chk.result(ok, "C20.switch-count", f"{d.key}:{label}", f"{d.module.relpath}:{dl.lineno}",
                   f"{label}: counted {sorted(cg)}, emitted {sorted(cd)}",
                   f"{label}: get_true_switches counts {sorted(cg)} but decode_abstract_graph emits {sorted(cd)} value(s): the number of switch "
                   "fields differs from the number of generated values (or depends on the path)")
    chk.assumptions.append("a ChooseOp has at least one alternative (abstract cases 1, 2, 3)")


def order(repo: Repo, chk: Check) -> None:
    f, fl = flow_of(repo, chk, DECODE, "decode_abstract_graph")
    chk.rule("C20.decode-order", "values are appended in get_switches() order to the list that is returned; mux placeholders are replaced in place (same index)", floor=3)
    rets = [s for s in fl.stmts(ast.Return) if s.reachable and s.node.value is not None]
    lists = set()
    for s in fl.calls("append"):
        if s.loops and any(isinstance(l, ast.For) and "get_switches()" in ast.unparse(l.iter) for l in s.loops) and isinstance(s.node.func.value, ast.Name):  # type: ignore[attr-defined]
            lists.add(s.node.func.value.id)  # type: ignore[attr-defined]
    ok_ret = False
    ret_name = None
    comp_in_place = False
    for s in rets:
        v = s.node.value
        inner = v.args[1] if isinstance(v, ast.Call) and callee_name(v) == "cast" and len(v.args) == 2 else v
        if isinstance(inner, ast.Name) and inner.id in lists:
            ok_ret = True
            ret_name = inner.id
        # the replacement done while copying: `[mapping[sw] if isinstance(sw, MuxOp) else sw for sw in <that list>]` keeps every position
        if isinstance(inner, ast.ListComp) and len(inner.generators) == 1 and not inner.generators[0].ifs and isinstance(inner.generators[0].target, ast.Name) \
                and isinstance(inner.generators[0].iter, ast.Name) and inner.generators[0].iter.id in lists and isinstance(inner.elt, ast.IfExp):
            sw_ = inner.generators[0].target.id
            ie = inner.elt
            test_, mux_v, other_v = norm.canon(ie.test), ie.body, ie.orelse
            if norm.is_not(test_):
                test_, mux_v, other_v = test_.operand, ie.orelse, ie.body  # type: ignore[attr-defined]
            mv_ = norm.match(T(f"$map[{sw_}]"), mux_v)
            if norm.any_match([f"isinstance({sw_}, phs.MuxOp)", f"isinstance({sw_}, MuxOp)"], test_) is not None and mv_ is not None \
                    and isinstance(other_v, ast.Name) and other_v.id == sw_:
                ok_ret = True
                ret_name = inner.generators[0].iter.id
                comp_in_place = depends_on(fl.cone(mv_["map"], s, inline=0), "search_mapping($a, $b, $c)")
    chk.result(ok_ret, "C20.decode-order", f"{f.key}:returned-list", rets[0].where() if rets else f.where,
               "the returned list is the one filled switch by switch in PE order",
               f"the returned value `{ast.unparse(rets[0].node.value)[:100] if rets else None}` is not the list that was filled in get_switches() order: "
               "values land at other switch positions")
    first_loop = [s for s in fl.stmts(ast.For) if s.reachable and "get_switches()" in ast.unparse(s.node.iter)]
    chk.result(bool(first_loop) and norm.match(T("$a.get_switches()"), first_loop[0].node.iter, {"a": f.param(0)}) is not None, "C20.decode-order", f"{f.key}:pe-order", f.where,
               "switches are visited in the abstract PE's own order")
    repl = [s for s in fl.stmts(ast.Assign) if s.reachable and s.loops and isinstance(s.node.targets[0], ast.Subscript)]
    ok_r = False
    for s in repl:
        lp = [l for l in s.loops if isinstance(l, ast.For)]
        t = s.node.targets[0]
        if lp and isinstance(lp[0].target, ast.Tuple) and ret_name and norm.match(T(f"enumerate({ret_name})"), lp[0].iter) is not None:
            i, sw = (x.id for x in lp[0].target.elts)  # type: ignore[attr-defined]
            mv = norm.match(T(f"$map[{sw}]"), s.node.value)
            from_search = mv is not None and depends_on(fl.cone(mv["map"], s, inline=0), "search_mapping($a, $b, $c)")
            ok_r = ast.unparse(t) == f"{ret_name}[{i}]" and from_search and bool(has_fact(s, [f"isinstance({sw}, phs.MuxOp)", f"isinstance({sw}, MuxOp)"]))
    ok_r = ok_r or comp_in_place
    chk.result(ok_r, "C20.decode-order", f"{f.key}:in-place", repl[0].where() if repl else f.where, "a mux placeholder at index i is replaced by mapping[that mux] at index i",
               "mux placeholders are not replaced in place by the value found for that mux")


def search(repo: Repo, chk: Check) -> None:
    f, fl = flow_of(repo, chk, DECODE, "decode_abstract_graph")
    chk.rule(
        "C20.search-complete",
        "every mux collected while visiting the switches is handed to search_mapping; search_mapping tries both positions of "
        "every mux in turn, recurses to the next mux, and returns a mapping only if valid_mapping accepts the complete assignment",
        floor=4,
    )
    calls = [s for s in fl.calls("search_mapping") if s.reachable]
    if not calls:
        raise AnalysisError(f"{f.where}: search_mapping call not found")
    mux_lists = set()
    for s in fl.calls("append"):
        if s.loops and has_fact(s, ["isinstance($x, phs.MuxOp)"]) and isinstance(s.node.func.value, ast.Name):  # type: ignore[attr-defined]
            mux_lists.add(s.node.func.value.id)  # type: ignore[attr-defined]
    for s in calls:
        a = s.node.args
        muxes = a[2] if len(a) > 2 else next((k.value for k in s.node.keywords if k.arg == "muxes"), None)
        ok = isinstance(muxes, ast.Name) and muxes.id in mux_lists and muxes.id not in {n for n, ds in fl.alldefs.items() if len(ds) > 1 and any(isinstance(d_, (ast.ListComp, ast.Call)) and "filter" in ast.unparse(d_) for d_ in ds)}
        # the list must be the unfiltered collection: its only definitions are the empty list and appends
        if ok:
            defs = fl.alldefs.get(muxes.id, [])
            ok = all(isinstance(norm.primary(d_), ast.List) or "__mut_append__" in ast.unparse(d_) for d_ in defs)
        chk.result(ok and len(a) <= 3 and not [k for k in s.node.keywords if k.arg == "mapping"], "C20.search-complete", f"{f.key}:all-muxes", s.where(),
                   "all collected muxes are searched, starting from the empty mapping",
                   f"search_mapping is called with `{ast.unparse(muxes) if muxes is not None else None}`"
                   f"{' and a pre-filled mapping' if len(a) > 3 or [k for k in s.node.keywords if k.arg == 'mapping'] else ''}: muxes outside that list are pinned "
                   "instead of searched, so a kernel whose routing needs them becomes undecodable")
        nf = [r for r in fl.stmts(ast.Raise) if r.reachable and has_fact(r, ["search_mapping($a, $b, $c) is None"])]
        chk.result(bool(nf), "C20.search-complete", f"{f.key}:none-raises", s.where(), "no mapping found raises MappingNotFoundError (no silent default)")
    g, gfl = flow_of(repo, chk, DECODE, "search_mapping")
    muxes_p, mapping_p, i_p = g.param(2), g.param(3), g.param(4)
    src = ast.unparse(g.node)
    both = any(isinstance(n, ast.Assign) and ast.unparse(n.value) == "(0, 1)" for n in ast.walk(g.node)) or "for choice in (0, 1)" in src
    rec = [s for s in gfl.calls("search_mapping") if s.reachable]
    okrec = any(any(k.arg == "i" and ast.unparse(k.value) == f"{i_p} + 1" for k in s.node.keywords) or (len(s.node.args) > 4 and ast.unparse(s.node.args[4]) == f"{i_p} + 1") for s in rec)
    chk.result(both and okrec, "C20.search-complete", f"{g.key}:both-choices", g.where, "both positions of mux i are tried, then mux i+1",
               "the backtracking no longer tries both positions of every mux / does not advance to the next mux")
    acc = [s for s in gfl.stmts(ast.Return) if s.reachable and s.node.value is not None and "copy" in ast.unparse(s.node.value)]
    okv = bool(acc) and all(has_fact(s, [f"valid_mapping($g, $a, {mapping_p})"]) and has_fact(s, [f"{i_p} == len({muxes_p})"]) for s in acc)
    chk.result(okv, "C20.search-complete", f"{g.key}:validated", acc[0].where() if acc else g.where, "a mapping is returned only when complete and accepted by valid_mapping",
               "a mapping can be returned without being complete and validated")


def accelerator(repo: Repo, chk: Check) -> None:
    c = repo.cls(ACC, "SNAXPHSAccelerator")
    init = c.methods.get("__init__")
    gv = c.methods.get("get_switch_values")
    if init is None or gv is None:
        raise AnalysisError(f"{c.where}: __init__/get_switch_values missing")
    chk.analysed(init.key, gv.key)
    chk.rule("C20.accelerator", "the PHS accelerator declares one phs_switch field per counted switch and generates its values with decode_abstract_graph(own PE, candidate)", floor=2)
    okf = False
    for n in ast.walk(init.node):
        if isinstance(n, (ast.For, ast.comprehension)) and norm.match(T("range(self.pe.get_true_switches())"), n.iter) is not None:
            body = n if isinstance(n, ast.For) else init.node
            okf = any(isinstance(x, ast.JoinedStr) and any(isinstance(v, ast.Constant) and "phs_switch_" in str(v.value) for v in x.values) for x in ast.walk(body))
    chk.result(okf, "C20.accelerator", f"{init.key}:fields", init.where,
               "phs_switch_i fields for i in range(get_true_switches())", "the number of phs_switch fields no longer comes from PEOp.get_true_switches()")
    gfl2 = Flow(gv, repo)
    okg = False
    for sr in gfl2.stmts(ast.Return):
        if sr.node.value is None:
            continue
        cone = gfl2.cone(sr.node.value, sr, inline=0)
        # every returned element derives from one decoded value: a comprehension over decode_abstract_graph(self.pe, <candidate>)
        for n in ast.walk(cone):
            if isinstance(n, (ast.ListComp, ast.GeneratorExp)) and len(n.generators) == 1 and not n.generators[0].ifs:
                it = gfl2.cone(n.generators[0].iter, sr, inline=0)
                if norm.contains(it, T("decode_abstract_graph(self.pe, $c)")):
                    okg = True
    chk.result(okg, "C20.accelerator", f"{gv.key}:values", gv.where,
               "one constant per decoded switch value, decoded against the accelerator's own PE")


# --------------------------------------------------------------------------- merging keeps earlier kernels decodable
COMBINE = "snaxc/phs/combine.py"


def merge(repo: Repo, chk: Check) -> None:
    chk.rule(
        "C20.merge",
        "merging: a routing conflict at operand i gets its OWN new mux (default connection on lhs, the conflicting one on rhs) controlled by a fresh "
        "switch from add_switch(), inserted before the consumer, and operand i of the consumer is rerouted to it; an operand is left alone only "
        "under are_equivalent; a new choose gets a fresh switch; existing chooses only gain operations",
        floor=5,
    )
    # every kernel op that meets its counterpart in the abstract graph has its routing reconciled, whatever else is (not) to be done
    g_, gfl = flow_of(repo, chk, COMBINE, "append_to_abstract_graph")
    unc = [s for s in gfl.calls("uncollide_inputs") if s.reachable]
    if len(unc) < 2:
        chk.bad("C20.merge", f"{g_.key}:reconcile", g_.where, f"uncollide_inputs is called at {len(unc)} site(s); expected for an existing choose op and for the terminator")
    head = [x for x in gfl.stmts(ast.For) if x.reachable and not [l for l in x.loops if isinstance(l, ast.For)]]
    base = set(head[0].fact_texts) if head else set()
    for n_, s in enumerate(unc, 1):
        new = [fa for fa in s.facts if fa.kind == "atom" and fa.text not in base]
        allowed = [fa for fa in new if norm.any_match(["isinstance($o, phs.ChooseOp)", "isinstance($o, ChooseOp)", "isinstance($o, phs.YieldOp)", "isinstance($o, YieldOp)",
                                                        "not isinstance($o, $c)", "$g.get_choose_op($i) is not None", "$g.get_choose_op($i)"], fa.expr) is not None]
        extra = [fa.text[:90] for fa in new if fa not in allowed]
        chk.result(not extra, "C20.merge", f"{g_.key}:reconcile#{n_}", s.where(),
                   "the routing of a kernel op is reconciled with its abstract counterpart whenever that counterpart exists",
                   f"uncollide_inputs is only called under {extra}: a kernel that re-uses an operation already present, but with other operand routing, is merged "
                   "without a mux and can no longer be decoded (or decodes to other routing)", s.fact_texts)
    f, fl = flow_of(repo, chk, COMBINE, "uncollide_inputs")
    abst = f.param(1)
    key = f.key
    stores = [s for s in fl.stmts(ast.Assign) if s.reachable and isinstance(s.node.targets[0], ast.Subscript) and norm.match(T(f"{abst}.operands[$i]"), s.node.targets[0]) is not None]
    if not stores:
        # a rerouting keyed by the VALUE of the conflicting operand (`v.replace_uses_with_if(new, pred)`, `replace_by*`) reaches every slot of the
        # consumer that holds `v` (the same value in two slots, or also as the switch), not the conflicting slot alone - unless the predicate
        # itself selects the slot by `use.index`, which this rule does not evaluate (analysis error)
        by_value = [s for s in fl.calls("replace_uses_with_if", "replace_by_if", "replace_by", "replace_all_uses_with") if s.reachable]
        for s in by_value:
            slot = [a for a in ast.walk(s.node) if isinstance(a, ast.Attribute) and a.attr == "index"]
            if slot:
                raise AnalysisError(f"{s.where()}: rerouting by `{ast.unparse(s.node.func)}` with a predicate on `use.index`: not evaluated")
            chk.bad("C20.merge", f"{key}:own-slot", s.where(),
                    f"the conflicting operand is rerouted by value (`{ast.unparse(s.node)[:110]}`): every slot of the consumer that holds the same value is rerouted "
                    "to the new mux, not the one slot whose routing conflicts (a kernel that feeds one value to two operands gets both behind the mux)", s.fact_texts)
        if by_value:
            return
        raise AnalysisError(f"{f.where}: rerouting store `{abst}.operands[i] = ...` not found")
    for s in stores:
        idx = s.node.targets[0].slice
        lp = [l for l in s.loops if isinstance(l, ast.For)]
        enum_ok = bool(lp) and norm.match(T(f"enumerate(zip($o.data_operands, {abst}.data_operands, strict=True))"), lp[-1].iter) is not None
        iv = lp[-1].target.elts[0].id if enum_ok and isinstance(lp[-1].target, ast.Tuple) and isinstance(lp[-1].target.elts[0], ast.Name) else None
        idx_e = s.expand(idx)
        chk.result(enum_ok and ((isinstance(idx, ast.Name) and idx.id == iv) or (isinstance(idx_e, ast.Name) and idx_e.id == iv)), "C20.merge", f"{key}:own-slot", s.where(),
                   "the operand that is rerouted is the one whose routing conflicts (same index, strict zip of both operand lists)",
                   "the rerouted operand index is not the index of the conflicting operand pair")
        conflict = bool(has_fact(s, ["not are_equivalent($a, $b)"]))
        chk.result(conflict, "C20.merge", f"{key}:only-on-conflict", s.where(), "an operand is rerouted only when are_equivalent fails for it",
                   "an operand is rerouted although its routing is equivalent (or without testing)", s.fact_texts)
        # on every path class the new operand is the result of a mux constructed here with a fresh switch
        fresh_all = bool(s.state.alts)
        lhs_rhs = True
        for alt in s.state.alts:
            from sa.flow import expand

            v = expand(s.node.value, alt.env)
            ms = [m for _, m in norm.find(T("phs.MuxOp(lhs=$l, rhs=$r, switch=$sw)"), v)] + [m for _, m in norm.find(T("MuxOp(lhs=$l, rhs=$r, switch=$sw)"), v)]
            def _fresh_mux_helper(call_: ast.expr) -> bool:
                """a module helper every return of which hands out (a result of) a mux it has just constructed"""
                call_ = norm.primary(call_)
                if not (isinstance(call_, ast.Call) and isinstance(call_.func, ast.Name) and call_.func.id in f.module.funcs):
                    return False
                hn = f.module.funcs[call_.func.id].node
                rets_ = [r_ for r_ in ast.walk(hn) if isinstance(r_, ast.Return) and r_.value is not None]
                for r_ in rets_:
                    base = r_.value
                    while isinstance(base, (ast.Subscript, ast.Attribute)):
                        base = base.value
                    if not isinstance(base, ast.Name):
                        return False
                    defs_ = [a_.value for a_ in ast.walk(hn) if isinstance(a_, ast.Assign) and any(isinstance(t_, ast.Name) and t_.id == base.id for t_ in a_.targets)]
                    if not defs_ or not all(isinstance(d_, ast.Call) and callee_name(d_) == "MuxOp" for d_ in defs_):
                        return False
                return bool(rets_)

            if not ms and _fresh_mux_helper(v):
                # built in a helper that was walked at the call, and a fresh mux on every path of that helper: follow the definitions of what it returned
                v = fl.cone(s.node.value, s, inline=1)
                ms = [m for _, m in norm.find(T("phs.MuxOp(lhs=$l, rhs=$r, switch=$sw)"), v)] + [m for _, m in norm.find(T("MuxOp(lhs=$l, rhs=$r, switch=$sw)"), v)]
            if not ms:
                fresh_all = False
                continue
            m = ms[0]
            if not norm.contains(m["sw"], T("$g.add_switch()")):
                fresh_all = False
            if not (norm.contains(m["r"], T("get_equivalent_owner($o, $g)")) and not norm.contains(m["l"], T("get_equivalent_owner($o, $g)"))):
                lhs_rhs = False
        chk.result(fresh_all, "C20.merge", f"{key}:own-mux-fresh-switch", s.where(),
                   "on every path the conflicting operand is rerouted to a mux built for it with a fresh add_switch()",
                   "on some path the operand is rerouted to a mux that was not built for this conflict with a fresh switch (e.g. an existing mux is re-used): two operand "
                   "slots share one switch while are_equivalent treats them as independent, so a kernel merged earlier can become undecodable")
        chk.result(lhs_rhs, "C20.merge", f"{key}:default-on-lhs", s.where(), "the existing (default) connection is the mux's lhs, the conflicting one its rhs",
                   "the default / conflicting connections of the new mux are exchanged: switch value 0 no longer selects the connection earlier kernels use")
    ins = [s for s in fl.calls("insert_op_before") if s.reachable]
    chk.result(any(len(s.node.args) >= 2 and norm.match(T(abst), s.node.args[1]) is not None for s in ins), "C20.merge", f"{key}:mux-before-consumer", ins[0].where() if ins else f.where,
               "the mux is inserted before the op that consumes it")
    # append_to_abstract_graph
    g, gfl = flow_of(repo, chk, COMBINE, "append_to_abstract_graph")
    news = [s for s in gfl.calls("from_operations") if s.reachable]
    okn = any(bool(has_fact(s, ["$g.get_choose_op($id) is None"])) and len(s.node.args) >= 3 and norm.contains(gfl.cone(s.node.args[2], s, inline=0), T("$g.add_switch()")) for s in news)
    chk.result(okn, "C20.merge", f"{g.key}:new-choose-fresh-switch", news[0].where() if news else g.where,
               "a choose that does not exist yet is created with a fresh switch", "a new choose is not created under `get_choose_op(id) is None` with a fresh add_switch()")
    unc = [s for s in gfl.calls("uncollide_inputs") if s.reachable]
    oku = len(unc) >= 2 and any(norm.contains(s.node.args[1], T("$g.get_terminator()")) for s in unc if len(s.node.args) > 1)
    chk.result(oku, "C20.merge", f"{g.key}:uncollide-all", unc[0].where() if unc else g.where,
               "routing conflicts are resolved for every existing choose and for the terminator", "uncollide_inputs is not applied to both the existing chooses and the terminator")
    ins_ops = [s for s in gfl.calls("insert_operations") if s.reachable]
    oki = bool(ins_ops) and bool(unc) and all(s.line > min(u.line for u in unc) for s in ins_ops)
    chk.result(oki, "C20.merge", f"{g.key}:operations-added", ins_ops[0].where() if ins_ops else g.where, "missing operations are added to an existing choose after its inputs were uncollided")

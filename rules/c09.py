"""C09 — chosen memory layouts are one-to-one on the operand (DESIGN.md section 5, C09).

Injectivity of the generated layout follows from a mixed-radix invariant visible in the shape of
AddCyclicMemoryLayout: every new stride starts at the running extent, the running extent is then
multiplied by the very bound of that stride, and every other change of the running extent is
non-decreasing.  Tiling by the schedule bound additionally needs that bound to divide the remaining size.
"""

from __future__ import annotations

import ast

from sa import norm
from sa.errors import AnalysisError
from sa.flow import Flow, Site
from sa.model import Repo
from sa.norm import T
from sa.report import Check

from . import c10
from .common import callee_name, depends_on, flow_of, has_fact, has_forall, mutation_sites, op_param, require_guards, rewriter_param, subexprs

LAYOUT = "snaxc/transforms/set_memory_layout.py"


def run(repo: Repo, chk: Check) -> None:
    chk.explanation = (
        "Guard dominance (F2), dependency (F3) and a sign analysis (interval AI on one helper) on AddCyclicMemoryLayout: "
        "operands with an explicit tiled-strided layout abort the rewrite before any mutation; each Stride takes its "
        "step from the running extent and the next update multiplies the running extent by the same bound; all other "
        "updates of the running extent add a value of the form (..) % c >= 0; dimensions without stride get a unit "
        "bound at the running extent; tiling by the schedule bound happens only when it divides the remaining size; "
        "TiledStride.canonicalize keeps the address function (shared with C10). Decides injectivity by construction, "
        "not `covers exactly the shape` for strided accesses."
    )
    untouched(repo, chk)
    radix(repo, chk)
    monotone(repo, chk)
    c10.canonicalize(repo, chk, rule="C09.canon")


def untouched(repo: Repo, chk: Check) -> None:
    f, fl = flow_of(repo, chk, LAYOUT, "AddCyclicMemoryLayout.match_and_rewrite")
    op = op_param(f)
    rw = rewriter_param(f)
    chk.rule("C09.untouched", "every mutation is dominated by: no operand's memref type carries a TiledStridedLayoutAttr", floor=2)
    sites = [(s, lab) for s, lab in mutation_sites(fl, rw) if s.reachable]

    def guard(site: Site):
        for fact in site.facts:
            if fact.kind != "forall" or fact.domain is None or norm.match(T("$op.operands"), fact.domain, {"op": op}) is None:
                continue
            txt = fact.text
            if "TiledStridedLayoutAttr" in txt and ("not " in txt or "!=" in txt):
                return fact
        # the same said in one expression: `not any(.. for operand in op.operands)` / `all(not .. for ..)`
        for fact in site.facts:
            if fact.kind != "atom":
                continue
            q = norm.qnf(fact.expr)
            if q is None or q[0] != "all" or q[3] or norm.match(T("$op.operands"), q[2], {"op": op}) is None:
                continue
            txt = ast.unparse(q[4])
            if "TiledStridedLayoutAttr" in txt and ("not " in txt or "!=" in txt):
                return fact
        return None

    # the operand stores themselves invalidate facts about op.operands: the guard must hold when the first
    # mutation is reached and when the loop performing the stores is entered
    first = sites[:1]
    loops = [(s, "loop-storing-operands") for s in fl.stmts(ast.For) if s.reachable and any(
        isinstance(x, ast.Subscript) and isinstance(x.ctx, ast.Store) and ast.unparse(x.value) == f"{op}.operands" for x in ast.walk(s.node))]
    if not first or not loops:
        raise AnalysisError(f"{f.where}: mutation sites not found")
    require_guards(chk, "C09.untouched", f, first + loops, [("no-explicit-layout", guard)])


def radix(repo: Repo, chk: Check) -> None:
    f, fl = flow_of(repo, chk, LAYOUT, "AddCyclicMemoryLayout.match_and_rewrite")
    chk.rule(
        "C09.radix",
        "each Stride(step, bound) inserted takes its step from the running extent and the next assignment to the running "
        "extent (on every path) is `extent * bound` with the same bound; the running extent starts at 1; after the schedule "
        "loops every dimension gets an outer stride for the size left uncovered (shape // product of its assigned bounds); tiling by the schedule "
        "bound only under `remaining % schedule bound == 0`",
        floor=6,
    )
    strides = [s for s in fl.calls("Stride") if s.reachable and len(s.node.args) == 2 and s.loops]
    main = [s for s in strides if not (isinstance(s.node.args[1], ast.Constant))]
    fill = [s for s in strides if isinstance(s.node.args[1], ast.Constant)]
    if not main:
        raise AnalysisError(f"{f.where}: Stride(extent, bound) construction not found")
    for s in main:
        step, bound = s.node.args
        if not isinstance(step, ast.Name):
            raise AnalysisError(f"{s.where()}: the step of the new stride is not the running-extent variable")
        ext = step.id
        loop = [l for l in s.loops if isinstance(l, ast.For)][-1]
        # the innermost statement list holding the construction, then outwards: the first later store to the running extent counts
        def holder(stmts):
            for k, st in enumerate(stmts):
                if any(x is s.node for x in ast.walk(st)):
                    for fld in ("body", "orelse"):
                        sub = getattr(st, fld, None)
                        if isinstance(sub, list) and sub and isinstance(sub[0], ast.stmt):
                            h = holder(sub)
                            if h is not None and h[2]:
                                return h
                    lat = [x for x in stmts[k + 1:] if any(isinstance(y, ast.Name) and y.id == ext and isinstance(y.ctx, ast.Store) for y in ast.walk(x))]
                    return stmts, k, lat
            return None

        h = holder(loop.body)
        if h is None:
            raise AnalysisError(f"{s.where()}: statement of the stride construction not found at loop level")
        body, i, later = h
        ok = len(later) == 1 and isinstance(later[0], ast.Assign) and norm.any_match(["$e * $b", "$b * $e"], later[0].value, {"e": ext, "b": bound}) is not None
        ok_aug = len(later) == 1 and isinstance(later[0], ast.AugAssign) and isinstance(later[0].op, ast.Mult) and ast.unparse(later[0].value) == ast.unparse(bound)
        chk.result(ok or ok_aug, "C09.radix", f"{f.key}:extent-times-bound", s.where(),
                   f"after Stride({ext}, {ast.unparse(bound)}) the running extent becomes {ext} * {ast.unparse(bound)}",
                   f"after inserting Stride({ext}, {ast.unparse(bound)}) the running extent is updated by {[ast.unparse(x)[:60] for x in later]}: "
                   "the next stride no longer starts beyond everything addressed so far (elements alias)")
        # the bound: schedule bound only under divisibility
        bname = ast.unparse(bound)
        for a in [x for x in fl.stmts(ast.Assign) if x.reachable and isinstance(x.node.targets[0], ast.Name) and x.node.targets[0].id == bname]:
            v = a.node.value
            if isinstance(v, ast.Name) and "schedule" in v.id:
                sb = a.expand(v)
                hit = None
                whole = None
                for fact in a.facts:
                    m_ = norm.any_match(["$r % $sb == 0", "not $r % $sb"], fact.expr, {"sb": sb}) if fact.kind == "atom" else None
                    if m_ is not None:
                        # what has to be divisible is what is LEFT of the dimension: its size divided by the tile bounds it already has
                        r_ = fl.cone(m_["r"], a, inline=0)
                        left = any(isinstance(n_, ast.BinOp) and isinstance(n_.op, ast.FloorDiv) and norm.contains(n_.left, T("$m.get_shape()[$d]"))
                                   and any(isinstance(g_, (ast.GeneratorExp, ast.ListComp)) and norm.contains(g_, T("$x.bound")) for g_ in ast.walk(n_.right)) for n_ in ast.walk(r_))
                        if left:
                            hit = fact
                        elif norm.contains(r_, T("$m.get_shape()[$d]")):
                            whole = fact
                if hit is None and whole is not None:
                    chk.bad("C09.radix", f"{f.key}:tile-divides", a.where(),
                            f"the schedule bound becomes a tile bound when it divides the WHOLE size of the dimension (`{whole.text[:80]}`), not what is left of it after the tile "
                            "levels the dimension already has: the product of the tile bounds no longer equals the size and elements alias", a.fact_texts)
                    continue
                chk.result(hit is not None, "C09.radix", f"{f.key}:tile-divides", a.where(),
                           "the schedule bound becomes a tile bound only if it divides the remaining size of the dimension",
                           "a dimension is tiled by the schedule bound on a path where `remaining size % schedule bound == 0` is not established: "
                           "the tile levels no longer cover the dimension and elements alias", a.fact_texts)
            else:
                ex = a.expand(v)
                chk.result(depends_on(fl.cone(v, a, inline=0), "$m.get_shape()[$d]"), "C09.radix", f"{f.key}:untiled-bound", a.where(),
                           "without tiling the bound is the remaining size of the operand dimension")
    init = [s for s in fl.stmts(ast.Assign) if s.reachable and isinstance(s.node.targets[0], ast.Name) and s.node.targets[0].id == main[0].node.args[0].id
            and isinstance(s.node.value, ast.Constant)]
    chk.result(bool(init) and all(s.node.value.value == 1 for s in init), "C09.radix", f"{f.key}:starts-at-1", init[0].where() if init else f.where,
               "the running extent starts at 1 for every operand")
    # coverage: after the schedule loops every dimension gets a stride for the size that remains (F-32)
    def _shape_var(s_: Site) -> str | None:
        """`for size, stride in zip(<memref>.get_shape(), strides)`: the name that stands for the dimension's size"""
        for l in s_.loops:
            if isinstance(l, ast.For) and isinstance(l.target, ast.Tuple) and len(l.target.elts) == 2 and all(isinstance(e, ast.Name) for e in l.target.elts):
                for tpl, k in (("zip($m.get_shape(), $st)", 0), ("zip($st, $m.get_shape())", 1)):
                    if norm.match(T(tpl), l.iter) is not None:
                        return l.target.elts[k].id  # type: ignore[attr-defined]
        return None

    cover = [s for s in main if (any(isinstance(l, ast.For) and norm.contains(l.iter, T("enumerate($st)")) for l in s.loops)
                                 and depends_on(fl.cone(s.node.args[1], s, inline=0), "$m.get_shape()[$d]") or _shape_var(s) is not None) and not any(
                 isinstance(l, ast.For) and norm.contains(l.iter, T("$sch.bounds[::-1]")) for l in s.loops)]
    okf = False
    wheref = fill[0].where() if fill else f.where
    for s in cover:
        wheref = s.where()
        c = fl.cone(s.node.args[1], s, inline=0)
        core = norm.primary(c)
        while isinstance(core, ast.Call) and isinstance(core.func, ast.Name) and core.func.id in ("__phi__", "__ctl__") and core.args:
            core = core.args[1] if core.func.id == "__phi__" and len(core.args) > 1 else core.args[0]
        if isinstance(core, ast.IfExp) and isinstance(core.orelse, ast.Constant) and core.orelse.value == 1:
            core = core.body
        m = norm.match(T("$sz // $cv"), core)
        sv_ = _shape_var(s)
        uses_assigned = m is not None and (norm.contains(m["sz"], T("$m.get_shape()[$d]")) or (sv_ is not None and any(
            isinstance(n, ast.Name) and n.id == sv_ for n in ast.walk(m["sz"])) or norm.contains(m["sz"], T("__elem__($m.get_shape())")))) and any(
            isinstance(n, ast.Call) and callee_name(n) == "prod" and norm.contains(n, T("$x.bound")) for n in ast.walk(m["cv"])) and not isinstance(norm.primary(m["sz"]), ast.BinOp)
        guarded = any(fct.kind == "atom" and (norm.any_match(["$r > 1 or not len($x)", "$r > 1 or not $x", "not len($x) or $r > 1", "$r > 1", "$r != 1 or not len($x)"], fct.expr) is not None) for fct in s.facts)
        okf = okf or (uses_assigned and guarded)
    for s in fill:
        # the old form (a unit-bound filler for dimensions without any stride) covers the dimension only if its size is 1
        okf = okf or False
    chk.result(okf, "C09.radix", f"{f.key}:fill", wheref,
               "every dimension gets an outer stride for the size the schedule loops left uncovered (shape // product of the assigned bounds), so the layout covers the operand's shape",
               "dimensions the schedule does not walk entirely are not covered: a dimension without any stride gets bound 1 whatever its size (or partially tiled dimensions keep the "
               "product of the schedule bounds), so the layout does not cover the operand's shape")
    # outer strides are inserted in front (outermost first in the list)
    ins = [s for s in fl.calls("insert") if s.reachable and any(x is main[0].node for x in ast.walk(s.node))]
    chk.result(bool(ins) and isinstance(ins[0].node.args[0], ast.Constant) and ins[0].node.args[0].value == 0, "C09.radix", f"{f.key}:outer-first", main[0].where(),
               "a later (larger) stride of the same dimension is placed before the earlier ones (outer tile level first)")
    canon = [s for s in fl.calls("canonicalize") if s.reachable]
    chk.result(bool(canon), "C09.radix", f"{f.key}:canonicalized", canon[0].where() if canon else f.where, "the layout is canonicalised (C09.canon covers that step)")


def monotone(repo: Repo, chk: Check) -> None:
    f, fl = flow_of(repo, chk, LAYOUT, "ensure_access_granularity")
    cs = f.param(1)
    chk.rule(
        "C09.monotone",
        "ensure_access_granularity never decreases the running extent: every update adds `(...) % c` with a positive literal c "
        "(a value in [0, c-1]); it returns the (possibly increased) argument",
        floor=2,
    )
    # judged on what is returned, as an expression over the extent that was passed in (updates of the local are folded into it by the walker):
    # the argument itself, or the argument plus a remainder modulo a positive literal
    from sa.flow import expand as _expand

    rets = [s for s in fl.stmts(ast.Return) if s.reachable and s.node.value is not None]
    if not rets:
        raise AnalysisError(f"{f.where}: no return of the running extent found")
    for n, s in enumerate(rets, 1):
        bad = None
        for alt in s.state.alts:
            v = norm.primary(_expand(s.node.value, {k: x for k, x in alt.env.items() if k not in s.shadow}))
            if isinstance(v, ast.Name) and v.id == cs:
                continue
            m = norm.any_match(["$c + $x % $k", "$x % $k + $c"], v, {"c": cs})
            if m is not None and isinstance(m["k"], ast.Constant) and isinstance(m["k"].value, int) and m["k"].value > 0:
                continue
            bad = ast.unparse(v)
        chk.result(bad is None, "C09.monotone", f"{f.key}:return#{n}", s.where(), "the result is the extent passed in, or that extent plus a non-negative remainder",
                   f"`return {bad[:100] if bad else ''}` can be smaller than the running extent that was passed in (it is not `extent + (..) % c`): the next dimension "
                   "overlaps the previous one")
    # the caller assigns the result back to the running extent
    g, gfl = flow_of(repo, chk, LAYOUT, "AddCyclicMemoryLayout.match_and_rewrite")
    calls = [s for s in gfl.calls("ensure_access_granularity") if s.reachable]
    ok = all(isinstance(s.stmt, ast.Assign) and isinstance(s.stmt.targets[0], ast.Name) and len(s.node.args) > 1 and ast.unparse(s.node.args[1]) == s.stmt.targets[0].id for s in calls)
    chk.result(ok and bool(calls), "C09.monotone", f"{g.key}:caller", calls[0].where() if calls else g.where, "the padded extent replaces the running extent before the stride is created")

"""C03 — scheduling preserves the iteration space (DESIGN.md section 5, C03)."""

from __future__ import annotations

import ast

from sa import norm
from sa.errors import AnalysisError
from sa.flow import Flow, Site, expand
from sa.model import Func, Repo
from sa.norm import T
from sa.report import Check

from .common import every_alt_has, callee_name, depends_on, flow_of, has_fact, subexprs

AP = "snaxc/ir/dart/access_pattern.py"
SCHED = "snaxc/ir/dart/scheduler.py"
PASS = "snaxc/transforms/dart/dart_scheduler.py"


def _resolve(fl: Flow, site: Site, e: ast.expr) -> ast.expr:
    """site.expand, then locals with exactly one definition in the function replaced by it (a hoisted sub-expression)"""
    from sa.flow import expand as _expand

    e = site.expand(e)
    for _ in range(3):
        sub = {}
        for nm in sorted(norm.free_names(e)):
            defs = fl.alldefs.get(nm, [])
            if len(defs) == 1 and not (isinstance(defs[0], ast.Call) and isinstance(defs[0].func, ast.Name) and defs[0].func.id.startswith("__")):
                sub[nm] = defs[0]
        if not sub:
            break
        e = site.expand(_expand(e, sub))
    return e


def _linear(e: ast.expr) -> dict[str, int] | None:
    """e as an integer linear combination {atom text: coefficient, "": constant}; None when a product of two non-constants occurs"""
    if isinstance(e, ast.Constant) and isinstance(e.value, int) and not isinstance(e.value, bool):
        return {"": e.value}
    if isinstance(e, ast.UnaryOp) and isinstance(e.op, (ast.USub, ast.UAdd)):
        a = _linear(e.operand)
        return None if a is None else ({k: -v for k, v in a.items()} if isinstance(e.op, ast.USub) else a)
    if isinstance(e, ast.BinOp) and isinstance(e.op, (ast.Add, ast.Sub)):
        a, b = _linear(e.left), _linear(e.right)
        if a is None or b is None:
            return None
        out = dict(a)
        for k, v in b.items():
            out[k] = out.get(k, 0) + (v if isinstance(e.op, ast.Add) else -v)
        return out
    if isinstance(e, ast.BinOp) and isinstance(e.op, ast.Mult):
        a, b = _linear(e.left), _linear(e.right)
        if a is not None and b is not None:
            for x, y in ((a, b), (b, a)):
                if set(x) <= {""}:
                    c = x.get("", 0)
                    return {k: v * c for k, v in y.items()}
        return None
    return {ast.unparse(e): 1}


def run(repo: Repo, chk: Check) -> None:
    chk.explanation = (
        "Shape agreement (F1), guard dominance (F2) and dependency (F3) rules on the elementary schedule "
        "transformations: every call path to tile_dim is dominated by the divisibility of the tiled bound by the very "
        "tile size passed; rotate permutes bounds and matrix columns by the same permutation of [0, N); tile_dim "
        "divides, inserts and multiplies by one and the same factor at positions dim, dim+1; add_dim inserts a unit "
        "bound where no result refers to; unit-dimension dropping filters bounds and columns with the same predicate "
        "whose complement implies bound == 1; the pass builds the schedule from this op's own bounds and patterns on "
        "every path. Decides these structural clauses, not AffineTransform arithmetic."
    )
    div_guard(repo, chk)
    rotate(repo, chk)
    tile_factor(repo, chk)
    add_dim(repo, chk)
    drop_unit(repo, chk)
    initial_bounds(repo, chk)
    schedule_from_op(repo, chk)
    wrappers(repo, chk)
    # a schedule is built from the MATRIX form of the access maps: a map that is not linear must be refused, not linearised from its unit responses
    from . import c19

    c19.transform_linear(repo, chk, rule="C03.linear-only")


# --------------------------------------------------------------------------- tile_dim call sites
def div_guard(repo: Repo, chk: Check) -> None:
    chk.rule(
        "C03.div-guard",
        "every call of tile_dim outside the Schedule wrapper is dominated by `B % T == 0` where T is the expression "
        "passed as tile size and B a bound of the schedule being tiled (tile_dim computes bound // T)",
        floor=1,
    )
    n = 0
    for f in repo.all_funcs():
        if not any(isinstance(x, ast.Call) and callee_name(x) == "tile_dim" for x in ast.walk(f.node)):
            continue
        if f.module.relpath == AP and f.cls is not None and f.name == "tile_dim":
            continue  # the wrapper Schedule.tile_dim / the definition itself (checked in `wrappers`)
        fl = Flow(f, repo)
        chk.analysed(f.key)
        for s in fl.calls("tile_dim"):
            if not s.reachable:
                continue
            call = s.node
            assert isinstance(call, ast.Call) and isinstance(call.func, ast.Attribute)
            if len(call.args) < 2:
                raise AnalysisError(f"{s.where()}: tile_dim call without (dim, tile size)")
            n += 1
            t = s.expand(call.args[1])
            recv = s.expand(call.func.value)
            hit = None
            for fact in s.facts:
                if fact.kind != "atom":
                    continue
                m = norm.any_match(["$b % $t == 0", "not $b % $t"], fact.expr, {"t": t})
                if m is not None and depends_on(m["b"], "$r[$_].bounds[$_]", "$r.bounds[$_]", "$r[$_].bounds", binds={"r": recv}):
                    hit = fact
            chk.result(
                hit is not None,
                "C03.div-guard",
                f"{f.key}:tile_dim#{n}",
                s.where(),
                f"tiling by {ast.unparse(t)[:60]} only under divisibility of the tiled bound",
                f"tile_dim({ast.unparse(t)[:60]}) is reachable without the fact `bound % tile == 0` on the schedule being tiled: "
                "tile_dim computes bound // tile, so iterations are dropped (or, with a rounded-up count, added)",
                s.fact_texts,
            )
            # the dimension tiled is the one whose bound was tested
            if hit is not None:
                m = norm.any_match(["$b % $t == 0", "not $b % $t"], hit.expr, {"t": t})
                assert m is not None
                idx = None
                for _, mm in subexprs(m["b"], "$r[$_].bounds[$i]", {"r": recv}) + subexprs(m["b"], "$r.bounds[$i]", {"r": recv}):
                    idx = mm["i"]
                dim = s.expand(call.args[0])
                ok = False
                if idx is not None:
                    mi = norm.match(T("-$k"), idx)
                    md = norm.any_match(["$r.num_dims - $k", "len($r.bounds) - $k"], dim)
                    if mi is not None and md is not None and ast.unparse(mi["k"]) == ast.unparse(md["k"]):
                        ok = True
                    if ast.unparse(idx) == ast.unparse(dim):
                        ok = True
                    if not ok:
                        # the same comparison on linear forms: dim == idx, or dim == idx + num_dims (an index counted from the end)
                        li, ld = _linear(_resolve(fl, s, idx)), _linear(_resolve(fl, s, dim))
                        if li is not None and ld is not None:
                            r_ = ast.unparse(recv)
                            for nd in (None, f"{r_}.num_dims", f"len({r_}.bounds)"):
                                want = dict(li)
                                if nd is not None:
                                    want[nd] = want.get(nd, 0) + 1
                                if {k: v for k, v in want.items() if v} == {k: v for k, v in ld.items() if v}:
                                    ok = True
                chk.result(ok, "C03.div-guard", f"{f.key}:tile_dim#{n}:same-dim", s.where(),
                           "the dimension tiled is the dimension whose bound was tested",
                           f"divisibility was tested on bound index {ast.unparse(idx) if idx is not None else '?'} but dimension {ast.unparse(dim)} is tiled")


def wrappers(repo: Repo, chk: Check) -> None:
    chk.rule("C03.collection", "Schedule.rotate / tile_dim / add_dim apply the same transformation with the same arguments to every pattern", floor=3)
    c = repo.cls(AP, "Schedule")
    for name in ("rotate", "tile_dim", "add_dim"):
        f = c.methods.get(name)
        if f is None:
            raise AnalysisError(f"{c.where}: method {name} missing")
        chk.analysed(f.key)
        fl = Flow(f, repo)
        params = f.params[1:]
        ok = False
        for s in fl.stmts(ast.Return):
            v = s.expand(s.node.value)
            for sub in ast.walk(v):
                if isinstance(sub, (ast.GeneratorExp, ast.ListComp)) and len(sub.generators) == 1:
                    gg = sub.generators[0]
                    if norm.match(T("self"), gg.iter) is not None and not gg.ifs and isinstance(gg.target, ast.Name):
                        want = f"{gg.target.id}.{name}({', '.join(params)})"
                        ok = ok or ast.unparse(sub.elt) == want
        chk.result(ok, "C03.collection", f"{f.key}:all-patterns", f.where,
                   f"Schedule.{name} maps {name} with unchanged arguments over all patterns",
                   f"Schedule.{name} no longer applies {name}({', '.join(params)}) to every pattern of the schedule")


# --------------------------------------------------------------------------- rotate
def _norm_n(e: ast.expr | None, default: str) -> str:
    if e is None:
        return default
    t = ast.unparse(e).replace(" ", "")
    for alias in ("self.num_dims", "len(self.bounds)"):
        t = t.replace(alias, "N")
    return t


def rotate(repo: Repo, chk: Check) -> None:
    f, fl = flow_of(repo, chk, AP, "SchedulePattern.rotate")
    chk.rule("C03.rotate", "rotate permutes bounds and columns of A by the same permutation of [0, N)", floor=1)
    rets = [s for s in fl.stmts(ast.Return) if s.reachable]
    if not rets:
        raise AnalysisError(f"{f.where}: no return")
    dim_p = f.param(1)
    n_full = 0
    for s in rets:
        v = s.expand(s.node.value)
        if isinstance(s.node.value, ast.Name) and s.node.value.id == "self":
            # returning the pattern unchanged is the rotation only when the rotation is the identity (dim <= 1)
            ident = every_alt_has(s, [f"{dim_p} <= 1", f"{dim_p} < 2", f"{dim_p} == 1", f"{dim_p} == 0"])
            chk.result(ident, "C03.rotate", f"{f.key}:unrotated-return", s.where(), "the pattern is returned unchanged only when the rotation is the identity",
                       "rotate returns the pattern un-rotated on a path where the rotation is not the identity: its bounds (and columns) fall out of step with the "
                       "other operands of the schedule, which are rotated", s.fact_texts)
            continue
        if not (isinstance(v, ast.Call) and len(v.args) >= 2):
            raise AnalysisError(f"{s.where()}: rotate does not return type(self)(bounds, pattern)")
        n_full += 1
        bounds, pattern = v.args[0], v.args[1]
        # bounds: sum of slices of self.bounds
        segs_b: list[tuple[str, str]] = []

        def collect(e: ast.expr) -> bool:
            if isinstance(e, ast.BinOp) and isinstance(e.op, ast.Add):
                return collect(e.left) and collect(e.right)
            m = norm.match(T("self.bounds[$sl]"), e)
            if m is not None and isinstance(m["sl"], ast.Slice) and m["sl"].step is None:
                segs_b.append((_norm_n(m["sl"].lower, "0"), _norm_n(m["sl"].upper, "N")))
                return True
            return False

        if not collect(bounds):
            raise AnalysisError(f"{s.where()}: new bounds {ast.unparse(bounds)[:80]} are not a concatenation of slices of self.bounds")
        # columns: self.pattern.A[:, [ ... ]]
        cols = None
        for _, m in subexprs(pattern, "self.pattern.A[:, $idx]"):
            cols = m["idx"]
        if cols is None or not isinstance(cols, ast.List):
            raise AnalysisError(f"{s.where()}: column selection of A not found")
        segs_c: list[tuple[str, str]] = []
        for e in cols.elts:
            if isinstance(e, ast.Starred):
                m = norm.match(T("range($a, $b)"), e.value)
                m1 = norm.match(T("range($b)"), e.value)
                if m is not None:
                    segs_c.append((_norm_n(m["a"], "0"), _norm_n(m["b"], "N")))
                elif m1 is not None:
                    segs_c.append(("0", _norm_n(m1["b"], "N")))
                else:
                    raise AnalysisError(f"{s.where()}: column index element {ast.unparse(e)} not understood")
            elif isinstance(e, ast.Constant) and isinstance(e.value, int):
                segs_c.append((str(e.value), str(e.value + 1)))
            else:
                raise AnalysisError(f"{s.where()}: column index element {ast.unparse(e)} not understood")
        norm_seg = lambda segs: [(a, "1" if (a, b) == ("0", "1") or b == "1" else b) for a, b in segs]
        sb, sc = norm_seg(segs_b), norm_seg(segs_c)
        chk.result(sb == sc, "C03.rotate", f"{f.key}:same-permutation", s.where(),
                   f"bounds and columns are both reordered as {sb}",
                   f"bounds are reordered as {sb} but the columns of A as {sc}: each iteration index now has another dimension's bound")
        # permutation of [0, N): segments, sorted by the order 0 < 1 < dim < N, chain up
        order = {"0": 0, "1": 1, "dim": 2, "N": 3}
        try:
            srt = sorted(sb, key=lambda ab: order[ab[0]])
            chain = srt[0][0] == "0" and srt[-1][1] == "N" and all(srt[i][1] == srt[i + 1][0] for i in range(len(srt) - 1))
        except KeyError:
            chain = False
        chk.result(chain, "C03.rotate", f"{f.key}:is-permutation", s.where(),
                   "the index segments partition [0, N)", f"index segments {sb} do not partition [0, N): a dimension is dropped or duplicated")
        chk.result(depends_on(pattern, "AffineTransform($_, self.pattern.b)"), "C03.rotate", f"{f.key}:offset-kept", s.where(),
                   "the constant term b is kept")
        # the segments [1, dim) [0, 1) [dim, N) partition [0, N) only for dim >= 1: with dim = 0 the first is empty and dimension 0 is taken twice
        if any(a == "1" or b == "dim" for a, b in sb):
            lo = every_alt_has(s, [f"{dim_p} >= 1", f"{dim_p} > 0", f"{dim_p} > 1", f"{dim_p} >= 2", f"1 <= {dim_p}", f"0 < {dim_p}"])
            chk.result(lo, "C03.rotate", f"{f.key}:dim-at-least-one", s.where(), "the rotated form is built only for dim >= 1",
                       "the rotated form is built for every `dim`: rotate(0) takes dimension 0 twice (bounds (2, 3) become (2, 2, 3)) - a schedule with one more loop that "
                       "visits every operand index twice", s.fact_texts)


# --------------------------------------------------------------------------- tile_dim
def tile_factor(repo: Repo, chk: Check) -> None:
    f, fl = flow_of(repo, chk, AP, "SchedulePattern.tile_dim")
    dim, tb = f.param(1), f.param(2)
    chk.rule(
        "C03.tile-factor",
        "tile_dim: outer bound = bounds[dim] // T, inner bound = T, outer index multiplied by the same T, inner index "
        "coefficient 1, both at positions dim, dim+1, later indices shifted by one, one extra dimension",
        floor=5,
    )
    rets = [s for s in fl.stmts(ast.Return) if s.reachable]
    if not rets:
        raise AnalysisError(f"{f.where}: no return")
    for s in rets:
        v = s.expand(s.node.value)
        if not (isinstance(v, ast.Call) and len(v.args) >= 2):
            raise AnalysisError(f"{s.where()}: tile_dim does not return type(self)(bounds, pattern)")
        bounds, pattern = v.args[0], v.args[1]
        b = {"d": dim, "t": tb}
        okb = norm.any_match(
            ["self.bounds[:$d] + (self.bounds[$d] // $t, $t) + self.bounds[$d + 1:]",
             "(*self.bounds[:$d], self.bounds[$d] // $t, $t, *self.bounds[$d + 1:])"], bounds, b) is not None
        chk.result(okb, "C03.tile-factor", f"{f.key}:bounds", s.where(),
                   "new bounds = bounds[:dim] + (bounds[dim] // T, T) + bounds[dim+1:]",
                   f"new bounds are {ast.unparse(bounds)[:140]}; expected bounds[:dim] + (bounds[dim] // T, T) + bounds[dim+1:] with T the tile size parameter")
        okc = norm.match(T("self.pattern.compose($m)"), pattern) is not None
        chk.result(okc, "C03.tile-factor", f"{f.key}:compose", s.where(), "the pattern is composed with the index-splitting map")
        res = None
        nd = None
        for _, m in subexprs(pattern, "AffineMap(num_dims=$n, num_symbols=0, results=$r)"):
            res, nd = m["r"], m["n"]
        if res is None:
            raise AnalysisError(f"{s.where()}: AffineMap(...) construction not found")
        chk.result(norm.any_match(["self.num_dims + 1", "len(self.bounds) + 1", "1 + self.num_dims"], nd) is not None,
                   "C03.tile-factor", f"{f.key}:num-dims", s.where(), "the split map has one more dimension")
        mid = subexprs(res, "AffineDimExpr($d) * $t + AffineDimExpr($d + 1)", b) + subexprs(res, "$t * AffineDimExpr($d) + AffineDimExpr($d + 1)", b) + \
            subexprs(res, "AffineDimExpr($d + 1) + AffineDimExpr($d) * $t", b)
        chk.result(bool(mid), "C03.tile-factor", f"{f.key}:split-expr", s.where(),
                   "old index dim = T * d_dim + d_{dim+1} with the same T",
                   f"the split expression in {ast.unparse(res)[:160]} is not `d_dim * T + d_(dim+1)` with T the tile size: the multiplier differs from the inserted bound")
        def comps(elt_t: str, iter_ts: list[str]) -> list[ast.AST]:
            """comprehensions (list / generator, however wrapped or spliced) with that element over that range"""
            out_ = []
            for c_ in ast.walk(res):
                if isinstance(c_, (ast.ListComp, ast.GeneratorExp)) and len(c_.generators) == 1 and not c_.generators[0].ifs and isinstance(c_.generators[0].target, ast.Name):
                    iv = c_.generators[0].target.id
                    if norm.match(T(elt_t), c_.elt, {"i": iv}) is not None and norm.any_match(iter_ts, c_.generators[0].iter, {"d": dim}) is not None:
                        out_.append(c_)
            return out_

        pre = comps("AffineDimExpr($i)", ["range($d)", "range(0, $d)"])
        post = comps("AffineDimExpr($i + 1)", ["range($d + 1, self.num_dims)", "range($d + 1, len(self.bounds))"])
        if pre and post and mid:
            # identity prefix, split expression, shifted suffix - in that order
            txt = ast.unparse(res)
            pos_ = [txt.find(ast.unparse(x)) for x in (pre[0], mid[0][0], post[0])]
            if not (0 <= pos_[0] < pos_[1] < pos_[2]):
                pre = []
        chk.result(bool(pre) and bool(post), "C03.tile-factor", f"{f.key}:other-indices", s.where(),
                   "indices before dim are unchanged, indices after dim are shifted by one",
                   "the identity prefix / shifted suffix of the split map changed")


def add_dim(repo: Repo, chk: Check) -> None:
    f, fl = flow_of(repo, chk, AP, "SchedulePattern.add_dim")
    chk.rule("C03.add-dim", "add_dim inserts the bound 1 in front and shifts every index by one (the new dim is referenced by no result)", floor=2)
    for s in [x for x in fl.stmts(ast.Return) if x.reachable]:
        v = s.expand(s.node.value)
        if not (isinstance(v, ast.Call) and len(v.args) >= 2):
            raise AnalysisError(f"{s.where()}: add_dim does not return type(self)(bounds, pattern)")
        bounds, pattern = v.args[0], v.args[1]
        chk.result(norm.any_match(["(1,) + self.bounds", "(1, *self.bounds)"], bounds) is not None, "C03.add-dim", f"{f.key}:bounds", s.where(),
                   "new bounds = (1,) + bounds", f"new bounds are {ast.unparse(bounds)[:80]}: the inserted dimension must have bound 1")
        ok = bool(subexprs(pattern, "AffineMap(num_dims=self.num_dims + 1, num_symbols=0, results=tuple((AffineDimExpr($i + 1) for $i in range(self.num_dims))))"))
        if not ok:
            # the same map with its results spelled as a list / generator, handed through a helper parameter: tuple([..]), tuple(tuple(..))
            for _, m_ in subexprs(pattern, "AffineMap(num_dims=self.num_dims + 1, num_symbols=0, results=$r)"):
                r_ = norm.primary(m_["r"])
                for _k in range(4):
                    if isinstance(r_, ast.Call) and isinstance(r_.func, ast.Name) and r_.func.id in ("tuple", "list") and len(r_.args) == 1:
                        r_ = norm.primary(r_.args[0])
                if isinstance(r_, (ast.ListComp, ast.GeneratorExp)) and len(r_.generators) == 1 and not r_.generators[0].ifs and isinstance(r_.generators[0].target, ast.Name) \
                        and norm.match(T("range(self.num_dims)"), r_.generators[0].iter) is not None \
                        and norm.match(T("AffineDimExpr($i + 1)"), r_.elt, {"i": r_.generators[0].target.id}) is not None:
                    ok = True
        if not ok and not any(isinstance(c_, ast.Call) and callee_name(c_) == "AffineMap" for c_ in ast.walk(pattern)):
            # the map is built somewhere this clause does not look (a helper shared with tile_dim, say): not a verdict
            raise AnalysisError(f"{s.where()}: the shifted map of add_dim is built by `{ast.unparse(pattern)[:80]}`, which this clause does not look through")
        chk.result(ok and norm.match(T("self.pattern.compose($_)"), pattern) is not None, "C03.add-dim", f"{f.key}:shift", s.where(),
                   "every old index i becomes i + 1", "the index shift of add_dim changed")


# --------------------------------------------------------------------------- dropping unit dims
def _abstract_eval(pred: ast.expr, var: str, value) -> bool | None:
    """evaluate a predicate over one variable on an abstract sample (None or an int) — interpretation of
    the predicate's AST, nothing of the analysed tree is executed"""

    def ev(n: ast.AST):
        if isinstance(n, ast.Name) and n.id == var:
            return value
        if isinstance(n, ast.Constant):
            return n.value
        if isinstance(n, ast.BoolOp):
            # short-circuit like Python does: `b is None or b > 1` never compares None
            last = None
            for sub_ in n.values:
                last = ev(sub_)
                if isinstance(n.op, ast.And) and not last:
                    return last
                if isinstance(n.op, ast.Or) and last:
                    return last
            return last
        if isinstance(n, ast.UnaryOp) and isinstance(n.op, ast.Not):
            return not ev(n.operand)
        if isinstance(n, ast.Compare) and len(n.ops) == 1:
            l, r = ev(n.left), ev(n.comparators[0])
            op = n.ops[0]
            if isinstance(op, ast.Is):
                return l is r
            if isinstance(op, ast.IsNot):
                return l is not r
            if isinstance(op, ast.Eq):
                return l == r
            if isinstance(op, ast.NotEq):
                return l != r
            if l is None or r is None:
                raise TypeError
            return {ast.Gt: l > r, ast.GtE: l >= r, ast.Lt: l < r, ast.LtE: l <= r}[type(op)]
        raise ValueError(ast.unparse(n))

    try:
        return bool(ev(pred))
    except TypeError:
        return None
    except (ValueError, KeyError):
        raise AnalysisError(f"predicate {ast.unparse(pred)} not evaluable on the abstract domain")


def _filters(v: ast.expr) -> list[tuple[str, ast.expr, ast.expr, ast.expr]]:
    """(var, sequence, predicate, elt) of every filtering comprehension in v"""
    out = []
    for sub in ast.walk(v):
        if isinstance(sub, (ast.ListComp, ast.GeneratorExp)) and len(sub.generators) == 1:
            gg = sub.generators[0]
            seq, var = gg.iter, None
            if isinstance(gg.target, ast.Name):
                var = gg.target.id
            elif isinstance(gg.target, ast.Tuple) and len(gg.target.elts) == 2 and norm.match(T("enumerate($s)"), gg.iter) is not None:
                var = gg.target.elts[1].id  # type: ignore[attr-defined]
                seq = gg.iter.args[0]  # type: ignore[attr-defined]
            if var is None and isinstance(gg.target, ast.Tuple) and len(gg.target.elts) == 2 and all(isinstance(e, ast.Name) for e in gg.target.elts) \
                    and len(gg.ifs) == 1:
                # selection by a mask computed from the same sequence: [x for x, keep in zip(S, [p(y) for y in S]) if keep]
                mz = norm.match(T("zip($s, $k)"), gg.iter)
                tx, tk = (e.id for e in gg.target.elts)  # type: ignore[attr-defined]
                if mz is not None and isinstance(gg.ifs[0], ast.Name) and gg.ifs[0].id == tk:
                    mask = norm.primary(mz["k"])
                    if isinstance(mask, (ast.ListComp, ast.GeneratorExp)) and len(mask.generators) == 1 and not mask.generators[0].ifs \
                            and isinstance(mask.generators[0].target, ast.Name) and ast.unparse(norm.primary(mask.generators[0].iter)) == ast.unparse(norm.primary(mz["s"])):
                        out.append((mask.generators[0].target.id, mz["s"], mask.elt, sub.elt))
                        continue
                raise AnalysisError(f"selection `{ast.unparse(sub)[:100]}` is not recognised as a filter over one sequence")
            if var is None:
                continue
            pred = gg.ifs[0] if len(gg.ifs) == 1 else (ast.BoolOp(ast.And(), gg.ifs) if gg.ifs else sub.elt)
            if not gg.ifs and not isinstance(sub.elt, (ast.BoolOp, ast.Compare)):
                continue
            out.append((var, seq, pred, sub.elt))
    return out


def drop_unit(repo: Repo, chk: Check, rule: str = "C03.drop-unit", quals: tuple[str, ...] = ("AccessPattern.canonicalize", "PatternCollection.clear_unused_dims"), floor: int = 4) -> None:
    chk.rule(
        rule,
        "where unit dimensions are dropped, bounds and matrix columns are filtered by the same predicate over the same "
        "bound sequence, and the predicate only rejects bound == 1",
        floor=floor,
    )
    for qual in quals:
        f, fl = flow_of(repo, chk, AP, qual)
        for s in [x for x in fl.stmts(ast.Return) if x.reachable]:
            v = fl.cone(s.node.value, s, inline=0)
            fs = _filters(v)
            if len(fs) < 2:
                raise AnalysisError(f"{s.where()}: expected a bounds filter and a column filter, found {len(fs)}")
            canon = []
            for var, seq, pred, _ in fs:
                p = expand(pred, {var: ast.Name("__b__", ast.Load())})
                canon.append((ast.unparse(norm.primary(seq)), ast.unparse(norm.canon(p))))
            same = len(set(canon)) == 1
            chk.result(same, rule, f"{f.key}:same-predicate", s.where(),
                       f"bounds and columns are filtered by `{canon[0][1]}` over `{canon[0][0]}`",
                       f"bounds and columns are filtered differently: {sorted(set(canon))}: a dimension keeps its column but loses its bound (or vice versa)")
            # dropping columns is ALL that happens to the maps: no column is rewritten and the bias is the original one
            altered = [ast.unparse(c)[:60] for c in ast.walk(v) if isinstance(c, ast.Call) and isinstance(c.func, ast.Name) and (
                c.func.id == "__store__" or c.func.id.startswith("__mut_")) and (norm.contains(c, T("$p.A")) or norm.contains(c, T("$p.b")) or True)]
            biases = [c.args[1] for c in ast.walk(v) if isinstance(c, ast.Call) and callee_name(c) == "AffineTransform" and len(c.args) >= 2]
            bias_changed = [ast.unparse(norm.primary(b_))[:60] for b_ in biases if any(isinstance(x, ast.BinOp) for x in ast.walk(norm.primary(b_)))
                            or not norm.contains(b_, T("$p.b"))]
            if qual == "AccessPattern.canonicalize":
                chk.result(not altered and not bias_changed, rule, f"{f.key}:only-selection", s.where(),
                           "the returned map is a column selection of the original matrix with the original bias",
                           f"the map is changed beyond dropping unit dimensions (stores into the matrix: {altered[:2]}; bias: {bias_changed[:2]}): operands are "
                           "canonicalised one by one, so re-orienting a dimension for one operand changes the joint index tuples")
            var, _, pred, _ = fs[0]
            keeps = {val: _abstract_eval(pred, var, val) for val in (None, 0, 1, 2, 3, 10**9)}
            ok = keeps[1] is False and all(keeps[k] in (True, None) for k in (0, 2, 3, 10**9)) and keeps[None] in (True, None)
            chk.result(ok, rule, f"{f.key}:only-unit", s.where(),
                       "the predicate rejects exactly bound == 1",
                       f"the keep-predicate `{ast.unparse(pred)}` evaluates to {keeps} on None/0/1/2/3/large: it drops a dimension that does not have exactly one iteration "
                       "(a dynamic bound, an empty dimension, or one with several iterations)")


# --------------------------------------------------------------------------- the iteration box handed to the scheduler
def initial_bounds(repo: Repo, chk: Check) -> None:
    chk.rule(
        "C03.initial-bounds",
        "OperationOp.get_static_pattern_bounds returns the bound of dimension d at position d: it evaluates the shapes-to-pattern-bounds "
        "map (the inverse permutation) on the static shapes, or builds the sequence by dimension index - never in the order in which the "
        "dimensions happen to be used first by the operands",
        floor=1,
    )
    g = repo.func("snaxc/dialects/dart.py", "OperationOp.get_static_pattern_bounds")
    chk.analysed(g.key)
    gfl = Flow(g, repo)
    rets = [s for s in gfl.stmts(ast.Return) if s.reachable and s.node.value is not None]
    if not rets:
        raise AnalysisError(f"{g.where}: no return")
    for n_, s in enumerate(rets, 1):
        v = gfl.cone(s.node.value, s, inline=0)
        by_map = depends_on(v, "$x.get_shapes_to_pattern_bounds_map().eval($s, $_)") and depends_on(v, "$x.get_static_shapes()")
        by_index = any(isinstance(c, (ast.ListComp, ast.GeneratorExp)) and any(isinstance(g_.iter, ast.Call) and callee_name(g_.iter) == "range" for g_ in c.generators)
                       for c in ast.walk(norm.primary(s.expand(s.node.value)))) or any(
            isinstance(c, ast.Call) and callee_name(c) == "sorted" for c in ast.walk(norm.primary(s.expand(s.node.value))))
        first_use = any(isinstance(c, ast.Call) and isinstance(c.func, ast.Attribute) and c.func.attr == "values" and not c.args for c in ast.walk(norm.primary(s.expand(s.node.value))))
        if not (by_map or by_index or first_use):
            raise AnalysisError(f"{s.where()}: the construction of the pattern bounds is not recognised")
        chk.result(by_map or (by_index and not first_use), "C03.initial-bounds", f"{g.key}:dimension-order#{n_}", s.where(),
                   "bounds are returned in dimension order",
                   "the bounds are the values of a dictionary in insertion order, i.e. in the order the operands first use the dimensions: for maps "
                   "(d0,d2),(d2,d1),(d0,d1) the bound of d2 lands on d1 (any non-square matmul is iterated over the wrong box)")


# --------------------------------------------------------------------------- the pass
def schedule_from_op(repo: Repo, chk: Check) -> None:
    f, fl = flow_of(repo, chk, PASS, "AutoflowScheduler.match_and_rewrite")
    op = f.param(1)
    chk.rule(
        "C03.schedule-from-op",
        "on every path the emitted schedule is scheduler(template of this op, Schedule built from this op's static "
        "bounds and from every pattern of this op), and the ScheduleOp gets schedule[0].bounds and one map per pattern",
        floor=3,
    )
    sites = [s for s in fl.calls("ScheduleOp") if s.reachable]
    if not sites:
        raise AnalysisError(f"{f.where}: ScheduleOp construction not found")
    for s in sites:
        call = s.node
        assert isinstance(call, ast.Call)
        if len(call.args) < 5:
            raise AnalysisError(f"{s.where()}: ScheduleOp(...) with fewer than 5 positional arguments")
        maps_raw, bounds_raw = call.args[2], call.args[4]
        sched_names = {n for n in norm.free_names(ast.Tuple([maps_raw, bounds_raw], ast.Load())) if n in fl.alldefs} - {op}
        bad_alt = None
        for alt in s.state.alts:
            for nm in sched_names:
                if nm not in alt.env:
                    if nm in fl.alldefs:
                        bad_alt = f"`{nm}` has no unique definition on some path"
                    continue
                d = alt.env[nm]
                if not any(isinstance(x, ast.Call) and callee_name(x) == "scheduler" for x in ast.walk(d)):
                    continue
                if not (depends_on(d, "$op.get_static_pattern_bounds()", binds={"op": op}) and depends_on(d, "$op.patterns", binds={"op": op})):
                    bad_alt = f"`{nm}` = {ast.unparse(d)[:100]} does not depend on op.get_static_pattern_bounds() and op.patterns"
            # the schedule variable must come from scheduler(...) in this path class
            produced = [nm for nm in sched_names if nm in alt.env and any(isinstance(x, ast.Call) and callee_name(x) == "scheduler" for x in ast.walk(alt.env[nm]))]
            if not produced:
                bad_alt = bad_alt or "on some path the schedule handed to ScheduleOp is not the result of scheduler(...) for this op"
        chk.result(bad_alt is None, "C03.schedule-from-op", f"{f.key}:from-this-op", s.where(),
                   "on every path the schedule is scheduler(...) of a Schedule built from this op's bounds and patterns",
                   bad_alt or "")
        e = s.expand(ast.Tuple([maps_raw, bounds_raw], ast.Load()))
        sched_expr = None
        for sub in ast.walk(e):
            if isinstance(sub, ast.Call) and callee_name(sub) == "scheduler":
                sched_expr = sub
        if sched_expr is not None:
            init = sched_expr.args[1] if len(sched_expr.args) > 1 else None
            ok_init = init is not None and depends_on(init, "Schedule((SchedulePattern(tuple($op.get_static_pattern_bounds()), $p.data) for $p in $op.patterns.data))", binds={"op": op})
            chk.result(ok_init, "C03.schedule-from-op", f"{f.key}:all-patterns", s.where(),
                       "the initial schedule has one SchedulePattern per pattern of the op, all with the op's static bounds",
                       f"the initial schedule is built as {ast.unparse(init)[:160] if init is not None else None}")
        mb = s.expand(bounds_raw)
        mm = s.expand(maps_raw)
        m1 = norm.match(T("$s[0].bounds"), mb)
        ok_emit = m1 is not None and bool(subexprs(mm, "[AffineMapAttr($x.pattern.to_affine_map()) for $x in $s]", {"s": m1["s"]}))
        chk.result(ok_emit, "C03.schedule-from-op", f"{f.key}:emit", s.where(),
                   "the ScheduleOp gets schedule[0].bounds and one affine map per scheduled pattern",
                   "the emitted bounds / maps are not taken from the same schedule, one map per pattern")
